"""Running TLC: model checking (MC), script generation (Gen) and batched trace validation (Trace).

All TLC invocations run on a copy of /verif/specs inside the per-run scratch directory, with -metadir there too,
so nothing is written into /verif and the scratch directory is removed when the check ends.
"""
import json
import os
import re
import shutil
import subprocess
import time

from . import util

_RE_STATES = re.compile(r"(\d+) states generated, (\d+) distinct states found, (\d+) states left on queue")
_RE_DEPTH = re.compile(r"The depth of the complete state graph search is (\d+)")
_RE_VERDICT = re.compile(r'<<\s*"VERDICT",\s*(\d+),\s*"([^"]*)"\s*>>', re.S)
_RE_REJECTED = re.compile(r'"REJECTED",\s*\{([^}]*)\}', re.S)


def _specdir(ctx):
    d = os.path.join(ctx.scratch, "specs")
    if not os.path.isdir(d):
        shutil.copytree(util.SPECS, d)
    return d


def run(ctx, module, cfg=None, cfg_text=None, workers=16, timeout=900, env=None, extra=(), tag=None):
    """Run TLC on specs/<module>.tla; returns (stdout, stats).  Raises MachineryError on timeout / parse failure."""
    d = _specdir(ctx)
    tag = tag or (cfg or module)
    if cfg_text is not None:
        cfg = "%s_%d.cfg" % (module, int(time.time() * 1e6) % 10**9)
        with open(os.path.join(d, cfg), "w") as f:
            f.write(cfg_text)
    cfg = cfg or (module + ".cfg")
    meta = os.path.join(ctx.scratch, "meta_%s_%d" % (module, int(time.time() * 1e6) % 10**9))
    # (a deep thread stack only for single-worker runs - trace validation recurses over long call lists; 16 workers with such
    # stacks would reserve gigabytes)
    cmd = ["java", "-XX:+UseParallelGC", "-Xmx6g"] + (["-Xss512m"] if workers == 1 else []) + ["-cp",
           "/opt/veriftools/tla/tla2tools.jar:/opt/veriftools/tla/CommunityModules-deps.jar", "tlc2.TLC",
           "-workers", str(workers), "-metadir", meta, "-noGenerateSpecTE", "-config", cfg] + list(extra) + [module + ".tla"]
    e = dict(os.environ)
    e.pop("JAVA_TOOL_OPTIONS", None)
    if env:
        e.update(env)
    t0 = time.time()

    def unpin():
        try:
            os.sched_setaffinity(0, {int(x) for x in os.environ["VERIF_ALLCPUS"].split(",")})
        except Exception:
            pass
    try:
        p = subprocess.run(cmd, cwd=d, env=e, stdout=subprocess.PIPE, stderr=subprocess.STDOUT, timeout=timeout, preexec_fn=unpin)
    except subprocess.TimeoutExpired:
        raise util.MachineryError("TLC timed out after %ds on %s/%s" % (timeout, module, cfg))
    finally:
        shutil.rmtree(meta, ignore_errors=True)
    out = p.stdout.decode("utf-8", "replace")
    stats = {"module": module, "cfg": tag, "wall_s": round(time.time() - t0, 2), "rc": p.returncode}
    m = None
    for m in _RE_STATES.finditer(out):
        pass
    if m:
        stats.update(generated=int(m.group(1)), distinct=int(m.group(2)), queue=int(m.group(3)))
    m = _RE_DEPTH.search(out)
    if m:
        stats["depth"] = int(m.group(1))
    stats["ok"] = "Model checking completed. No error has been found." in out
    return out, stats


def _fail(module, out, what):
    tail = "\n".join(out.splitlines()[-40:])
    raise util.MachineryError("%s: %s\n--- TLC output (tail) ---\n%s" % (module, what, tail))


def mc(ctx, module, cfg=None, cfg_text=None, workers=16, timeout=900, extra=(), expect_ok=True):
    """Exhaustive model check.  The MC models state the design the property describes; an error there is a
    machinery failure (the model is wrong), not a verdict about the code."""
    out, stats = run(ctx, module, cfg, cfg_text, workers, timeout, extra=extra)
    if expect_ok and not stats["ok"]:
        _fail(module, out, "model checking did not complete without error")
    if "distinct" not in stats:
        _fail(module, out, "could not parse TLC statistics")
    ctx.add_mc(stats, "MC")
    return out, stats


def gen(ctx, module, cfg=None, cfg_text=None, timeout=900, workers=1, extra=()):
    """TLC enumerates environment scripts / abstract cases; every line `"SCRIPT <json>"` is one script."""
    out, stats = run(ctx, module, cfg, cfg_text, workers, timeout, extra=extra)
    if not stats["ok"] and "-simulate" not in extra:
        _fail(module, out, "script generation did not complete")
    scripts = []
    for line in out.splitlines():
        if line.startswith('"SCRIPT '):
            try:
                s = json.loads(line)
                scripts.append(json.loads(s[7:]))
            except ValueError:
                _fail(module, out, "unparsable SCRIPT line: " + line[:200])
    if "distinct" in stats:
        ctx.add_mc(stats, "Gen")
    return scripts


def validate(ctx, module, traces, cfg=None, cfg_text=None, timeout=1800, mode="monitor", batch=4000, extra_env=None):
    """Batched trace validation.  traces: list of JSON-able traces (each a list of event records, or any object the
    trace spec understands).  Returns list verdict[i]: "" = accepted, otherwise the name of the violated clause.

    mode "monitor": the trace spec is a total monitor and prints <<"VERDICT", t, bad>> once per trace.
    mode "search" : the trace spec searches for an explanation (e.g. linearization points); it sets register t to
                    TRUE when some behaviour consumes the whole trace and its POSTCONDITION prints <<"REJECTED", {..}>>.
    """
    verdicts = [None] * len(traces)
    infos = [None] * len(traces)
    for base in range(0, len(traces), batch):
        part = traces[base:base + batch]
        tf = os.path.join(ctx.scratch, "traces_%s_%d.json" % (module, base))
        with open(tf, "w") as f:
            json.dump(part, f)
        env = {"TRACE_FILE": tf}
        if extra_env:
            env.update(extra_env)
        out, stats = run(ctx, module, cfg, cfg_text, workers=1, timeout=timeout, env=env)
        os.unlink(tf)
        if "distinct" in stats:
            ctx.add_mc(stats, "Trace")
        if mode == "monitor":
            if not stats["ok"]:
                _fail(module, out, "trace validation run failed")
            for m in _RE_VERDICT.finditer(out):
                i = int(m.group(1)) - 1
                if verdicts[base + i] is None or (verdicts[base + i] == "" and m.group(2)):
                    verdicts[base + i] = m.group(2)
            for i in range(len(part)):
                if verdicts[base + i] is None:
                    _fail(module, out, "no verdict for trace %d (monitor not total?)" % (base + i))
        else:
            m = _RE_REJECTED.search(out)
            if m is None:
                if not stats["ok"]:
                    _fail(module, out, "trace validation run failed")
                rej = set()
            else:
                rej = {int(x) for x in re.split(r"[\s,]+", m.group(1)) if x}
                # anything else than the postcondition failing is a machinery problem
                if "is violated" in out and "Post" not in out:
                    _fail(module, out, "unexpected TLC error in search-mode validation")
            for i in range(len(part)):
                verdicts[base + i] = "NoExplanation" if (i + 1) in rej else ""
        ctx.traces_validated += len(part)
    return verdicts, infos
