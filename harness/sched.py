"""Deterministic scheduler for real Python threads, with a virtual clock.

Exactly one controlled thread runs at any time.  A thread gives up control at *yield points*:
  - blocking operations of the cooperative primitives below (Lock/RLock/Event, fake sockets, sleep), always;
  - in fine mode additionally before every source line of the chosen files (sys.settrace 'line' events).
At every yield point the scheduler (the thread that called Sched.run) picks the next thread with `chooser`.
A blocked thread carries a predicate and optionally a timeout; timeouts fire, in virtual time, only when no thread
at all is enabled.  If nothing is enabled and no timer is pending, the run is deadlocked: the main thread is
resumed with Hang (a BaseException, so library code cannot swallow it).

All events are totally ordered (one thread at a time), so any log written by controlled threads is in real order.
"""
import os
import sys
import threading as _threading
from _thread import allocate_lock as _allocate_lock
import types

_real = _threading


class Hang(BaseException):
    """nothing can make progress"""


class SchedAbort(BaseException):
    """raised inside left-over threads when the run is over"""


class StepLimit(BaseException):
    pass


CUR = None      # the active scheduler (one at a time per process)


def prefer_others(names, sched):
    """strict hand-off: the environment ('main') runs only when no other thread can; others in name order"""
    for n in names:
        if n != "main":
            return n
    return names[0]


class _Signal:
    """binary signal on a raw lock: release() by the signaller, acquire() by the single waiter (never signalled twice
    before it is consumed)"""
    __slots__ = ("_l",)

    def __init__(self):
        self._l = _allocate_lock()
        self._l.acquire()

    def release(self):
        self._l.release()

    def acquire(self, timeout=-1):
        return self._l.acquire(True, timeout)


class SpinDetected(BaseException):
    """injected into a controlled thread that has been running for SPIN_LIMIT seconds of real time without reaching a yield
    point (a busy loop in the code under test): it ends that thread instead of hanging the whole check"""


SPIN_LIMIT = 20.0


class Sched:
    """Hand-off is direct: every controlled thread parks on its own semaphore and the scheduler on its own, so a
    context switch costs two semaphore operations and wakes exactly one thread."""

    def __init__(self, chooser=prefer_others, trace_filter=None, max_steps=200000):
        self.chooser = chooser
        self.trace_filter = trace_filter        # callable(code) -> bool, or None for coarse mode
        self.state = {}       # ident -> 'ready' | 'running' | 'blocked' | 'done'
        self.waitfor = {}     # ident -> predicate
        self.deadline = {}    # ident -> virtual time
        self.wake = {}        # ident -> 'ok' | 'timeout' | 'hang' | 'abort'
        self.sem = {}         # ident -> semaphore the thread parks on
        self.sched_sem = _Signal()
        self.reg_sem = _Signal()
        self.names = {}
        self.threads = {}
        self.now = 0.0
        self.steps = 0
        self.max_steps = max_steps
        self.log = []         # schedule: names in the order chosen
        self.abort = False
        self.counter = {}
        self.errors = []      # uncaught exceptions of controlled threads (name, exception)
        self.soft = set()     # names of threads currently parked at a soft yield
        self.timer_names = set()   # names offered to the chooser only because their timer could fire now
        self.budget_at = None # step number after which the main thread is resumed with Hang (per-scenario watchdog)
        self._filter_cache = {}

    # ---------------------------------------------------------------- inside controlled threads
    def me(self):
        return _real.get_ident()

    def controlled(self):
        return _real.get_ident() in self.state

    def fresh_name(self, prefix):
        self.counter[prefix] = self.counter.get(prefix, 0) + 1
        return "%s%d" % (prefix, self.counter[prefix])

    def _park(self, t):
        self.sem[t].acquire()
        self.state[t] = "running"
        self.waitfor.pop(t, None)
        self.deadline.pop(t, None)
        return self.wake.pop(t, "ok")

    def _register(self, name):
        t = self.me()
        self.names[t] = name
        self.sem[t] = _Signal()
        self.state[t] = "ready"
        self.reg_sem.release()          # the spawner continues; this thread waits for its first turn
        w = self._park(t)
        if w == "abort":
            raise SchedAbort()

    def yield_point(self, pred=None, timeout=None):
        """returns True when resumed normally (pred true), False when the timeout fired"""
        t = self.me()
        if t not in self.state:
            return True
        if self.abort:
            raise SchedAbort()
        if pred is None:
            self.state[t] = "ready"
        else:
            self.state[t] = "blocked"
            self.waitfor[t] = pred
            if timeout is not None:
                self.deadline[t] = self.now + timeout
        self.sched_sem.release()
        w = self._park(t)
        if w == "abort":
            raise SchedAbort()
        if w == "hang":
            raise Hang()
        return w != "timeout"

    def set_budget(self, nsteps):
        """watchdog: if more than nsteps scheduler steps pass from now, 'main' is resumed with Hang (None = off)"""
        self.budget_at = None if nsteps is None else self.steps + nsteps

    def soft_yield(self):
        """yield between two steps of an environment script: others go first by default (see PreemptionBounded)"""
        n = self.names.get(self.me())
        self.soft.add(n)
        try:
            self.yield_point()
        finally:
            self.soft.discard(n)

    def sleep(self, d):
        if d is None or d <= 0:
            self.yield_point()
        else:
            self.yield_point(lambda: False, timeout=d)

    def quiesce(self):
        """block the caller until every other thread is blocked on something that is not satisfied (timers do not count)"""
        me = self.me()

        def quiet():
            for t, s in self.state.items():
                if t == me or s == "done":
                    continue
                if s != "blocked":
                    return False
                if self.waitfor[t]():
                    return False
            return True
        self.yield_point(quiet)

    def _finish(self):
        t = self.me()
        self.state[t] = "done"
        self.sched_sem.release()

    def _tracer(self, frame, event, arg):
        code = frame.f_code
        ok = self._filter_cache.get(code)
        if ok is None:
            ok = self._filter_cache[code] = bool(self.trace_filter(code))
        return self._local if ok else None

    def _local(self, frame, event, arg):
        if event == "line":
            self.yield_point()
        return self._local

    def _body(self, name, fn, trace):
        registered = False
        try:
            self._register(name)
            registered = True
            if self.trace_filter is not None and trace:
                sys.settrace(self._tracer)
            try:
                fn()
            finally:
                sys.settrace(None)
        except (SchedAbort, Hang, StepLimit):
            pass
        except BaseException as x:     # noqa
            self.errors.append((name, x))
        finally:
            if registered or self.me() in self.state:
                self._finish()
            # (a thread that has ended is not kept: the thread object of a oneway call refers to the method it ran, and through
            # it to the object that served the call)
            self.threads.pop(self.me(), None)

    def spawn(self, name, fn, trace=True):
        """start a controlled thread; returns once it is parked waiting for its first turn"""
        th = _real.Thread(target=lambda: self._body(name, fn, trace), daemon=True, name=name)
        th.start()
        self.reg_sem.acquire()
        self.threads[th.ident] = th
        return th

    def adopt_start(self, thread, prefix):
        """start() replacement for Thread subclasses of the code under test (workers, oneway threads)"""
        name = self.fresh_name(prefix)
        orig_run = thread.run
        thread.run = lambda: self._body(name, orig_run, True)
        _real.Thread.start(thread)
        self.reg_sem.acquire()
        self.threads[thread.ident] = thread
        thread._verif_name = name
        return name

    # ---------------------------------------------------------------- scheduler loop
    def run(self, main_fn):
        """run main_fn as thread 'main' under the scheduler until it returns; then abort whatever is left"""
        global CUR
        CUR = self
        result = {}

        def main():
            try:
                result["v"] = main_fn()
            except Hang:
                result["hang"] = True
                raise
            except SchedAbort:
                raise
            except BaseException:
                # the script's own thread died of something the harness did not expect: say so (the caller sees a session that
                # ended early)
                import traceback
                result["exc"] = traceback.format_exc()
                sys.stderr.write("harness: the script thread ended with an exception\n" + result["exc"])
                sys.stderr.flush()
                raise
        self.spawn("main", main)
        main_id = [t for t, n in self.names.items() if n == "main"][0]
        try:
            while True:
                if self.state[main_id] == "done":
                    break
                enabled = [t for t, s in self.state.items()
                           if s == "ready" or (s == "blocked" and self.waitfor[t]())]
                # a sleeping / timed-out thread may also wake before a runnable one gets the processor: choosers that ask
                # for it (schedule exploration) are offered the pending timers as further alternatives
                sleepers = []
                if enabled and getattr(self.chooser, "wants_timers", False):
                    sleepers = [t for t, d in self.deadline.items() if self.state[t] == "blocked" and t not in enabled]
                    self.timer_names = {self.names[t] for t in sleepers}
                if not enabled:
                    timers = sorted((d, self.names[t], t) for t, d in self.deadline.items() if self.state[t] == "blocked")
                    if timers:
                        d, _, t = timers[0]
                        self.now = max(self.now, d)
                        self.wake[t] = "timeout"
                        pick = t
                    else:
                        self.wake[main_id] = "hang"
                        pick = main_id
                elif len(enabled) == 1 and not sleepers:
                    pick = enabled[0]
                    name = self.chooser([self.names[pick]], self)
                elif sleepers:
                    enabled.sort(key=lambda t: self.names[t])
                    sleepers.sort(key=lambda t: self.names[t])
                    name = self.chooser([self.names[x] for x in enabled + sleepers], self)
                    pick = [x for x in enabled + sleepers if self.names[x] == name][0]
                    if pick in sleepers:
                        self.now = max(self.now, self.deadline[pick])
                        self.wake[pick] = "timeout"
                else:
                    enabled.sort(key=lambda t: self.names[t])
                    name = self.chooser([self.names[x] for x in enabled], self)
                    pick = [x for x in enabled if self.names[x] == name][0]
                self.steps += 1
                if self.budget_at is not None and self.steps > self.budget_at and self.state[main_id] != "done":
                    self.budget_at = None
                    self.wake[main_id] = "hang"
                    pick = main_id
                if self.steps > self.max_steps:
                    self.wake[main_id] = "hang"
                    pick = main_id
                    result["steplimit"] = True
                self.log.append(self.names[pick])
                self.sem[pick].release()
                tries = 0
                while not self.sched_sem.acquire(timeout=SPIN_LIMIT):
                    # the thread neither finished nor yielded: a busy loop (or a stall in C code).  Make it raise.
                    tries += 1
                    self.spins = getattr(self, "spins", 0) + 1
                    # a thread executing Python code moves; one that sits in a blocking call the scheduler does not control
                    # (a primitive of the code under test that has no cooperative replacement) does not: that is a limit of
                    # this machinery, not a finding
                    import time as _t
                    seen = set()
                    for _ in range(20):
                        fr = sys._current_frames().get(pick)
                        seen.add((id(fr.f_code), fr.f_lasti) if fr is not None else None)
                        _t.sleep(0.05)
                    if len(seen) <= 1 or tries > 3:
                        fr = sys._current_frames().get(pick)
                        where = "%s:%d" % (fr.f_code.co_filename, fr.f_lineno) if fr is not None else "?"
                        sys.stdout.write("machinery failure: thread %s is blocked outside the scheduler's control at %s\n" % (self.names[pick], where))
                        sys.stdout.flush()
                        os._exit(2)
                    import ctypes
                    ctypes.pythonapi.PyThreadState_SetAsyncExc(ctypes.c_ulong(pick), ctypes.py_object(SpinDetected))
        finally:
            self._abort_rest()
            CUR = None
        return result

    def _abort_rest(self):
        self.abort = True
        for _ in range(10000):
            live = [t for t, s in self.state.items() if s != "done"]
            if not live:
                break
            t = live[0]
            self.wake[t] = "abort"
            self.sem[t].release()
            if not self.sched_sem.acquire(timeout=5.0):
                break
        for th in list(self.threads.values()):
            th.join(2.0)


# ---------------------------------------------------------------------------------------------------
# cooperative primitives (installed as <module>.threading / <module>.time of the code under test)

class CoopLock:
    reentrant = False

    def __init__(self):
        self.owner = None
        self.count = 0

    def acquire(self, blocking=True, timeout=-1):
        me = _real.get_ident()
        if self.owner == me and self.reentrant:
            self.count += 1
            return True
        sc = CUR
        until = None
        while self.owner is not None:
            if sc is None or not sc.controlled():
                raise RuntimeError("cooperative lock contended outside the scheduler")
            if not blocking:
                return False
            if timeout is not None and timeout >= 0:
                # a bounded wait, in the scheduler's virtual time
                until = sc.now + timeout if until is None else until
                if until - sc.now <= 0 or not sc.yield_point(lambda: self.owner is None, timeout=until - sc.now):
                    if self.owner is not None:
                        return False
            else:
                sc.yield_point(lambda: self.owner is None)
        self.owner = me
        self.count = 1
        return True

    def release(self):
        self.count -= 1
        if self.count <= 0:
            self.owner = None
            self.count = 0

    def locked(self):
        return self.owner is not None

    def __enter__(self):
        self.acquire()
        return self

    def __exit__(self, *a):
        self.release()


class CoopRLock(CoopLock):
    reentrant = True


class CoopEvent:
    def __init__(self):
        self.flag = False

    def set(self):
        self.flag = True

    def clear(self):
        self.flag = False

    def is_set(self):
        return self.flag

    isSet = is_set

    def wait(self, timeout=None):
        sc = CUR
        if self.flag:
            return True
        if sc is None or not sc.controlled():
            return self.flag
        sc.yield_point(lambda: self.flag, timeout=timeout)
        return self.flag


def shim_threading():
    m = types.SimpleNamespace(**{k: getattr(_real, k) for k in dir(_real) if not k.startswith("__")})
    m.Lock = CoopLock
    m.RLock = CoopRLock
    m.Event = CoopEvent
    return m


class VTime:
    """time module replacement bound to the active scheduler's virtual clock"""
    @staticmethod
    def time():
        return CUR.now if CUR is not None else 0.0

    monotonic = time

    @staticmethod
    def sleep(d):
        sc = CUR
        if sc is not None and sc.controlled():
            sc.sleep(d)


# ---------------------------------------------------------------------------------------------------
# choosers for schedule exploration

class Replay:
    """follow a prefix of choices (indices into the sorted enabled list), then a default policy; records the branching"""
    def __init__(self, prefix=(), default=0):
        self.prefix = list(prefix)
        self.default = default
        self.taken = []       # (index chosen, number enabled)
        self.names = []

    def __call__(self, names, sched):
        i = len(self.taken)
        if i < len(self.prefix):
            k = self.prefix[i]
            if k >= len(names):
                k = len(names) - 1
        else:
            k = self.default if self.default < len(names) else 0
        self.taken.append((k, len(names)))
        self.names.append(names[k])
        return names[k]


class RandomChooser:
    def __init__(self, rng):
        self.rng = rng
        self.names = []

    def __call__(self, names, sched):
        n = names[self.rng.randrange(len(names))]
        self.names.append(n)
        return n


class PreemptionBounded:
    """Default policy: the current thread keeps running while it stays enabled, except that a thread parked at a *soft
    yield* (the environment between two script steps, Sched.soft_yield) gives way to any other enabled thread - so script
    steps happen at quiescent points unless a preemption decides otherwise, and a thread that was preempted *to* keeps
    running.  At the listed step numbers the default is overridden by the k-th alternative (a preemption).  Records where
    alternatives existed, for the DFS driver."""
    wants_timers = True       # pending timers are offered as alternatives (never taken by default)

    def __init__(self, preempt_at):
        self.preempt_at = dict(preempt_at)     # step -> k (1..number of alternatives)
        self.demoted = []      # threads that were preempted: they resume only after the others have had their turn
        self.cur = None
        self.step = 0
        self.branch = []       # (step, number of alternatives)
        self.names = []

    def __call__(self, names, sched):
        s = self.step
        self.step += 1
        soft = sched.soft
        timers = getattr(sched, "timer_names", set())
        if self.cur in names and self.cur not in soft and self.cur not in timers:
            default = self.cur
        else:
            others = [n for n in names if n not in soft and n not in timers]
            others.sort(key=lambda n: (n in self.demoted, n))
            rest = [n for n in names if n not in timers]
            default = others[0] if others else (rest[0] if rest else names[0])
        alts = [n for n in names if n != default]
        if alts:
            self.branch.append((s, len(alts)))
        k = self.preempt_at.get(s)
        if k and alts and default not in self.demoted:
            self.demoted.append(default)
        self.cur = alts[(k - 1) % len(alts)] if (k and alts) else default
        self.names.append(self.cur)
        return self.cur


def explore(run_once, max_preemptions, limit, rng=None, random_runs=0):
    """stateless exploration: run_once(chooser) executes the scenario once.
    Enumerates all schedules with at most max_preemptions switch points (DFS over the branch points discovered),
    up to `limit` executions, then `random_runs` random schedules.  Yields (chooser, result)."""
    import collections
    seen = set()
    stack = collections.deque([()])
    n = 0
    while stack and n < limit:
        pre = stack.popleft()
        if pre in seen:
            continue
        seen.add(pre)
        ch = PreemptionBounded(pre)
        res = run_once(ch)
        n += 1
        yield ch, res
        if len(pre) < max_preemptions:
            last = pre[-1][0] if pre else -1
            kids = [pre + ((s, off),) for (s, alts) in ch.branch if s > last for off in range(1, alts + 1)]
            room = max(0, limit - n - len(stack))
            if len(kids) > room and room > 0:
                # not all switch points fit the budget: take them evenly spread over the run, not just the earliest ones
                step = len(kids) / float(room)
                kids = [kids[int(i * step)] for i in range(room)]
            stack.extend(kids)
    for i in range(random_runs):
        ch = RandomChooser(rng)
        res = run_once(ch)
        yield ch, res
