"""Shared plumbing: run context, evidence file, known findings, violation reporting."""
import json
import os
import random
import shutil
import tempfile
import time

HERE = os.path.dirname(os.path.abspath(__file__))
VERIF = os.path.dirname(HERE)
SPECS = os.path.join(VERIF, "specs")
EVIDENCE = os.path.join(VERIF, "evidence")
REPLAYS = os.path.join(EVIDENCE, "replays")
FINDINGS = os.path.join(VERIF, "known_findings.json")


class MachineryError(Exception):
    """The harness/TLC itself failed: exit 2, never a VIOLATION line."""


def load_findings():
    if not os.path.exists(FINDINGS):
        return {"known": [], "fixed": []}
    with open(FINDINGS) as f:
        return json.load(f)


class Ctx:
    def __init__(self, prop, tier, seed, repo, write_evidence=True):
        self.prop = prop
        self.tier = tier
        self.seed = seed
        self.repo = repo
        self.write_evidence = write_evidence
        self.t0 = time.time()
        self.rng = random.Random(seed * 7919 + 17)
        self.scratch = tempfile.mkdtemp(prefix="verif_%s_" % prop.lower())
        self.violations = []          # list of (signature, detail)
        self.mc = {"states": 0, "transitions": 0, "runs": []}
        self.traces_validated = 0
        self.evaluations = 0
        self.nontrivial = set()
        self.samples = []
        self.rule = ""
        self.extra = {}
        self.assumptions = []
        self.level = "model_checking"
        self.exhaustive = False
        self.findings = load_findings()

    @property
    def quick(self):
        return self.tier == "quick"

    def pick(self, quick, thorough):
        return quick if self.tier == "quick" else thorough

    # ---- bookkeeping -------------------------------------------------------------------------
    def add_mc(self, stats, name):
        self.mc["states"] += stats.get("distinct", 0)
        self.mc["transitions"] += stats.get("generated", 0)
        self.mc["runs"].append(dict(stats, name=name))

    def sample(self, obj, limit=6):
        if len(self.samples) < limit:
            self.samples.append(obj)

    def count(self, key=None, n=1):
        self.evaluations += n
        if key is not None:
            self.nontrivial.add(key)

    def violation(self, signature, detail):
        self.violations.append((signature, detail))

    def cleanup(self):
        shutil.rmtree(self.scratch, ignore_errors=True)

    # ---- verdict -----------------------------------------------------------------------------
    def finish(self):
        known = {k["signature"]: k for k in self.findings.get("known", []) if k.get("property") == self.prop}
        new = []
        seen_known = {}
        for sig, detail in self.violations:
            if sig in known:
                seen_known.setdefault(sig, detail)
            else:
                new.append((sig, detail))
        for sig in sorted(seen_known):
            print("KNOWN-FINDING: property=%s %s (%s)" % (self.prop, known[sig].get("what", ""), sig))
        rc = 0
        rdir = REPLAYS if self.write_evidence else os.path.join(tempfile.gettempdir(), "verif_replays_%d" % os.getpid())
        if self.write_evidence and os.path.isdir(REPLAYS):
            for fn in os.listdir(REPLAYS):
                if fn.startswith("%s_%s_" % (self.prop, self.tier)):
                    os.unlink(os.path.join(REPLAYS, fn))
        if new:
            os.makedirs(rdir, exist_ok=True)
            by_sig = {}
            for sig, detail in new:
                by_sig.setdefault(sig, []).append(detail)
            for i, sig in enumerate(sorted(by_sig)):
                path = os.path.join(rdir, "%s_%s_%d.json" % (self.prop, self.tier, i))
                with open(path, "w") as f:
                    json.dump({"property": self.prop, "signature": sig, "tier": self.tier, "seed": self.seed,
                               "count": len(by_sig[sig]), "cases": by_sig[sig][:5]}, f, indent=1, default=repr)
                print("VIOLATION property=%s replay=%s" % (self.prop, path))
                print("  signature: %s  (%d cases)" % (sig, len(by_sig[sig])))
            rc = 1
        self._write_evidence(len(new), len(seen_known))
        print("%s %s: evaluations=%d distinct_nontrivial=%d tlc_states=%d traces_validated=%d violations=%d known=%d wall=%.1fs" % (
            self.prop, self.tier, self.evaluations, len(self.nontrivial), self.mc["states"], self.traces_validated,
            len(new), len(seen_known), time.time() - self.t0))
        return rc

    def _write_evidence(self, nviol, nknown):
        if not self.write_evidence:
            return
        os.makedirs(EVIDENCE, exist_ok=True)
        cov = {
            "states": max(1, self.mc["states"]),
            "transitions": max(1, self.mc["transitions"]),
            "traces_validated_against_impl": self.traces_validated,
            "samples": self.samples or ["(no sample recorded)"],
            "evaluations": max(1, self.evaluations),
            "distinct_nontrivial": len(self.nontrivial),
            "rule": self.rule,
            "exhaustive": self.exhaustive,
            "tlc_runs": self.mc["runs"],
            "known_findings_reported": nknown,
        }
        cov.update(self.extra)
        ev = {
            "property_id": self.prop,
            "tier": self.tier,
            "seed": self.seed,
            "level": self.level,
            "coverage": cov,
            "assumptions": self.assumptions,
            "wall_s": round(time.time() - self.t0, 2),
            "violations": nviol,
        }
        with open(os.path.join(EVIDENCE, self.prop + ".json"), "w") as f:
            json.dump(ev, f, indent=1, default=repr)


def chunks(seq, n):
    for i in range(0, len(seq), n):
        yield seq[i:i + n]


def detach_iterator(it):
    """a client-side stream iterator is told to forget its proxy, so that its finaliser (which may run in any thread) sends nothing;
    an implementation that does not let the attribute be set is left alone"""
    try:
        it.proxy = None
    except AttributeError:
        pass


def set_marker(text):
    """what the check is busy with right now (read by the supervising process if this one stops responding)"""
    path = os.environ.get("VERIF_MARKER_FILE")
    if path:
        try:
            with open(path, "w") as f:
                f.write(text[:300])
        except OSError:
            pass
