"""Deterministic in-memory transport for the real Pyro5 Proxy / Daemon / transport servers.

Everything runs inside harness.sched: the environment (clients, fault injection) is the thread 'main', the multiplex
server loop is the thread 'srv', the thread-pool server has its accept loop in 'acc' and its real Worker threads
w1, w2, ...; oneway call threads are ow1, ow2, ....  Blocking socket operations are cooperative yield points with
optional (virtual-time) timeouts, so a run is a deterministic function of the script and the chooser.

Pyro5 is not modified: module attributes are replaced from the outside
(socketutil.create_socket, <server module>.selectors / .threading / .time, Housekeeper, Thread.start of the
Worker / _OnewayCallThread classes).
"""
import collections
import errno
import selectors as _selectors
import socket
import types

from . import sched as S

EVENT_READ = _selectors.EVENT_READ


class Net:
    def __init__(self):
        self.listeners = {}
        self.nextport = 40000
        self.socks = []
        self.epipe_on_closed_peer = False
        self.frag = None            # max bytes handed out per recv (None = as much as asked)
        self.log = None             # optional callable(event dict)
        self.hook = None            # fault layer for client-side sockets: before_send(sock, data) -> data | None, before_recv(sock)
        self.server_fds = set()     # descriptor numbers in use on the server side (lowest free number is handed out, as an OS does)
        self.client_fd = 1000

    def alloc_fd(self, server):
        if not server:
            self.client_fd += 1
            return self.client_fd
        fd = 3
        while fd in self.server_fds:
            fd += 1
        self.server_fds.add(fd)
        return fd

    def free_fd(self, fd):
        self.server_fds.discard(fd)

    def create_socket(self, bind=None, connect=None, reuseaddr=False, keepalive=True, timeout=-1, noinherit=False,
                      ipv6=False, nodelay=True, sslContext=None):
        if bind is not None:
            host, port = bind if isinstance(bind, tuple) else (bind, 0)
            if port == 0 and isinstance(bind, tuple):      # (a Unix socket path has no port: it is found again under (path, 0))
                self.nextport += 1
                port = self.nextport
            ls = FakeListen(self, (host or "127.0.0.1", port))
            if timeout is not None and timeout > 0:
                ls._timeout = timeout
            self.listeners[ls.addr] = ls
            return ls
        if connect is not None:
            if isinstance(connect, tuple) and not (isinstance(connect[0], str) and isinstance(connect[1], int)):
                raise TypeError("str, bytes or bytearray expected, not %s" % type(connect[0]).__name__)      # as socket.connect does
            addr = tuple(connect[:2]) if isinstance(connect, tuple) else (connect, 0)
            ls = self.listeners.get(addr)
            if ls is None or ls.closed:
                raise ConnectionRefusedError(errno.ECONNREFUSED, "connection refused")
            self.nextport += 1
            c = FakeSock(self, ("127.0.0.1", self.nextport), addr, client=True)
            s = FakeSock(self, addr, c.laddr, client=False)
            if not isinstance(connect, tuple):
                # a Unix domain socket: the connecting end has no name of its own, the accepted end's peer address is the empty string
                c.family = s.family = getattr(socket, "AF_UNIX", socket.AF_INET)
                c.laddr = ""
                c.raddr = connect
                s.laddr = connect
                s.raddr = ""
            c.peer, s.peer = s, c
            c._timeout = None if (timeout is None or timeout <= 0) else timeout
            ls.backlog.append(s)
            self.socks.append((c, s))
            return c
        raise ValueError("bind or connect needed")

    def connect(self, addr, timeout=None):
        return self.create_socket(connect=addr, timeout=timeout)


class FakeListen:
    family = socket.AF_INET
    type = socket.SOCK_STREAM

    def __init__(self, net, addr):
        self.net = net
        self.addr = addr
        self.backlog = collections.deque()
        self.closed = False
        self._timeout = None
        self.fd = net.alloc_fd(True)

    def getsockname(self):
        return self.addr

    def accept(self):
        if self.closed:
            raise OSError(errno.EBADF, "bad file descriptor")
        if not self.backlog:
            sc = S.CUR
            if sc is None or not sc.controlled():
                raise BlockingIOError(errno.EAGAIN, "no connection")
            ok = sc.yield_point(lambda: bool(self.backlog) or self.closed, timeout=self._timeout)
            if not ok:
                raise socket.timeout("timed out")
            if self.closed:
                raise OSError(errno.EBADF, "bad file descriptor")
        s = self.backlog.popleft()
        s.fd = self.net.alloc_fd(True)       # the accepted socket gets its descriptor now
        return s, s.raddr

    def close(self):
        if not self.closed:
            self.closed = True
            self.net.free_fd(self.fd)

    def fileno(self):
        return -1 if self.closed else self.fd

    def settimeout(self, t):
        self._timeout = t

    def gettimeout(self):
        return self._timeout

    def setsockopt(self, *a):
        pass

    def shutdown(self, how):
        pass

    def readable(self):
        return bool(self.backlog)


class FakeSock:
    family = socket.AF_INET
    type = socket.SOCK_STREAM

    def __init__(self, net, laddr, raddr, client):
        self.net = net
        self.laddr = laddr
        self.raddr = raddr
        self.client = client
        self.inbuf = bytearray()
        self.eof = False          # peer closed: EOF after the buffer is drained
        self.reset = False        # connection reset: error at once
        self.closed = False
        self._timeout = None
        self.peer = None
        self.sent = 0             # bytes written by this end
        self.consumed = 0         # bytes handed out by recv
        self.frag = None
        self.reset_after_drain = False   # reset once the buffered bytes have been read
        self.fd = net.alloc_fd(False) if client else None

    def getsockname(self):
        return self.laddr

    def getpeername(self):
        if self.closed:
            raise OSError(errno.EBADF, "bad file descriptor")
        if self.reset or self.reset_after_drain:
            raise OSError(errno.ENOTCONN, "transport endpoint is not connected")     # as a real socket after a RST
        return self.raddr

    def fileno(self):
        return -1 if self.closed or self.fd is None else self.fd

    def settimeout(self, t):
        self._timeout = t

    def gettimeout(self):
        return self._timeout

    def setsockopt(self, *a):
        pass

    # ---- writing
    def sendall(self, data):
        if self.closed:
            raise OSError(errno.EBADF, "bad file descriptor")
        if self.reset or self.reset_after_drain:
            raise ConnectionResetError(errno.ECONNRESET, "connection reset")      # the RST has arrived (unread bytes stay readable)
        data = bytes(data)
        if self.client and self.net.hook is not None:
            data = self.net.hook.before_send(self, data)
            if data is None:
                return None
        if self.peer.closed or self.peer.reset:
            if self.net.epipe_on_closed_peer:
                raise BrokenPipeError(errno.EPIPE, "broken pipe")
            return None       # the kernel takes it; it goes nowhere
        self.peer.inbuf += data
        self.sent += len(data)
        return None

    def send(self, data):
        self.sendall(data)
        return len(data)

    # ---- reading
    def _ready(self, want):
        return len(self.inbuf) >= want or self.eof or self.reset or self.closed or self.reset_after_drain

    def recv(self, size, flags=0):
        if self.closed:
            raise OSError(errno.EBADF, "bad file descriptor")
        # a Python socket with a timeout is non-blocking underneath, where MSG_WAITALL has no effect: whatever has arrived is returned
        want = size if (flags & getattr(socket, "MSG_WAITALL", 0)) and self._timeout is None else 1
        if size <= 0:
            return b""
        if self.client and self.net.hook is not None:
            self.net.hook.before_recv(self)
        if not self._ready(want):
            sc = S.CUR
            if sc is None or not sc.controlled():
                raise RuntimeError("fake socket would block outside the scheduler")
            ok = sc.yield_point(lambda: self._ready(want), timeout=self._timeout)
            if not ok:
                raise socket.timeout("timed out")
        if self.closed:
            raise OSError(errno.EBADF, "bad file descriptor")
        if self.reset or (self.reset_after_drain and not self.inbuf):
            self.reset = True
            raise ConnectionResetError(errno.ECONNRESET, "connection reset by peer")
        n = size
        frag = self.frag or self.net.frag
        if frag:
            n = min(n, frag)
        out = bytes(self.inbuf[:n])
        del self.inbuf[:n]
        self.consumed += len(out)
        return out

    def shutdown(self, how):
        if self.closed:
            raise OSError(errno.EBADF, "bad file descriptor")
        if self.reset or self.reset_after_drain:
            raise OSError(errno.ENOTCONN, "transport endpoint is not connected")     # as a real socket after a RST
        if self.peer is not None:
            self.peer.eof = True

    def close(self):
        if not self.closed:
            self.closed = True
            if not self.client and self.fd is not None:
                self.net.free_fd(self.fd)
            if self.peer is not None:
                self.peer.eof = True

    def abort(self):
        """environment: reset the connection (both directions)"""
        if not self.closed and not self.client and self.fd is not None:
            self.net.free_fd(self.fd)
        self.closed = True
        if self.peer is not None:
            self.peer.reset = True

    def readable(self):
        return bool(self.inbuf) or self.eof or self.reset

    def cut(self):
        """environment: the network path is cut; both ends get a reset at their next operation, neither has closed anything"""
        self.reset = True
        if self.peer is not None:
            self.peer.reset = True


class FakeSelector:
    """keyed by descriptor number like the real selectors: a closed file object cannot be registered, a number that is still
    registered cannot be registered again, and a closed descriptor is never reported ready"""
    def __init__(self):
        self.map = {}
        self.closed = False

    @staticmethod
    def _fd(fileobj):
        fd = fileobj.fileno()
        if fd < 0:
            raise ValueError("Invalid file descriptor: {}".format(fd))
        return fd

    def register(self, fileobj, events, data=None):
        fd = self._fd(fileobj)
        if fd in self.map:
            raise KeyError("{!r} (FD {}) is already registered".format(fileobj, fd))
        self.map[fd] = _selectors.SelectorKey(fileobj, fd, events, data)

    def unregister(self, fileobj):
        try:
            fd = self._fd(fileobj)
        except ValueError:
            for fd, key in self.map.items():        # a closed object is looked up by identity, as the real selectors do
                if key.fileobj is fileobj:
                    break
            else:
                raise KeyError("{!r} is not registered".format(fileobj)) from None
        if fd not in self.map or self.map[fd].fileobj is not fileobj and self.map[fd].fileobj.fileno() >= 0 and fileobj.fileno() < 0:
            raise KeyError("{!r} is not registered".format(fileobj))
        return self.map.pop(fd)

    def get_map(self):
        return self.map

    def get_key(self, fileobj):
        try:
            fd = self._fd(fileobj)
        except ValueError:
            raise KeyError("{!r} is not registered".format(fileobj)) from None
        key = self.map.get(fd)
        if key is None or key.fileobj is not fileobj:
            raise KeyError("{!r} is not registered".format(fileobj))
        return key

    def close(self):
        self.map = {}
        self.closed = True

    def select(self, timeout=None):
        # (the checks run with POLLTIMEOUT = 0 and drive the servers' events() themselves; a positive timeout is used when the
        # real request loop runs in a scheduler thread: wait, in virtual time, until something is ready)
        if timeout is not None and timeout > 0 and S.CUR is not None and S.CUR.controlled():
            if self.closed:
                raise ValueError("I/O operation on closed epoll object")      # as the real selectors do
            S.CUR.yield_point(lambda: self.closed or bool(self._ready()), timeout=timeout)
            if self.closed:
                raise ValueError("I/O operation on closed epoll object")
        return self._ready()

    def _ready(self):
        out = []
        for fd, key in list(self.map.items()):
            f = key.fileobj
            s = getattr(f, "sock", f)
            if s.fileno() < 0:
                continue
            if s.readable():
                out.append((key, EVENT_READ))
        return out


class _NoHousekeeper:
    """the periodic housekeeper thread is replaced by explicit daemon._housekeeping() steps of the script"""
    def __init__(self, daemon):
        self.stop = types.SimpleNamespace(set=lambda: None)

    def start(self):
        pass

    def join(self, timeout=None):
        pass


NET = None
_installed = False


def install():
    """replace the network, selector, thread and clock bindings of the Pyro5 modules (once per process)"""
    global NET, _installed
    from Pyro5 import socketutil, svr_multiplex, svr_threads, server, config
    NET = Net()
    socketutil.create_socket = lambda *a, **k: NET.create_socket(*a, **k)
    if _installed:
        return NET
    _installed = True
    fakesel = types.SimpleNamespace(DefaultSelector=FakeSelector, EVENT_READ=EVENT_READ, EVENT_WRITE=_selectors.EVENT_WRITE)
    svr_multiplex.selectors = fakesel
    svr_threads.selectors = fakesel
    shim = S.shim_threading()
    svr_threads.threading = shim
    server.threading = shim
    svr_threads._client_disconnect_lock = S.CoopLock()
    svr_threads.time = S.VTime
    svr_multiplex.time = S.VTime
    server.time = S.VTime
    socketutil.time = S.VTime
    svr_threads.Housekeeper = _NoHousekeeper

    # Pool keeps its workers in sets; give them a creation-order hash so set iteration/pop is reproducible
    _winit = svr_threads.Worker.__init__

    def worker_init(self, pool):
        _winit(self, pool)
        sc = S.CUR
        sc.counter["whash"] = sc.counter.get("whash", 0) + 1
        self._verif_hash = sc.counter["whash"]
    svr_threads.Worker.__init__ = worker_init
    svr_threads.Worker.__hash__ = lambda self: getattr(self, "_verif_hash", 0)

    def worker_start(self):
        S.CUR.adopt_start(self, "w")
    svr_threads.Worker.start = worker_start
    svr_threads.Worker.join = lambda self, timeout=None: None

    def oneway_start(self):
        S.CUR.adopt_start(self, "ow")
    server._OnewayCallThread.start = oneway_start
    config.HOST = "127.0.0.1"
    config.POLLTIMEOUT = 0
    return NET


class ServerDriver:
    """runs the transport server of a daemon inside the scheduler"""
    def __init__(self, daemon):
        self.daemon = daemon
        self.ts = daemon.transportServer
        self.stop = False
        self.crashed = None
        self.kind = "multiplex" if type(self.ts).__name__ == "SocketServer_Multiplex" else "thread"
        sc = S.CUR
        if self.kind == "multiplex":
            sc.spawn(sc.fresh_name("srv"), self._multiplex_loop)
        else:
            sc.spawn(sc.fresh_name("acc"), self._accept_loop)

    def _ready(self):
        return [k.fileobj for k, m in self.ts.selector.select(0)]

    def _multiplex_loop(self):
        sc = S.CUR
        try:
            while True:
                sc.yield_point(lambda: self.stop or bool(self.ts.selector is not None and self._ready()))
                if self.stop:
                    break
                self.ts.events(self._ready())
        except (S.SchedAbort, S.Hang):
            raise
        except BaseException as x:     # noqa   the request loop died: that is an observation, not a harness error
            self.crashed = x

    def _accept_loop(self):
        sc = S.CUR
        try:
            while True:
                sc.yield_point(lambda: self.stop or (self.ts.sock is not None and self.ts.sock.readable()))
                if self.stop:
                    break
                self.ts.events([self.ts.sock])
        except (S.SchedAbort, S.Hang):
            raise
        except BaseException as x:     # noqa
            self.crashed = x

    def connections(self):
        """number of live server-side connections according to the server's own accounting"""
        if self.kind == "multiplex":
            return len(self.ts.selector.get_map()) - 1
        return len(self.ts.pool.busy)

    def shutdown(self):
        self.stop = True


def run(main_fn, chooser=S.prefer_others, trace_filter=None, max_steps=200000):
    """run one script inside a fresh scheduler; returns (result dict, scheduler)"""
    sc = S.Sched(chooser=chooser, trace_filter=trace_filter, max_steps=max_steps)
    res = sc.run(main_fn)
    return res, sc
