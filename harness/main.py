"""CLI: ./check <id> [--tier quick|thorough] [--replay F] [--repo DIR]

exit 0 = property held on everything explored (KNOWN-FINDING lines allowed)
exit 1 = at least one "VIOLATION property=<id> replay=<path>" line
exit 2 = machinery failure (never prints a VIOLATION line)
"""
import argparse
import importlib
import os
import sys
import traceback

HERE = os.path.dirname(os.path.abspath(__file__))
VERIF = os.path.dirname(HERE)
sys.path.insert(0, VERIF)


def idlest_cpu(allcpus):
    """the allowed CPU that did least in the last tenth of a second (sharing one with a busy process makes every hand-off wait
    for a time slice); falls back to a choice by process id"""
    import time

    def busy():
        out = {}
        with open("/proc/stat") as f:
            for line in f:
                if line.startswith("cpu") and line[3].isdigit():
                    p = line.split()
                    v = [int(x) for x in p[1:9]]
                    out[int(p[0][3:])] = sum(v) - v[3] - v[4]        # everything but idle and iowait
        return out
    try:
        a = busy()
        time.sleep(0.1)
        b = busy()
        load = sorted((b[c] - a[c], (c + os.getpid()) % len(allcpus), c) for c in allcpus if c in a and c in b)
        if load:
            return load[0][2]
    except (OSError, ValueError, IndexError):
        pass
    return allcpus[os.getpid() % len(allcpus)]


def pin_cpu():
    """only one harness thread runs at a time (deterministic scheduler); hand-offs are ~10x cheaper when all threads
    share one CPU.  TLC subprocesses get the full CPU set back (harness.tlc)."""
    try:
        allcpus = sorted(os.sched_getaffinity(0))
        os.environ["VERIF_ALLCPUS"] = ",".join(map(str, allcpus))
        os.sched_setaffinity(0, {idlest_cpu(allcpus)})
    except (AttributeError, OSError):
        pass


def main():
    pin_cpu()
    ap = argparse.ArgumentParser()
    ap.add_argument("prop")
    ap.add_argument("--tier", default=os.environ.get("VERIF_TIER", "quick"), choices=["quick", "thorough"])
    ap.add_argument("--replay", default=None)
    ap.add_argument("--repo", default=os.environ.get("VERIF_REPO", "/repo"))
    ap.add_argument("--no-evidence", action="store_true", help="do not rewrite the evidence file (used for runs against scratch trees)")
    args = ap.parse_args()
    seed = int(os.environ.get("VERIF_SEED", "0") or "0")
    repo = os.path.abspath(args.repo)
    if not os.path.isdir(os.path.join(repo, "Pyro5")):
        print("machinery failure: no Pyro5 package under", repo)
        return 2
    # import Pyro5 from the working tree under test, never from an installed copy
    sys.path.insert(0, repo)
    from harness import util
    ctx = util.Ctx(args.prop.upper(), args.tier, seed, repo, write_evidence=not args.no_evidence and repo == "/repo")
    try:
        import Pyro5
        if os.path.dirname(os.path.abspath(Pyro5.__file__)) != os.path.join(repo, "Pyro5"):
            print("machinery failure: Pyro5 imported from", Pyro5.__file__)
            return 2
        mod = importlib.import_module("harness.props." + args.prop.lower())
        if args.replay:
            rc = mod.replay(ctx, args.replay)
        else:
            mod.run(ctx)
            rc = ctx.finish()
        return rc
    except util.MachineryError as x:
        print("machinery failure:", x)
        return 2
    except Exception:
        traceback.print_exc()
        print("machinery failure: unexpected exception in the harness")
        return 2
    finally:
        ctx.cleanup()


if __name__ == "__main__":
    rc = main()
    sys.stdout.flush()
    sys.stderr.flush()
    os._exit(rc)
