"""CLI: ./check <id> [--tier quick|thorough] [--replay F] [--repo DIR]

exit 0 = property held on everything explored (KNOWN-FINDING lines allowed)
exit 1 = at least one "VIOLATION property=<id> replay=<path>" line
exit 2 = machinery failure (never prints a VIOLATION line)
"""
import argparse
import importlib
import os
import sys
import traceback

HERE = os.path.dirname(os.path.abspath(__file__))
VERIF = os.path.dirname(HERE)
sys.path.insert(0, VERIF)


def idlest_cpu(allcpus):
    """the allowed CPU that did least in the last tenth of a second (sharing one with a busy process makes every hand-off wait
    for a time slice); falls back to a choice by process id"""
    import time

    def busy():
        out = {}
        with open("/proc/stat") as f:
            for line in f:
                if line.startswith("cpu") and line[3].isdigit():
                    p = line.split()
                    v = [int(x) for x in p[1:9]]
                    out[int(p[0][3:])] = sum(v) - v[3] - v[4]        # everything but idle and iowait
        return out
    try:
        a = busy()
        time.sleep(0.1)
        b = busy()
        load = sorted((b[c] - a[c], (c + os.getpid()) % len(allcpus), c) for c in allcpus if c in a and c in b)
        if load:
            return load[0][2]
    except (OSError, ValueError, IndexError):
        pass
    return allcpus[os.getpid() % len(allcpus)]


def pin_cpu():
    """only one harness thread runs at a time (deterministic scheduler); hand-offs are ~10x cheaper when all threads
    share one CPU.  TLC subprocesses get the full CPU set back (harness.tlc)."""
    try:
        allcpus = sorted(os.sched_getaffinity(0))
        os.environ["VERIF_ALLCPUS"] = ",".join(map(str, allcpus))
        os.sched_setaffinity(0, {idlest_cpu(allcpus)})
    except (AttributeError, OSError):
        pass


def main():
    pin_cpu()
    ap = argparse.ArgumentParser()
    ap.add_argument("prop")
    ap.add_argument("--tier", default=os.environ.get("VERIF_TIER", "quick"), choices=["quick", "thorough"])
    ap.add_argument("--replay", default=None)
    ap.add_argument("--repo", default=os.environ.get("VERIF_REPO", "/repo"))
    ap.add_argument("--no-evidence", action="store_true", help="do not rewrite the evidence file (used for runs against scratch trees)")
    args = ap.parse_args()
    seed = int(os.environ.get("VERIF_SEED", "0") or "0")
    repo = os.path.abspath(args.repo)
    if not os.path.isdir(os.path.join(repo, "Pyro5")):
        print("machinery failure: no Pyro5 package under", repo)
        return 2
    # import Pyro5 from the working tree under test, never from an installed copy
    sys.path.insert(0, repo)
    from harness import util
    ctx = util.Ctx(args.prop.upper(), args.tier, seed, repo, write_evidence=not args.no_evidence and repo == "/repo")
    try:
        import Pyro5
        if os.path.dirname(os.path.abspath(Pyro5.__file__)) != os.path.join(repo, "Pyro5"):
            print("machinery failure: Pyro5 imported from", Pyro5.__file__)
            return 2
        mod = importlib.import_module("harness.props." + args.prop.lower())
        if args.replay:
            rc = mod.replay(ctx, args.replay)
        else:
            mod.run(ctx)
            rc = ctx.finish()
        return rc
    except util.MachineryError as x:
        print("machinery failure:", x)
        return 2
    except Exception:
        traceback.print_exc()
        print("machinery failure: unexpected exception in the harness")
        return 2
    finally:
        ctx.cleanup()


# properties whose statement makes "the process stops responding" itself a violation (the daemon stops serving, a call never
# comes back); for the others a frozen interpreter is a failure of the machinery
FREEZE_IS_A_VERDICT = {"C03", "C05", "C07", "C10", "C11", "C17", "C18"}
FREEZE_AFTER = 300.0        # seconds without a sign of life from a process that is neither finished nor waiting for TLC


def supervised():
    """the check runs in a child process that gives a sign of life every two seconds from a thread of its own.  A piece of C code
    that holds the interpreter for good (a regular expression that backtracks for ever, say) silences that thread too, and nothing
    inside the process can report it; the parent does."""
    import select
    import threading
    import time
    if os.environ.get("VERIF_NO_SUPERVISOR") or not hasattr(os, "fork"):
        return main()
    prop = next((a for a in sys.argv[1:] if not a.startswith("-")), "?").upper()
    marker = os.path.join(os.environ.get("TMPDIR", "/tmp"), "verif_marker_%d" % os.getpid())
    os.environ["VERIF_MARKER_FILE"] = marker
    rfd, wfd = os.pipe()
    sys.stdout.flush()
    sys.stderr.flush()
    pid = os.fork()
    if pid == 0:
        os.close(rfd)

        def beat():
            while True:
                try:
                    os.write(wfd, b".")
                except OSError:
                    return
                time.sleep(2.0)
        threading.Thread(target=beat, daemon=True, name="sign-of-life").start()
        return main()
    os.close(wfd)
    last = time.time()
    try:
        while True:
            ready, _, _ = select.select([rfd], [], [], 5.0)
            if ready:
                if os.read(rfd, 4096):
                    last = time.time()
            done, status = os.waitpid(pid, os.WNOHANG)
            if done:
                return os.waitstatus_to_exitcode(status) if status else 0
            if time.time() - last > FREEZE_AFTER:
                os.kill(pid, 9)
                os.waitpid(pid, 0)
                what = ""
                try:
                    what = open(marker).read()[:300]
                except OSError:
                    pass
                if prop in FREEZE_IS_A_VERDICT and "--replay" not in sys.argv:
                    rdir = os.path.join(VERIF, "evidence", "replays") if "--repo" not in sys.argv and "--no-evidence" not in sys.argv else "/tmp"
                    os.makedirs(rdir, exist_ok=True)
                    path = os.path.join(rdir, "%s_frozen.json" % prop)
                    with open(path, "w") as f:
                        f.write('{"property": "%s", "signature": "%s.Hang [the process stopped responding]", "doing": %r}\n' % (prop, prop, what))
                    print("VIOLATION property=%s replay=%s" % (prop, path))
                    print("  signature: %s.Hang [the process stopped responding for %d s; it was busy with: %s]" % (prop, FREEZE_AFTER, what))
                    return 1
                print("machinery failure: the check process stopped responding for %d s (%s)" % (FREEZE_AFTER, what))
                return 2
    finally:
        try:
            os.unlink(marker)
        except OSError:
            pass


if __name__ == "__main__":
    rc = supervised()
    sys.stdout.flush()
    sys.stderr.flush()
    os._exit(rc if isinstance(rc, int) and 0 <= rc <= 255 else 2)
