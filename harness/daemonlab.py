"""Shared laboratory for the daemon-side properties (C05, C08, C12, C13): a real Daemon of either server type on the
in-memory transport, instrumented from the outside only:

  LabDaemon      Daemon subclass: scripted handshake validator, disconnect hook log, daemon-level annotations
  target objects every execution is logged with the connection it ran for and the call context it saw
  RawClient      a client that writes arbitrary bytes and parses whatever replies arrive
  messages       well-formed and hostile byte strings built from the real protocol.SendingMessage
"""
import struct

from . import memnet
from . import sched as S


class Lab:
    def __init__(self, servertype="multiplex", commtimeout=0.0, poolsize=6, validator="accept", validator_install="class"):
        """validator_install: "class" - the handshake validator is an override in the Daemon subclass; "instance" - it is assigned to
        the daemon object after construction (the class keeps the library's default, which accepts everybody)"""
        import Pyro5.api as P
        from Pyro5 import config, server, core
        from Pyro5.callcontext import current_context
        self.P = P
        self.config = config
        config.SERVERTYPE = servertype
        config.COMMTIMEOUT = commtimeout
        config.THREADPOOL_SIZE = poolsize
        config.THREADPOOL_SIZE_MIN = 1
        config.ITER_STREAM_LINGER = 0
        self.servertype = servertype
        self.log = []
        self.net = memnet.NET
        self.base = len(self.net.socks)
        lab = self

        class LabDaemonObject(server.DaemonObject):
            def ping(self):
                lab.log.append({"e": "Exec", "c": lab.conn_of_context(), "obj": "daemon", "m": "ping"})
                return super().ping()

            def registered(self):
                lab.log.append({"e": "Exec", "c": lab.conn_of_context(), "obj": "daemon", "m": "registered"})
                return super().registered()

            def info(self):
                lab.log.append({"e": "Exec", "c": lab.conn_of_context(), "obj": "daemon", "m": "info"})
                return super().info()
        LabDaemonObject = P.expose(LabDaemonObject)

        class LabDaemon(P.Daemon):
            def validateHandshake(self, conn, data):
                v = lab.validator
                lab.log.append({"e": "Validate", "c": lab.conn_of_sock(conn.sock), "v": v})
                if lab.handshake_annotation:
                    lab.current_context.response_annotations = {"HSHK": b"1"}       # travels with the handshake answer
                if v.startswith("raise:"):
                    raise lab.exception_for(v[6:])
                if v.startswith("return:"):
                    import threading as _threading
                    return {"None": None, "False": False, "0": 0, "list": [1, 2], "str": "welcome", "lock": _threading.Lock(),
                            "huge": "w" * 200000}[v[7:]]      # (huge: more than the message size limit in force while it is used)
                return "hello"

            def clientDisconnect(self, conn):
                lab.log.append({"e": "Hook", "c": lab.conn_of_sock(conn.sock)})
                if lab.hook_raises:
                    raise RuntimeError("hook failed")

            def annotations(self):
                # (annotations_stored: the application hands out the one dict it keeps, which is as legal as building a new one)
                return lab.daemon_annotations if lab.annotations_stored else dict(lab.daemon_annotations)
        self.validator = validator
        self.hook_raises = False
        self.handshake_annotation = False
        self.daemon_annotations = {}
        self.annotations_stored = False
        self.current_context = current_context
        if validator_install == "instance":
            scripted = LabDaemon.validateHandshake
            LabDaemonPlain = type("LabDaemonPlain", (P.Daemon,), {"clientDisconnect": LabDaemon.clientDisconnect, "annotations": LabDaemon.annotations})
            self.daemon = LabDaemonPlain(host="127.0.0.1", interface=LabDaemonObject)
            self.daemon.validateHandshake = lambda conn, data: scripted(self.daemon, conn, data)
        else:
            self.daemon = LabDaemon(host="127.0.0.1", interface=LabDaemonObject)
        self.driver = memnet.ServerDriver(self.daemon)
        self.core = core

    # ---- identification of connections ------------------------------------------------------------------
    def conn_of_sock(self, sock):
        """connection number (1-based, in order of connect()) of a server-side fake socket"""
        for i in range(len(self.net.socks) - 1, self.base - 1, -1):
            if self.net.socks[i][1] is sock or self.net.socks[i][0] is sock:
                return i - self.base + 1
        return 0

    def conn_of_context(self):
        c = self.current_context.client
        return self.conn_of_sock(c.sock) if c is not None else 0

    def exception_for(self, name):
        from Pyro5 import errors
        table = {"ValueError": ValueError("validator says no: token-7731"), "SecurityError": errors.SecurityError("not allowed: token-7731"),
                 "ConnectionClosedError": errors.ConnectionClosedError("closed: token-7731"),
                 "KeyError": KeyError("token-7731"), "ZeroDivisionError": ZeroDivisionError("token-7731"),
                 "PyroError": errors.PyroError("token-7731"), "TimeoutError": errors.TimeoutError("token-7731"),
                 "EmptyPermissionError": PermissionError(), "EmptySecurityError": errors.SecurityError(),
                 # the reason names a file whose name is not valid unicode: not every serializer can write that text as it is
                 "OddTextError": OSError("no access to caf\udce9.key: token-7731")}
        return table[name]

    # ---- clients --------------------------------------------------------------------------------------------
    def raw(self):
        port = int(self.daemon.locationStr.split(":")[1])
        sock = self.net.connect(("127.0.0.1", port))
        return RawClient(self, sock, len(self.net.socks) - self.base)

    def proxy(self, objid):
        p = self.P.Proxy(self.daemon.uriFor(objid))
        return p

    def quiesce(self):
        S.CUR.quiesce()

    def server_connections(self):
        return self.driver.connections()

    def close(self):
        self.driver.shutdown()
        try:
            self.daemon.close()
        except Exception:
            pass


class RawClient:
    def __init__(self, lab, sock, cid):
        self.lab = lab
        self.sock = sock
        self.cid = cid
        self.replies = []

    def send(self, data):
        try:
            self.sock.sendall(data)
            return True
        except OSError:
            return False

    def drain(self):
        """parse every complete message sitting in the receive buffer (never blocks)"""
        from Pyro5 import protocol
        buf = self.sock.inbuf
        while len(buf) >= 40:
            try:
                msg = protocol.ReceivingMessage(bytes(buf[:40]))
            except Exception:
                self.replies.append({"type": -1, "garbage": True})
                del buf[:]
                break
            total = 40 + msg.annotations_size + msg.data_size
            if len(buf) < total:
                break
            msg.add_payload(bytes(buf[40:total]))
            del buf[:total]
            self.replies.append({"type": msg.type, "flags": msg.flags, "seq": msg.seq, "ser": msg.serializer_id,
                                 "data": bytes(msg.data), "ann": {k: bytes(v) for k, v in msg.annotations.items()}})
        return self.replies

    def server_closed(self):
        """has the server closed its end (as seen by the client: EOF/reset, or by the server socket object itself)"""
        return self.sock.peer.closed

    def close(self):
        self.sock.close()

    def abort(self):
        self.sock.abort()


# ---- message construction ----------------------------------------------------------------------------------------
def build(msgtype, flags, seq, ser_id, payload, annotations=None):
    from Pyro5 import protocol
    from Pyro5.callcontext import current_context
    saved = current_context.correlation_id
    current_context.correlation_id = None
    try:
        return bytes(protocol.SendingMessage(msgtype, flags, seq, ser_id, payload, annotations=annotations).data)
    finally:
        current_context.correlation_id = saved


def connect_msg(objid="target", handshake="hello", ser="serpent", seq=0):
    from Pyro5 import protocol, serializers
    s = serializers.serializers[ser]
    return build(protocol.MSG_CONNECT, 0, seq, s.serializer_id, s.dumps({"handshake": handshake, "object": objid}))


def invoke_msg(objid, method, args=(), kwargs=None, flags=0, seq=1, ser="serpent", annotations=None, msgtype=None):
    from Pyro5 import protocol, serializers
    s = serializers.serializers[ser]
    return build(protocol.MSG_INVOKE if msgtype is None else msgtype, flags, seq, s.serializer_id,
                 s.dumpsCall(objid, method, list(args), kwargs or {}), annotations=annotations)


def patch(data, offset, fmt, value):
    b = bytearray(data)
    b[offset:offset + struct.calcsize(fmt)] = struct.pack(fmt, value)
    return bytes(b)


class _DelayThread:
    """delay-bounded schedule: the named thread runs first whenever it can, for k of its steps; from then on it is held back for as
    long as anything else can run, and continues only when it is the only one left"""
    wants_timers = True

    def __init__(self, name, k):
        self.name, self.k, self.n = name, k, 0
        self.names = []

    def __call__(self, names, sched):
        timers = getattr(sched, "timer_names", set())
        if self.name in names and self.name not in timers and self.n < self.k:
            self.n += 1
            pick = self.name
        else:
            rest = [n for n in names if n != self.name]
            plain = [n for n in rest if n not in sched.soft and n not in timers]
            pick = (plain or [n for n in rest if n not in timers] or rest or names)[0]
        self.names.append(pick)
        return pick


def handover_traces(ctx, kmax=400, hostile=False):
    """thread-pool server, one connection ends and the next one arrives at once: the worker that served the first is held back after
    each of its steps in turn (every line of the worker's and the pool's own code is a step) while the rest - the client, the
    accept loop - runs as far as it can.  A further client comes and goes afterwards.  Returns traces in the vocabulary of
    Trace_Daemon.tla: every connection must have been served (witness_ok), cleaned up once (Hook, Snap) and every worker slot
    must be free again (End).  hostile: the first connection sends garbage instead of a connect message and is dropped by the
    daemon."""
    import os
    from . import sched as S
    memnet.install()
    from Pyro5 import svr_threads
    tfile = os.path.abspath(svr_threads.__file__)

    def tfilter(code):
        return os.path.abspath(code.co_filename) == tfile and code.co_name in ("run", "notify_done", "process", "__call__")

    def once(chooser):
        out = {}

        def main():
            sc = S.CUR
            lab = Lab(servertype="thread", poolsize=2)
            P = lab.P

            class T(object):
                def echo(self, x):
                    return x
            lab.daemon.register(P.expose(T)(), "target")
            uri = lab.daemon.uriFor("target")
            okc = {}
            hang = False
            fresh_ok = True
            try:
                for i in (1, 2):
                    okc[i] = False
                    if hostile and i == 1:
                        rc = lab.raw()
                        rc.send(b"GET / HTTP/1.0\r\n\r\n" + b"\x00" * 40)
                        lab.log.append({"e": "Ended", "c": rc.cid})
                        okc[i] = True
                        continue              # ... and the next client is there at once (the garbage is still being dealt with)
                    p = P.Proxy(uri)
                    p._pyroBind()
                    okc[i] = p.echo(i) == i
                    lab.log.append({"e": "Ended", "c": lab.conn_of_sock(p._pyroConnection.sock)})
                    p._pyroRelease()          # ... and the next client is there at once
                sc.quiesce()
                # a further client, alone: a slot that was lost shows as a refusal or as silence
                try:
                    with P.Proxy(uri) as q:
                        fresh_ok = q.echo("fresh") == "fresh"
                        lab.log.append({"e": "Ended", "c": lab.conn_of_sock(q._pyroConnection.sock)})
                except (S.Hang, S.SchedAbort):
                    raise
                except Exception:
                    fresh_ok = False
                sc.quiesce()
            except S.Hang:
                hang = True
            except Exception:
                pass
            n = len(lab.net.socks) - lab.base
            tr = [{"e": "First", "c": c, "accept": not (hostile and c == 1), "mustreason": False} for c in range(1, n + 1)]
            tr += [e for e in lab.log if e["e"] in ("Hook", "Ended")]
            if not hang:
                for c in range(1, n + 1):
                    srv = lab.net.socks[lab.base + c - 1][1]
                    tr.append({"e": "Snap", "c": c, "srvclosed": bool(srv.closed), "first": "ok", "reason": False, "mustreason": False,
                               "checkfirst": False, "alive_sessions": 0})
            tr.append({"e": "End", "slots": lab.server_connections() if not hang else 0, "open": 0, "loop_alive": lab.driver.crashed is None,
                       "witness_ok": bool(okc.get(1)) and bool(okc.get(2)), "fresh_ok": bool(fresh_ok), "hang": hang})
            out["tr"] = tr
            if not hang:
                lab.close()
        res, sc = memnet.run(main, chooser=chooser, trace_filter=tfilter, max_steps=60000)
        if "tr" not in out:
            out["tr"] = [{"e": "End", "slots": 0, "open": 0, "loop_alive": True, "witness_ok": False, "fresh_ok": False, "hang": True}]
        elif res.get("hang"):
            out["tr"][-1]["hang"] = True
        return out["tr"]
    traces = []
    for w in ("w1", "w2"):
        for k in range(1, kmax):
            ch = _DelayThread(w, k)
            tr = once(ch)
            ctx.evaluations += 1
            traces.append((tr, {"delayed": [w, k], "hostile": hostile}))
            if ch.n < k:
                break         # the thread never takes that many steps
    return traces
