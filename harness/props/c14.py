"""C14 - the name server is a faithful map, identical on both storage back-ends.

MC    : NameServer.tla (the map with Apply = exact meaning of every operation) model-checked for its invariants.
Gen   : Gen_NS.tla: (a) every single operation of the alphabet (exhaustive), applied on rich states;
        (b) random operation histories (TLC -simulate).
Drive : each history on a real NameServer(MemoryStorage) and a real NameServer(SqlStorage(file)); full listing after
        every step; reopen points; every sqlite statement of every mutating operation as a failure point
        (nameserver.sqlite3 seen through a failing shim).
Trace : Trace_NS.tla replays the history on the model map and requires every result and listing to be the model's.
"""
import copy
import json
import os
import re
import shutil
import sqlite3
import tempfile
import types

from .. import tlc, util

# Concretisation of the abstract name alphabet (1/2: a case pair, 3/4: pattern wildcards, 5: non-ASCII, 6: a metacharacter,
# 7: the reserved name).  The model treats every character as a literal, so the expected results are the same under every
# table; the tables differ in which pattern language (SQL LIKE, GLOB, regex, quoting) their characters are special in.
TABLES = [
    {1: "b", 2: "B", 3: "%", 4: "_", 5: "é", 6: "+"},
    {1: "k", 2: "K", 3: "*", 4: "?", 5: "ß", 6: "["},
    {1: "z", 2: "Z", 3: "[", 4: "]", 5: "中", 6: "("},      # (none of the characters of the reserved name is used)
    {1: "q", 2: "Q", 3: "'", 4: "\\", 5: "ö", 6: "$"},
    {1: "i", 2: "I", 3: '"', 4: "^", 5: "İ", 6: "|"},
    # characters at and beyond the end of the basic plane (a range scan or a UTF-16 comparison treats them differently)
    {1: "ω", 2: "Ω", 3: "\U0001F600", 4: "\uffff", 5: "\U00010000", 6: "\ufffd"},
    # control characters: a NUL (C strings end there), DEL, a tab (no line break: the regular expressions of the scripts are written
    # with . and $, which treat a line break specially by their own definition)
    {1: "j", 2: "J", 3: "\x00", 4: "\x01", 5: "\x7f", 6: "\t"},
]
CH = dict(TABLES[0])
CH[7] = "Pyro.NameServer"
INV = {v: k for k, v in CH.items()}


def use_table(k):
    """switch the concretisation (between histories only)"""
    CH.clear()
    CH.update(TABLES[k % len(TABLES)])
    CH[7] = "Pyro.NameServer"
    INV.clear()
    INV.update({v: kk for kk, v in CH.items()})
URI = {0: "PYRO:Pyro.NameServer@localhost:9090", 1: "PYRO:obj1@host1:1111", 2: "PYRO:obj2@host2:2222"}
URI_INV = {v: k for k, v in URI.items()}
TAG = {1: "x", 2: "X", 3: ""}       # a case pair and the empty string
TAG_INV = {v: k for k, v in TAG.items()}

MC_CFG = """SPECIFICATION Spec
CONSTANTS
  Names <- MCNames
  Uris = {%s}
  Tags = {%s}
  Prefixes <- MCPrefixes
INVARIANT ReservedStays
PROPERTY RemoveCountExact
PROPERTY SafeNeverOverwrites
PROPERTY PrefixIsLiteral
CHECK_DEADLOCK FALSE
"""
GEN_CFG = """INIT Init
NEXT Next
CONSTANTS MaxLen = %d
CHECK_DEADLOCK FALSE
"""


def name_str(codes):
    return "".join(CH[c] for c in codes)


def name_codes(s):
    if s == CH[7]:
        return [7]
    out = []
    for ch in s:
        out.append(INV.get(ch, -1))
    return out


def regex_str(kind, arg):
    esc = re.escape(name_str(arg))
    return {"prefix": esc, "exact": esc + "$", "suffix": ".*" + esc + "$", "contains": ".*" + esc, "any": ".*", "invalid": "(",
            "empty": ""}[kind]


def norm_op(o):
    """the operation as recorded for TLC: an empty regex string is the kind 'empty'"""
    o = dict(o)
    if o["op"] in ("remove", "list") and o.get("sel") == "regex" and regex_str(o["kind"], o["arg"]) == "":
        o["kind"] = "empty"
    return o


def res(kind, n=0, uri=0, tags=(), items=()):
    return {"r": kind, "n": n, "uri": uri, "tags": sorted(tags), "items": list(items)}


def proj_items(d, meta):
    out = []
    for name, v in d.items():
        if meta:
            uri, tags = v
            out.append({"name": name_codes(name), "uri": URI_INV.get(str(uri), -1), "tags": sorted(TAG_INV.get(t, -1) for t in (tags or ()))})
        else:
            out.append({"name": name_codes(name), "uri": URI_INV.get(str(v), -1), "tags": []})
    out.sort(key=lambda e: e["name"])
    return out


SERS = ("serpent", "json", "marshal", "msgpack", None)


def wire(value, o):
    """the answer as a remote caller gets it: through one of the four serializers (chosen by the operation itself, so that both
    back-ends meet the same one), or directly"""
    import zlib
    name = SERS[zlib.crc32(json.dumps(o, sort_keys=True).encode()) % len(SERS)]
    if name is None:
        return value
    from Pyro5 import serializers
    ser = serializers.serializers[name]
    try:
        return ser.loads(ser.dumps(value))
    except ValueError:
        if name == "marshal":
            return value        # (marshal converts a URI only at the top of an answer or in a list there: its limit, not the name server's)
        raise


def scribble(uri):
    """what an in-process caller may do with the answer of a lookup: it is the caller's own object (the library's tests edit it to
    reach the daemon object of the same location); nobody else's later answer may show it"""
    try:
        uri.object = "Pyro.Daemon"
        uri.port = 1
    except Exception:
        pass


def apply_op(ns, o, errors):
    op = o["op"]
    nm = name_str(o["name"]) if "name" in o else None
    arg = name_str(o["arg"]) if "arg" in o else None
    rx = regex_str(o["kind"], o["arg"]) if o.get("sel") == "regex" else None
    tags = [TAG[t] for t in o["tags"]] if "tags" in o else None
    try:
        if op == "register":
            ns.register(nm, URI[o["uri"]], safe=o["safe"], metadata=tags or None)
            return res("ok")
        if op == "set_metadata":
            ns.set_metadata(nm, tags)
            return res("ok")
        if op == "remove":
            if o["sel"] == "name":
                n = ns.remove(name=arg)
            elif o["sel"] == "prefix":
                n = ns.remove(prefix=arg)
            else:
                n = ns.remove(regex=rx)
            return res("count", n=wire(n, o))
        if op == "lookup":
            if o["meta"]:
                got = ns.lookup(nm, return_metadata=True)
                uri, tg = wire(got, o)
                r = res("entry", uri=URI_INV.get(str(uri), -1), tags=[TAG_INV.get(t, -1) for t in tg])
                scribble(got[0])
                return r
            got = ns.lookup(nm)
            uri = wire(got, o)
            r = res("entry", uri=URI_INV.get(str(uri), -1))
            scribble(got)
            return r
        if op == "list":
            if o["sel"] == "all":
                d = ns.list(return_metadata=o["meta"])
            elif o["sel"] == "prefix":
                d = ns.list(prefix=arg, return_metadata=o["meta"])
            else:
                d = ns.list(regex=rx, return_metadata=o["meta"])
            return res("items", items=proj_items(wire(d, o), o["meta"]))
        if op == "yplookup":
            if o["mode"] == "all":
                d = ns.yplookup(meta_all=tags, return_metadata=o["meta"])
            else:
                d = ns.yplookup(meta_any=tags, return_metadata=o["meta"])
            return res("items", items=proj_items(wire(d, o), o["meta"]))
        if op == "count":
            return res("count", n=ns.count())
        raise util.MachineryError("unknown op " + op)
    except errors.NamingError:
        return res("NamingError")
    except util.MachineryError:
        raise
    except Exception as x:
        r = res("other")
        r["exc"] = type(x).__name__ + ": " + str(x)[:80]
        return r


def listing(ns):
    try:
        return proj_items(ns.list(return_metadata=True), True)
    except Exception as x:
        return [{"name": [-2], "uri": -2, "tags": [], "exc": type(x).__name__}]


# ---- failing sqlite shim ------------------------------------------------------------------------
class FailPlan:
    def __init__(self):
        self.k = 0          # fail the k-th statement (execute / commit) after arm(); 0 = never
        self.count = 0
        self.fired = False

    def arm(self, k):
        self.k = k
        self.count = 0
        self.fired = False

    def tick(self):
        if self.k:
            self.count += 1
            if self.count == self.k:
                self.fired = True
                raise sqlite3.OperationalError("injected storage failure")


PLAN = FailPlan()


class _Cur:
    def __init__(self, c):
        self._c = c

    def execute(self, *a):
        PLAN.tick()
        self._c.execute(*a)
        return self

    def __getattr__(self, n):
        return getattr(self._c, n)

    def __iter__(self):
        return iter(self._c)


class _Conn:
    def __init__(self, c):
        self._c = c

    def execute(self, *a):
        PLAN.tick()
        return self._c.execute(*a)

    def cursor(self):
        return _Cur(self._c.cursor())

    def commit(self):
        PLAN.tick()
        return self._c.commit()

    def __enter__(self):
        self._c.__enter__()
        return self

    def __exit__(self, *a):
        return self._c.__exit__(*a)

    def __getattr__(self, n):
        return getattr(self._c, n)


def install_shim(nameserver):
    shim = types.SimpleNamespace(**{k: getattr(sqlite3, k) for k in dir(sqlite3) if not k.startswith("__")})
    shim.connect = lambda *a, **k: _Conn(sqlite3.connect(*a, **k))
    nameserver.sqlite3 = shim


# ---- running histories --------------------------------------------------------------------------------
class Pair:
    """a memory-backed and a sqlite-backed name server holding the same history"""
    def __init__(self, nameserver, dbdir, tag):
        self.nsmod = nameserver
        self.db = os.path.join(dbdir, "ns_%s.sqlite" % tag)
        if os.path.exists(self.db):
            os.unlink(self.db)
        self.mem = nameserver.NameServer(nameserver.MemoryStorage())
        self.sql = nameserver.NameServer(nameserver.SqlStorage(self.db))
        for ns in (self.mem, self.sql):
            ns.register(CH[7], URI[0])

    def step(self, o, errors, fail=0):
        o = norm_op(o)
        ev = {"e": "op", "o": o, "fired": False}
        if fail:
            PLAN.arm(fail)
            try:
                ev["sql"] = apply_op(self.sql, o, errors)
            finally:
                ev["fired"] = PLAN.fired
                PLAN.arm(0)
            if ev["fired"]:
                ev["mem"] = res("skip")
            else:
                ev["mem"] = apply_op(self.mem, o, errors)
        else:
            ev["mem"] = apply_op(self.mem, o, errors)
            ev["sql"] = apply_op(self.sql, o, errors)
        ev["memlist"] = listing(self.mem)
        ev["sqllist"] = listing(self.sql)
        return ev

    def reopen(self):
        self.sql = self.nsmod.NameServer(self.nsmod.SqlStorage(self.db))
        return {"e": "reopen", "sqllist": listing(self.sql)}

    def snapshot(self):
        snap = self.db + ".snap"
        shutil.copyfile(self.db, snap)
        return (snap, copy.deepcopy(dict(self.mem.storage)))

    def restore(self, snap):
        shutil.copyfile(snap[0], self.db)
        self.mem = self.nsmod.NameServer(self.nsmod.MemoryStorage())
        for k, v in snap[1].items():
            self.mem.storage[k] = v
        self.sql = self.nsmod.NameServer(self.nsmod.SqlStorage(self.db))


SETUPS = [
    # rich states: names that differ by case, contain the SQL wildcards, the empty name, non-ASCII, tags in all combinations
    [{"op": "register", "name": n, "uri": 1 + i % 2, "safe": False, "tags": tg, "meta": False}
     for i, (n, tg) in enumerate([([1], [1]), ([2], [2]), ([1, 1], [1, 2]), ([1, 3], [3]), ([3], [1, 3]), ([1, 4, 1], [2]),
                                  ([5], [1, 2]), ([1, 6], [1]), ([], [2])])],
    [{"op": "register", "name": n, "uri": 1 + i % 2, "safe": False, "tags": tg, "meta": False}
     for i, (n, tg) in enumerate([([1, 1], []), ([2], [1, 2]), ([1, 4, 1], [1]), ([1, 6], [2])])],
]


def op_class(o):
    """abstract class of the offending operation, part of the failure signature"""
    parts = [o["op"]]
    if "sel" in o:
        parts.append(o["sel"] if o["sel"] != "regex" else "regex:" + o["kind"])
    arg = o.get("arg", o.get("name"))
    if arg is not None:
        cls = []
        if arg == []:
            cls.append("empty")
        if 3 in arg or 4 in arg:
            cls.append("sqlwildcard")
        if 1 in arg or 2 in arg:
            cls.append("letter")
        if 5 in arg:
            cls.append("nonascii")
        if 6 in arg:
            cls.append("regexmeta")
        if arg == [7]:
            cls.append("reserved")
        parts.append("arg=" + "+".join(cls))
    if "tags" in o and o["op"] == "yplookup":
        parts.append("mode=" + o["mode"])
        parts.append("duptags" if len(set(o["tags"])) < len(o["tags"]) else "tags")
    return " ".join(parts)


def run(ctx):
    from Pyro5 import nameserver, errors
    install_shim(nameserver)
    ctx.rule = ("cases = operation histories: (a) every operation of the alphabet (534, enumerated by TLC) applied to two rich states, "
                "(b) random histories from TLC -simulate, with reopen points, (c) every storage statement index of mutating operations "
                "as a failure point; distinct_nontrivial = distinct (history, failure point) pairs")
    ctx.assumptions = ["names/tags/uris are drawn from the adversarial pools of Gen_NS (case pair, SQL wildcards, regex metachar, non-ASCII, empty, reserved)",
                       "a storage failure is modelled as sqlite3.OperationalError raised by execute()/commit()"]
    tlc.mc(ctx, "MC_NameServer", cfg_text=MC_CFG % (("1", "1") if ctx.quick else ("1, 2", "1, 2")), timeout=1800)
    singles = [s[0] for s in tlc.gen(ctx, "Gen_NS", cfg_text=GEN_CFG % 1)]
    if len(singles) < 300:
        raise util.MachineryError("operation alphabet too small")
    nrand = ctx.pick(120, 1500)
    walks = tlc.gen(ctx, "Gen_NS", cfg_text=GEN_CFG % ctx.pick(10, 14), workers=1,
                    extra=("-simulate", "num=%d" % nrand, "-depth", str(ctx.pick(12, 16)), "-seed", str(ctx.seed + 14)))
    if len(walks) < nrand // 2:
        raise util.MachineryError("too few random histories (%d)" % len(walks))
    dbdir = tempfile.mkdtemp(prefix="verif_c14_", dir="/dev/shm" if os.path.isdir("/dev/shm") else None)
    traces, metas = [], []
    try:
        pair = Pair(nameserver, dbdir, "a")
        # (a) every operation on rich states
        for si, setup in enumerate(SETUPS):
            pair = Pair(nameserver, dbdir, "a%d" % si)
            pre = [pair.step(o, errors) for o in setup]
            snap = pair.snapshot()
            for oi, o in enumerate(singles):
                pair.restore(snap)
                traces.append(pre + [pair.step(o, errors)])
                metas.append({"part": "single", "setup": si, "op": o, "table": 0})
                ctx.count(("single", si, json.dumps(o, sort_keys=True)))
        # (a+) every reading operation asked twice in a row: the second answer is the first one again, whatever the first caller
        # has done with the object it was handed
        for si, setup in enumerate(SETUPS):
            pair = Pair(nameserver, dbdir, "r%d" % si)
            pre = [pair.step(o, errors) for o in setup]
            snap = pair.snapshot()
            for oi, o in enumerate(singles):
                if o["op"] not in ("lookup", "list", "yplookup") or (ctx.quick and o["op"] != "lookup" and (oi + si) % 4):
                    continue
                pair.restore(snap)
                traces.append(pre + [pair.step(o, errors), pair.step(o, errors)])
                metas.append({"part": "single", "setup": si, "op": o, "table": 0, "twice": True})
                ctx.count(("twice", si, json.dumps(o, sort_keys=True)))
        # (a') the same operations with the other character tables (quick: one other table per operation, by rotation)
        for tk in range(1, len(TABLES)):
            use_table(tk)
            for si, setup in enumerate(SETUPS):
                pair = Pair(nameserver, dbdir, "t%d_%d" % (tk, si))
                pre = [pair.step(o, errors) for o in setup]
                snap = pair.snapshot()
                for oi, o in enumerate(singles):
                    if ctx.quick and (oi + si) % (len(TABLES) - 1) + 1 != tk:
                        continue
                    pair.restore(snap)
                    traces.append(pre + [pair.step(o, errors)])
                    metas.append({"part": "single", "setup": si, "op": o, "table": tk})
                    ctx.count(("single", si, tk, json.dumps(o, sort_keys=True)))
        use_table(0)
        # (b) random histories with a reopen in the middle and at the end
        for wi, h in enumerate(walks):
            use_table(wi)
            pair = Pair(nameserver, dbdir, "b")
            tr = []
            for i, o in enumerate(h):
                tr.append(pair.step(o, errors))
                if i == len(h) // 2:
                    tr.append(pair.reopen())
            tr.append(pair.reopen())
            traces.append(tr)
            metas.append({"part": "random", "history": h, "table": wi % len(TABLES)})
            ctx.count(("random", json.dumps(h, sort_keys=True)))
        use_table(0)
        # (c) failure points: every statement index of every mutating operation on a rich state
        mutating = [
            {"op": "register", "name": [2, 2], "uri": 1, "safe": False, "tags": [1, 2], "meta": False},
            {"op": "register", "name": [1, 1], "uri": 2, "safe": False, "tags": [1], "meta": False},
            {"op": "register", "name": [1, 1], "uri": 2, "safe": False, "tags": [], "meta": False},
            {"op": "set_metadata", "name": [5], "tags": [1], "meta": False},
            {"op": "set_metadata", "name": [1, 1], "tags": [], "meta": False},
            {"op": "remove", "sel": "name", "arg": [1, 1], "kind": "none", "meta": False},
            {"op": "remove", "sel": "prefix", "arg": [1], "kind": "none", "meta": False},
            {"op": "remove", "sel": "regex", "arg": [1], "kind": "contains", "meta": False},
        ]
        pair = Pair(nameserver, dbdir, "c")
        pre = [pair.step(o, errors) for o in SETUPS[0]]
        snap = pair.snapshot()
        fired_total = 0
        for o in mutating:
            for k in range(1, 40):
                pair.restore(snap)
                ev = pair.step(o, errors, fail=k)
                tr = pre + [ev, pair.reopen()]
                traces.append(tr)
                metas.append({"part": "failpoint", "op": o, "k": k, "fired": ev["fired"]})
                ctx.count(("fail", json.dumps(o, sort_keys=True), k))
                if not ev["fired"]:
                    break
                fired_total += 1
        # (c+) a removal that matches several hundred names, with the storage failing early, in the middle and late in it: all or
        # nothing, whatever number of statements (or of transactions) the storage needs for it
        pair = Pair(nameserver, dbdir, "big")
        digits = (1, 3, 5, 6)
        entries = []
        for i in range(520):
            nm = [1] + [digits[(i // 4 ** j) % 4] for j in range(5)]
            tg = [1 + i % 3] if i % 7 == 0 else []
            for ns in (pair.mem, pair.sql):
                ns.register(name_str(nm), URI[1 + i % 2], metadata=[TAG[t] for t in tg] or None)
            entries.append({"name": nm, "uri": 1 + i % 2, "tags": tg})
        bulk = {"e": "bulk", "entries": entries, "memlist": listing(pair.mem), "sqllist": listing(pair.sql)}
        snap = pair.snapshot()
        big_fired = 0
        for o in ({"op": "remove", "sel": "prefix", "arg": [1], "kind": "none", "meta": False},
                  {"op": "remove", "sel": "regex", "arg": [1], "kind": "prefix", "meta": False}):
            # (how many statements the storage needs is its own business: the failure points are spread over however many it takes)
            pair.restore(snap)
            PLAN.arm(10 ** 9)
            apply_op(pair.sql, norm_op(o), errors)
            nst = PLAN.count
            PLAN.arm(0)
            # (nst + 5: no failure at all - the removal of all 520 goes through, and every one of them is gone and counted)
            for k in sorted({2, 3, nst // 4, nst // 2, nst // 2 + 1, 3 * nst // 4, nst - 2, nst - 1, nst, nst + 5}):
                if k < 1:
                    continue
                pair.restore(snap)
                ev = pair.step(o, errors, fail=k)
                traces.append([bulk, ev, pair.reopen()])
                metas.append({"part": "failpoint", "op": o, "k": k, "fired": ev["fired"], "names": 520})
                ctx.count(("bigfail", json.dumps(o, sort_keys=True), k))
                big_fired += bool(ev["fired"])
        if big_fired < 6:
            raise util.MachineryError("vacuity: only %d injected failures fired in the large removal" % big_fired)
        if fired_total < 30:
            raise util.MachineryError("vacuity: only %d injected storage failures fired" % fired_total)
        ctx.extra["failure_points_fired"] = fired_total
    finally:
        shutil.rmtree(dbdir, ignore_errors=True)
    for i in (0, len(singles) + 5, len(traces) - 3):
        ctx.sample({"meta": metas[i], "last_event": traces[i][-2 if traces[i][-1]["e"] == "reopen" else -1]})
    verdicts, _ = tlc.validate(ctx, "Trace_NS", traces, cfg="Trace_NS.cfg", batch=600)
    for tr, meta, v in zip(traces, metas, verdicts):
        if v:
            # find the offending operation: first event whose clause fired is not available from TLC; use the last op of
            # single/failpoint traces, the whole history class otherwise
            if meta["part"] in ("single", "failpoint"):
                sig = "%s [%s%s]" % (v, op_class(meta["op"]), " chars=" + "".join(TABLES[meta["table"]][c] for c in (3, 4, 6)) if meta.get("table") else "")
            else:
                sig = "%s [random history]" % v
            ctx.violation(sig, {"meta": meta, "trace_tail": tr[-3:]})
    ctx.exhaustive = False


def replay(ctx, path):
    from Pyro5 import nameserver, errors
    install_shim(nameserver)
    rep = json.load(open(path))
    dbdir = tempfile.mkdtemp(prefix="verif_c14_")
    bad = 0
    try:
        for case in rep["cases"]:
            meta = case["meta"]
            use_table(meta.get("table", 0))
            pair = Pair(nameserver, dbdir, "r")
            if meta["part"] == "random":
                tr = [pair.step(o, errors) for o in meta["history"]] + [pair.reopen()]
            else:
                tr = [pair.step(o, errors) for o in SETUPS[meta.get("setup", 0)]]
                tr.append(pair.step(meta["op"], errors, fail=meta.get("k", 0)))
                tr.append(pair.reopen())
            v, _ = tlc.validate(ctx, "Trace_NS", [tr], cfg="Trace_NS.cfg")
            print("replay:", json.dumps(meta)[:200], "->", v[0] or "accepted")
            bad += bool(v[0])
    finally:
        shutil.rmtree(dbdir, ignore_errors=True)
    if bad:
        print("VIOLATION property=%s replay=%s" % (ctx.prop, path))
    return 1 if bad else 0
