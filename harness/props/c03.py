"""C03 - a call returns its own reply or fails; never another call's answer.

MC    : ClientCall.tla (proxy sequence numbers / release-on-error / retries against an adversary choosing a fault per attempt).
Gen   : Gen_Call.tla enumerates every script of (call kind, fault) steps up to a length.
Drive : a real Proxy against a real Daemon over the in-memory transport; a fault layer on the client socket executes the
        script (reply lost / delayed past the timeout / cut then EOF or reset / reset before or after the server processed /
        stale reply replayed / sequence number altered / reply duplicated); MAX_RETRIES 0, 1, 2; start sequence numbers that
        make the 16-bit counter wrap.
Trace : Trace_Call.tla (monitor).
"""
import json
import random
import socket

from .. import memnet, tlc, util
from .. import sched as S

MC_CFG = """SPECIFICATION Spec
CONSTANTS M = %d
  NCalls = %d
  Retries = %d
  CheckSeq = TRUE
  ReleaseOnError = TRUE
  Oneway = {%s}
INVARIANT ReturnOwn
INVARIANT ExecBound
INVARIANT ReturnedRanOnce
INVARIANT ReturnedRan
PROPERTY Recovery
CHECK_DEADLOCK FALSE
"""
GEN_CFG = """INIT Init
NEXT Next
CONSTANTS MaxLen = %d
CHECK_DEADLOCK FALSE
"""
NATTR = 6


class FaultLayer:
    """executes one fault on the first attempt of the armed call"""
    def __init__(self):
        self.fault = None
        self.state = "idle"
        self.history = []        # reply byte strings seen earlier on this proxy (for replays)
        self.cut_at = 10

    def arm(self, fault, sticky=False):
        self.fault = fault
        self.sticky = sticky
        self.state = "armed"

    def disarm(self):
        self.fault = None
        self.state = "idle"

    def before_send(self, sock, data):
        delayed = getattr(sock, "delayed", None)
        if delayed:
            sock.inbuf += delayed           # the late reply has arrived by now (if the connection is still in use)
            sock.delayed = None
        if self.state != "armed" or data[6:7] != b"\x04":        # only INVOKE messages are attacked
            return data
        self.state = "sent"
        self.sock = sock
        if self.fault == "reset_before":
            sock.peer.reset = True           # the server sees the connection die without having seen the request
            sock.reset_pending = True
            if getattr(self, "oneway", False):
                self.state = "idle"
                sock.reset = True
                raise ConnectionResetError(104, "connection reset by peer")
            return None
        return data

    def before_recv(self, sock):
        if self.state != "sent" or sock is not self.sock:
            return
        self.state = "armed" if getattr(self, "sticky", False) else "idle"
        f = self.fault
        old = len(sock.inbuf)                # bytes already sitting in the connection (left over from an earlier fault)
        S.CUR.quiesce()                      # the server has processed the request and written its reply (if any)
        reply = bytes(sock.inbuf[old:])      # faults act on this call's own reply only
        if f == "none":
            pass
        elif f == "lose":
            del sock.inbuf[old:]
            self.history.append(reply)
            raise socket.timeout("timed out")
        elif f == "delay":
            sock.delayed = reply
            del sock.inbuf[old:]
            self.history.append(reply)
            raise socket.timeout("timed out")
        elif f in ("cut", "cut_reset"):
            del sock.inbuf[old + self.cut_at:]
            if f == "cut":
                sock.eof = True
            else:
                sock.reset_after_drain = True
            sock.peer.reset = True
        elif f == "reset_before":
            sock.reset = True
        elif f == "reset_after":
            del sock.inbuf[:]
            sock.reset = True
            sock.peer.reset = True
        elif f == "stale":
            if self.history:
                sock.inbuf[:0] = self.history[0 if len(self.history) < 2 else len(self.history) // 2]
        elif f == "seqalter":
            if len(reply) >= 12:
                seq = int.from_bytes(reply[10:12], "big")
                sock.inbuf[old + 10:old + 12] = ((seq + 1) & 0xffff).to_bytes(2, "big")
        elif f == "dup":
            sock.inbuf += reply
        if reply:
            self.history.append(reply)


def make_target(execs):
    import Pyro5.api as P

    class Target(object):
        def call(self, tok):
            execs[tok] = execs.get(tok, 0) + 1
            return tok

        @P.oneway
        def ow(self, tok):
            execs[tok] = execs.get(tok, 0) + 1

        def boom(self, tok):
            execs[tok] = execs.get(tok, 0) + 1
            raise ValueError(tok)

        def stream(self):
            # an endless remote iterator; every step it takes is counted, and the item is the number of steps taken so far
            def gen():
                while True:
                    execs["steps"] = execs.get("steps", 0) + 1
                    yield execs["steps"]
            return gen()
    for i in range(1, NATTR + 1):
        def getter(self, i=i):
            execs[i] = execs.get(i, 0) + 1
            return i
        getter.__name__ = "attr%d" % i
        setattr(Target, "attr%d" % i, property(getter))
    return P.expose(Target)


def do_call(P, errors, p, kind, tok, state=None, variant=0):
    """returns (outcome, val).  state["bp"]: a batch proxy that is re-used as long as its submissions succeed (one that raised keeps
    its queue by design); variant 1 of a oneway call is a oneway batch on that batch proxy"""
    state = state if state is not None else {}
    raw = bool(state.get("raw")) and kind in ("normal", "raise", "getattr")

    def unwrap(msg):
        # a proxy in wire-level mode (the way the HTTP gateway uses proxies) hands out the reply message itself
        from Pyro5 import protocol, serializers
        if not isinstance(msg, protocol.ReceivingMessage):
            raise util.MachineryError("wire-level proxy returned %r" % type(msg))
        data = serializers.serializers_by_id[msg.serializer_id].loads(msg.data)
        if msg.flags & protocol.FLAGS_EXCEPTION:
            raise data
        return data
    try:
        p._pyroRawWireResponse = raw
        if raw:
            v = unwrap(p.call(tok) if kind == "normal" else p.boom(tok) if kind == "raise" else getattr(p, "attr%d" % tok))
        elif kind == "normal":
            v = p.call(tok)
        elif kind == "oneway" and variant == 1:
            b = state.get("bp") or P.BatchProxy(p)
            state["bp"] = None
            b.call(tok)
            v = b(oneway=True)
            state["bp"] = b
            return ("ret", 0 if v is None else -1)
        elif kind == "oneway":
            v = p.ow(tok)
            return ("ret", 0 if v is None else -1)
        elif kind == "raise":
            v = p.boom(tok)
        elif kind == "batch":
            b = state.get("bp") or P.BatchProxy(p)
            state["bp"] = None
            b.call(tok)
            res = list(b())
            state["bp"] = b
            v = res[0] if len(res) == 1 else -1
        elif kind == "getattr":
            v = getattr(p, "attr%d" % tok)
        elif kind == "fetch":
            try:
                v = next(state["it"])
            except StopIteration:
                return ("stop", 0)
            except errors.CommunicationError:
                return ("comm", 0)
            except errors.PyroError:
                return ("exc", 0)           # the daemon's own answer: the stream is gone
        else:
            raise util.MachineryError("kind " + kind)
        return ("ret", v if isinstance(v, int) and not isinstance(v, bool) else -1)
    except (S.Hang, S.SchedAbort):
        raise
    except errors.CommunicationError:
        return ("comm", 0)
    except ValueError as x:
        v = x.args[0] if x.args and isinstance(x.args[0], int) else -1
        return ("exc", v)
    except util.MachineryError:
        raise
    except Exception as x:
        return ("other:" + type(x).__name__, 0)
    finally:
        p._pyroRawWireResponse = False


class NotKnownThere(object):
    """an argument of a class the daemon has no way to rebuild"""
    def __init__(self):
        self.x = 1


def run_scripts(scripts, servertype):
    """all scripts inside one scheduler session against one daemon; returns list of traces"""
    import Pyro5.api as P
    from Pyro5 import config, errors
    config.SERVERTYPE = servertype
    config.THREADPOOL_SIZE = 4
    config.THREADPOOL_SIZE_MIN = 1
    config.COMMTIMEOUT = 0.0
    config.ITER_STREAM_LIFETIME = 0.0
    traces = []
    net = memnet.NET

    def main():
        sc = S.CUR
        execs = {}
        d = P.Daemon(host="127.0.0.1")
        uri = d.register(make_target(execs)(), "target")
        drv = memnet.ServerDriver(d)
        for sc_i, (script, retries, seq0) in enumerate(scripts):
            execs.clear()
            sc.set_budget(20000)
            config.LOGWIRE = sc_i % 2 == 1          # (every other script with the wire-level logging of both sides switched on)
            config.MAX_RETRIES = (0, 2, 1)[sc_i % 3]  # (the process-wide default differs from what this proxy is told: the proxy's own setting is in force)
            layer = FaultLayer()
            net.hook = layer
            tr = [{"e": "cfg", "retries": retries, "seq0": seq0}]
            p = None
            try:
                p = P.Proxy(uri)
                p._pyroBind()
                if sc_i % 3 == 0:
                    # the proxy has been in use with other settings before: the retry limit in force is the one set now
                    p._pyroMaxRetries = 2
                    p.call(0)
                    p.ow(0)
                    try:
                        p.boom(0)
                    except ValueError:
                        pass
                    if sc_i % 6 == 0:
                        # ... and it has sent the daemon something that could not be rebuilt there: the daemon answers with its own
                        # error and ends the connection; the proxy is as good as new for whatever comes next
                        try:
                            p.call(NotKnownThere())
                        except errors.PyroError:
                            pass
                    sc.quiesce()
                    execs.clear()
                p._pyroMaxRetries = retries
                p._pyroTimeout = 5.0
                p._pyroSeq = seq0
                state = {"raw": sc_i % 4 == 1}      # every fourth script uses the proxy in wire-level mode
                config.ITER_STREAM_LINGER = (0.0, 30.0)[(sc_i // 2) % 2]
                if any(st["kind"] == "fetch" for st in script):
                    state["it"] = p.stream()          # opened before any fault is armed
                for i, step in enumerate(script):
                    tok = i + 1
                    pre = conn = 0
                    if step["kind"] == "fetch":
                        sc.quiesce()
                        pre = execs.get("steps", 0)
                        conn = 1 if p._pyroConnection is not None else 0
                    layer.oneway = step["kind"] == "oneway"
                    layer.cut_at = (7, 25, 40, 43)[(sc_i + i) % 4]
                    layer.arm(step["fault"], step.get("sticky", False))
                    try:
                        outcome, val = do_call(P, errors, p, step["kind"], tok, state, variant=(sc_i + i) % 2)
                    except S.Hang:
                        outcome, val = "hang", 0
                    layer.disarm()
                    if (step["kind"] == "oneway" and outcome == "ret") or step["kind"] == "fetch":
                        try:
                            sc.quiesce()         # the request has been delivered and handled before anything else happens
                        except S.Hang:
                            outcome = "hang"
                    post = 0
                    if step["kind"] == "fetch":
                        post = execs.get("steps", 0)
                        execs[tok] = post - pre      # steps the server-side iterator took on behalf of this fetch
                    if outcome.startswith("other"):
                        tr.append({"e": "call", "tok": tok, "kind": step["kind"], "fault": step["fault"], "outcome": "other", "val": 0, "exc": outcome, "pre": pre, "post": post, "conn": conn})
                    else:
                        tr.append({"e": "call", "tok": tok, "kind": step["kind"], "fault": step["fault"], "outcome": outcome, "val": val, "pre": pre, "post": post, "conn": conn})
                    if outcome == "hang":
                        break
            finally:
                net.hook = None
                if p is not None:
                    try:
                        p._pyroRelease()
                    except Exception:
                        pass
            try:
                sc.quiesce()
            except S.Hang:
                pass
            tr.append({"e": "end", "exec": [execs.get(k, 0) for k in range(1, max(len(script), 1) + 1)], "crashed": drv.crashed is not None})
            traces.append(tr)
        drv.shutdown()
        d.close()
        config.LOGWIRE = False
        config.MAX_RETRIES = 0
    res, sc = memnet.run(main, max_steps=5000000)
    if res.get("hang") and len(traces) < len(scripts):
        raise util.MachineryError("the scheduler session hung outside a call (script %d)" % len(traces))
    return traces


class Yielder(object):
    """travels through a registered converter that gives other threads a turn in the middle of writing a message"""
    def __init__(self, n):
        self.n = n


def concurrent_calls(rounds, seed):
    """two clients call at the same time (thread-pool server); each reply is written while the other one is half written (the
    conversion of part of the result gives way to the other thread).  Every call must still return its own result."""
    import Pyro5.api as P
    from Pyro5 import config, errors, serializers

    def to_dict(o):
        S.CUR.yield_point()
        return {"__class__": "harness.c03.Yielder", "n": o.n}
    serializers.SerializerBase.register_class_to_dict(Yielder, to_dict)
    serializers.SerializerBase.register_dict_to_class("harness.c03.Yielder", lambda cn, d: d["n"])
    config.SERVERTYPE = "thread"
    config.THREADPOOL_SIZE = 6
    config.THREADPOOL_SIZE_MIN = 2
    config.COMMTIMEOUT = 0.0
    traces = []

    def main():
        sc = S.CUR
        execs = {1: {}, 2: {}}

        @P.expose
        class Target(object):
            def call(self, who, tok):
                execs[who][tok] = execs[who].get(tok, 0) + 1
                return [Yielder(who), {"own": who * 1000 + tok}, Yielder(tok)]
        d = P.Daemon(host="127.0.0.1")
        uri = d.register(Target(), "target")
        drv = memnet.ServerDriver(d)
        done = [0]
        per = {1: [], 2: []}

        def client(who):
            def body():
                try:
                    for sername in sorted(serializers.serializers):
                        if sername == "marshal":
                            continue        # (marshal converts foreign objects at the top of a result only)
                        p = P.Proxy(uri)
                        p._pyroSerializer = sername
                        tr = [{"e": "cfg", "retries": 0, "seq0": 0}]
                        n0 = len(execs[who])
                        for i in range(rounds):
                            tok = len(tr)
                            try:
                                r = p.call(who, n0 + tok)
                                own = r[1].get("own") if isinstance(r, (list, tuple)) and len(r) == 3 and isinstance(r[1], dict) else None
                                ok = own == who * 1000 + n0 + tok and r[0] == who and r[2] == n0 + tok
                                tr.append({"e": "call", "tok": tok, "kind": "normal", "fault": "none", "outcome": "ret", "val": tok if ok else -1,
                                           "pre": 0, "post": 0, "conn": 0})
                            except (S.Hang, S.SchedAbort):
                                raise
                            except errors.CommunicationError:
                                tr.append({"e": "call", "tok": tok, "kind": "normal", "fault": "none", "outcome": "comm", "val": 0, "pre": 0, "post": 0, "conn": 0})
                            except Exception as x:
                                tr.append({"e": "call", "tok": tok, "kind": "normal", "fault": "none", "outcome": "other", "val": 0, "pre": 0, "post": 0,
                                           "conn": 0, "exc": type(x).__name__})
                        p._pyroRelease()
                        per[who].append((sername, n0, tr))
                finally:
                    done[0] += 1
            return body
        sc.spawn("cA", client(1), trace=False)
        sc.spawn("cB", client(2), trace=False)
        sc.yield_point(lambda: done[0] == 2)
        sc.quiesce()
        for who in (1, 2):
            for sername, n0, tr in per[who]:
                tr.append({"e": "end", "exec": [execs[who].get(n0 + k, 0) for k in range(1, len(tr))], "crashed": drv.crashed is not None})
                traces.append((tr, {"script": [{"kind": "normal", "fault": "none", "sticky": False}] * (len(tr) - 2), "retries": 0, "seq0": 0,
                                    "server": "thread", "concurrent": sername}))
        drv.shutdown()
        d.close()
    try:
        memnet.run(main, chooser=S.RandomChooser(random.Random(seed * 31 + 3)), max_steps=20000000)
    finally:
        serializers.SerializerBase.unregister_class_to_dict(Yielder)
        serializers.SerializerBase.unregister_dict_to_class("harness.c03.Yielder")
    if len(traces) < 6:
        raise util.MachineryError("concurrent call pass incomplete (%d)" % len(traces))
    return traces


def run(ctx):
    memnet.install()
    ctx.rule = ("cases = (fault script from Gen_Call: sequence of (call kind, fault) steps) x MAX_RETRIES in {0,1,2} x start sequence number "
                "(0 or just below 65536 so that the counter wraps); distinct_nontrivial = distinct (script, retries, seq0) with at least one fault")
    ctx.assumptions = ["faults are applied to the first attempt of a call; a retry attempt is fault free",
                       "a replayed stale reply is one of the last few replies (a replay of a reply exactly 65536 requests old is "
                       "indistinguishable by protocol design and is not generated)",
                       "a stream fetch counts as a call (kind fetch): an item it returns must be the one its own request made the "
                       "server-side iterator produce; which items a stream delivers overall is C10's business"]
    for (m, n, r, ow) in ((9, 4, 1, "2"), (5, 4, 0, "3"), (13, 4, 2, "")) if not ctx.quick else ((9, 4, 1, "2"), (5, 4, 0, "3")):
        tlc.mc(ctx, "ClientCall", cfg_text=MC_CFG % (m, n, r, ow))
    rng = random.Random(ctx.seed + 3)
    s1 = tlc.gen(ctx, "Gen_Call", cfg_text=GEN_CFG % 1)
    s2 = tlc.gen(ctx, "Gen_Call", cfg_text=GEN_CFG % 2)
    s3 = tlc.gen(ctx, "Gen_Call", cfg_text=GEN_CFG % 3)
    if len(s2) < 1000 or len(s3) < 50000:
        raise util.MachineryError("script generation incomplete")
    rng.shuffle(s3)
    chosen = s1 + s2 + s3[:ctx.pick(1200, 20000)]
    if not ctx.quick:
        s4 = tlc.gen(ctx, "Gen_Call", cfg_text=GEN_CFG % 6, workers=1, extra=("-simulate", "num=3000", "-depth", "8", "-seed", str(ctx.seed + 3)))
        chosen += s4
    jobs = []
    for i, sc_ in enumerate(chosen):
        for r in (0, 1, 2):
            if ctx.quick and len(sc_) == 3 and r != i % 3:
                continue
            jobs.append((sc_, r, (0, 0xFFFD, 0xFFFF, 12345)[(i + r) % 4]))
    traces = run_scripts(jobs, "multiplex")
    metas = [{"script": j[0], "retries": j[1], "seq0": j[2], "server": "multiplex"} for j in jobs]
    if not ctx.quick:
        sub = jobs[::7]
        traces += run_scripts(sub, "thread")
        metas += [{"script": j[0], "retries": j[1], "seq0": j[2], "server": "thread"} for j in sub]
    for tr, m in concurrent_calls(ctx.pick(12, 60), ctx.seed):
        traces.append(tr)
        metas.append(m)
    for m in metas:
        faulty = any(s["fault"] != "none" for s in m["script"])
        ctx.count(json.dumps(m, sort_keys=True) if faulty else None)
    for i in (3, len(traces) // 2, len(traces) - 1):
        ctx.sample({"meta": metas[i], "trace": traces[i]})
    verdicts, _ = tlc.validate(ctx, "Trace_Call", traces, cfg="Trace_Call.cfg", batch=8000)
    outcomes = set()
    for tr, meta, v in zip(traces, metas, verdicts):
        for e in tr[1:-1]:
            outcomes.add(e["outcome"])
            if e["kind"] == "fetch":
                outcomes.add("fetch-" + e["outcome"])
        if tr[-1].get("crashed"):
            v = v or "C03.ServerLoopDied"
        if v:
            fl = sorted({s["kind"] + "/" + s["fault"] + ("*" if s.get("sticky") else "") for s in meta["script"]})
            ctx.violation("%s [retries=%d]" % (v, meta["retries"]), {"meta": meta, "trace": tr, "steps": fl})
    if not ctx.violations and not {"ret", "exc", "comm", "fetch-ret", "fetch-comm", "fetch-exc"} <= outcomes:
        raise util.MachineryError("vacuity: outcomes seen %s" % sorted(outcomes))


def replay(ctx, path):
    memnet.install()
    rep = json.load(open(path))
    bad = 0
    for case in rep["cases"]:
        m = case["meta"]
        tr = run_scripts([(m["script"], m["retries"], m["seq0"])], m.get("server", "multiplex"))[0]
        v, _ = tlc.validate(ctx, "Trace_Call", [tr], cfg="Trace_Call.cfg")
        print("replay:", m["script"], "retries", m["retries"], "->", v[0] or "accepted")
        for e in tr:
            print("   ", e)
        bad += bool(v[0])
    if bad:
        print("VIOLATION property=%s replay=%s" % (ctx.prop, path))
    return 1 if bad else 0
