"""E10 (extra, beyond the listed properties) - time: what the communication timeouts and the retry settings mean for a caller.

MC    : Timing.tla (ExecBound, Bounded, ShortCallsReturn, StaleCostsOneAttempt, MultiplexKeepsIdle) for both server types, with and
        without an idle timeout at the daemon, 0-2 retries.
Gen   : Gen_Timing.tla: every script (up to a length) of calls of methods of several durations, idle periods and changes of the
        proxy's timeout; the reconnect cases (number of tries x when the location comes up).
Drive : a real Proxy against a real daemon of either server type over the in-memory transport under the virtual clock; the
        method sleeps (virtual time) for its duration; the time a call keeps its caller, its outcome and how often the method ran
        are recorded.  Reconnect: nothing listens on the uri's port until a helper thread starts a daemon there.
Trace : Trace_Timing.tla (monitor carrying the model's state).
"""
import json
import random

from .. import memnet, tlc, util
from .. import sched as S

DUR = "{10, 30, 50, 90}"
IDLE = "{20, 50, 70, 130}"
TMO = "{0, 45, 25}"
MC_CFG = """SPECIFICATION Spec
CONSTANTS Server = "%s"
  S = %d
  R = %d
  Durations = """ + DUR + """
  Idles = """ + IDLE + """
  Timeouts = """ + TMO + """
  MaxTime = 400
INVARIANT ExecBound
INVARIANT Bounded
INVARIANT ShortCallsReturn
INVARIANT StaleCostsOneAttempt
INVARIANT MultiplexKeepsIdle
CHECK_DEADLOCK FALSE
"""
GEN_CFG = """INIT Init
NEXT Next
CONSTANTS MaxLen = %d
  Durations = """ + DUR + """
  Idles = """ + IDLE + """
  Timeouts = """ + TMO + """
CHECK_DEADLOCK FALSE
"""
RGEN_CFG = """INIT RInit
NEXT RNext
CONSTANTS MaxLen = 0
  Durations = {}
  Idles = {}
  Timeouts = {}
CHECK_DEADLOCK FALSE
"""


def tenths(x):
    return int(round(x * 10))


def run_scripts(jobs):
    """jobs: (script, server, S, R, tmo0) -> traces"""
    import Pyro5.api as P
    from Pyro5 import config, errors, client
    client.time = S.VTime
    traces = []

    def main():
        sc = S.CUR
        for script, server, idle, retries, tmo0 in jobs:
            sc.set_budget(60000)
            config.SERVERTYPE = server
            config.COMMTIMEOUT = idle / 10.0
            config.THREADPOOL_SIZE = 8
            config.THREADPOOL_SIZE_MIN = 1
            config.MAX_RETRIES = 0
            runs = [0]

            @P.expose
            class Slow(object):
                def work(self, d):
                    runs[0] += 1
                    sc.sleep(d / 10.0)
                    return d
            d = P.Daemon(host="127.0.0.1")
            uri = d.register(Slow(), "slow")
            drv = memnet.ServerDriver(d)
            # (the daemon reads COMMTIMEOUT whenever it accepts a connection; the proxy below gets its own timeout explicitly)
            tr = [{"e": "cfg", "server": server, "S": idle, "R": retries, "tmo": tmo0}]
            p = P.Proxy(uri)
            p._pyroTimeout = (tmo0 / 10.0) or None
            p._pyroMaxRetries = retries
            try:
                for st in script:
                    if st["a"] == "idle":
                        sc.sleep(st["v"] / 10.0)
                        tr.append({"e": "idle", "dt": st["v"]})
                    elif st["a"] == "settimeout":
                        p._pyroTimeout = (st["v"] / 10.0) or None
                        tr.append({"e": "settimeout", "v": st["v"]})
                    else:
                        dur = st["v"]
                        t0, r0 = sc.now, runs[0]
                        try:
                            out = "ret" if p.work(dur) == dur else "other"
                        except (S.Hang, S.SchedAbort):
                            raise
                        except errors.TimeoutError:
                            out = "timeout"
                        except errors.ConnectionClosedError:
                            out = "closed"
                        except Exception as x:
                            out = "other"
                        t1 = sc.now
                        if out != "ret":
                            sc.sleep(dur / 10.0)        # whatever still runs at the daemon comes to its end
                        sc.quiesce()
                        tr.append({"e": "call", "d": dur, "out": out, "dur": tenths(t1 - t0), "exec": runs[0] - r0})
            except S.Hang:
                tr.append({"e": "call", "d": 0, "out": "hang", "dur": 0, "exec": 0})
            try:
                p._pyroRelease()
                sc.quiesce()
            except (S.Hang, Exception):
                pass
            drv.shutdown()
            d.close()
            config.COMMTIMEOUT = 0.0
            traces.append(tr)
    memnet.run(main, max_steps=50000000)
    if len(traces) < len(jobs):
        raise util.MachineryError("session ended early (%d of %d)" % (len(traces), len(jobs)))
    return traces


def run_reconnects(cases, server):
    import Pyro5.api as P
    from Pyro5 import config, errors, client
    client.time = S.VTime
    traces = []

    def main():
        sc = S.CUR
        for i, c in enumerate(cases):
            sc.set_budget(60000)
            config.SERVERTYPE = server
            config.COMMTIMEOUT = 0.0
            port = 41000 + i
            started = {}

            @P.expose
            class T(object):
                def who(self):
                    return "here"

            def bring_up(up=c["up"], port=port):
                sc.sleep(up / 10.0)
                d = P.Daemon(host="127.0.0.1", port=port)
                d.register(T(), "obj")
                started["d"] = d
                started["drv"] = memnet.ServerDriver(d)
            if c["up"] > 0:
                sc.spawn(sc.fresh_name("starter"), bring_up)
            p = P.Proxy("PYRO:obj@127.0.0.1:%d" % port)
            t0 = sc.now
            ok = False
            try:
                p._pyroReconnect(tries=c["tries"])
                ok = p.who() == "here"
            except (S.Hang, S.SchedAbort):
                raise
            except errors.ConnectionClosedError:
                ok = False
            t1 = sc.now
            traces.append([{"e": "cfg", "server": server, "S": 0, "R": 0, "tmo": 0},
                           {"e": "reconnect", "tries": c["tries"], "up": c["up"], "ok": ok, "dur": tenths(t1 - t0)}])
            try:
                p._pyroRelease()
            except Exception:
                pass
            if c["up"] > 0:
                sc.sleep(10.0)           # (a location that comes up later than the proxy gave up)
            sc.quiesce()
            if "drv" in started:
                started["drv"].shutdown()
                started["d"].close()
    memnet.run(main, max_steps=50000000)
    if len(traces) < len(cases):
        raise util.MachineryError("reconnect session ended early (%d of %d)" % (len(traces), len(cases)))
    return traces


def run(ctx):
    memnet.install()
    ctx.rule = ("cases = (script of call / idle / set-timeout steps from Gen_Timing) x server type x daemon idle timeout (none, 6.5 s) x retry "
                "limit (0-2; 0 on the multiplex server) x initial proxy timeout; plus reconnect cases (tries x when the location comes up); "
                "distinct_nontrivial = scripts in which a call meets a timeout or a dropped connection")
    ctx.assumptions = ["time is the scheduler's virtual clock (tenths of a second); connecting and a call's own transport take no time",
                       "durations, idle periods and timeouts are chosen so that none of them coincide (what happens exactly at a deadline is left open)",
                       "after a call that did not return the script waits until the method has ended at the daemon"]
    for server, s, r in (("thread", 65, 1), ("thread", 0, 2), ("multiplex", 65, 0), ("thread", 65, 0)):
        tlc.mc(ctx, "Timing", cfg_text=MC_CFG % (server, s, r))
    s2 = tlc.gen(ctx, "Gen_Timing", cfg_text=GEN_CFG % 2)
    s3 = tlc.gen(ctx, "Gen_Timing", cfg_text=GEN_CFG % ctx.pick(3, 4))
    rc = tlc.gen(ctx, "Gen_Timing", cfg_text=RGEN_CFG)
    if len(s3) < 1000 or len(rc) != 24:
        raise util.MachineryError("script generation incomplete (%d, %d)" % (len(s3), len(rc)))
    rng = random.Random(ctx.seed + 110)
    rng.shuffle(s3)
    scripts = s2 + s3[:ctx.pick(500, 1200)]
    configs = [("thread", s, r, t) for s in (0, 65) for r in (0, 1, 2) for t in (0, 45)] + [("multiplex", s, 0, t) for s in (0, 65) for t in (0, 45)]
    jobs = []
    # always, under every configuration: a connection left idle for longer than the daemon's timeout, then used again
    focus = [[{"a": "call", "v": a}, {"a": "idle", "v": dt}, {"a": "call", "v": b}] for a in (10, 50) for dt in (50, 70, 130) for b in (30, 90)]
    for sc_ in focus:
        for (server, s, r, t) in configs:
            jobs.append((sc_, server, s, r, t))
    for i, sc_ in enumerate(scripts):
        for k, (server, s, r, t) in enumerate(configs):
            if ctx.quick and (i + k) % 8:
                continue
            jobs.append((sc_, server, s, r, t))
    traces = run_scripts(jobs)
    metas = [{"script": j[0], "server": j[1], "S": j[2], "R": j[3], "tmo": j[4]} for j in jobs]
    for server in ("thread", "multiplex"):
        traces += run_reconnects(rc, server)
        metas += [{"script": [dict(c, a="reconnect")], "server": server, "S": 0, "R": 0, "tmo": 0} for c in rc]
    outs = {}
    for tr, m in zip(traces, metas):
        hit = any(e["e"] == "call" and e["out"] != "ret" for e in tr)
        ctx.count(json.dumps(m, sort_keys=True) if hit else None)
        for e in tr:
            if e["e"] == "call":
                outs[e["out"]] = outs.get(e["out"], 0) + 1
    ctx.evaluations = len(traces)
    for i in (0, len(traces) // 2, len(traces) - 1):
        ctx.sample({"scenario": metas[i], "trace": traces[i]})
    verdicts, _ = tlc.validate(ctx, "Trace_Timing", traces, cfg="Trace_Timing.cfg", batch=6000)
    for tr, m, v in zip(traces, metas, verdicts):
        if v:
            ctx.violation("%s [server=%s S=%s R=%s]" % (v, m["server"], m["S"], m["R"]), {"scenario": m, "trace": tr})
    if not ctx.violations and not all(outs.get(k, 0) > 5 for k in ("ret", "timeout", "closed")):
        raise util.MachineryError("vacuity: call outcomes seen %s" % outs)
    ctx.extra["call_outcomes"] = outs


def replay(ctx, path):
    memnet.install()
    rep = json.load(open(path))
    bad = 0
    for case in rep["cases"]:
        m = case["scenario"]
        if m["script"] and m["script"][0].get("a") == "reconnect":
            tr = run_reconnects([{"tries": m["script"][0]["tries"], "up": m["script"][0]["up"]}], m["server"])[0]
        else:
            tr = run_scripts([(m["script"], m["server"], m["S"], m["R"], m["tmo"])])[0]
        v, _ = tlc.validate(ctx, "Trace_Timing", [tr], cfg="Trace_Timing.cfg")
        print("replay:", m, "->", v[0] or "accepted")
        for e in tr:
            print("   ", e)
        bad += bool(v[0])
    if bad:
        print("VIOLATION property=%s replay=%s" % (ctx.prop, path))
    return 1 if bad else 0
