"""C17 - socket reads and writes are exact under fragmentation and transient errors.

MC   : SockIO.tla (implementation-shaped reader/writer against every socket behaviour) with the C17 invariants.
Gen  : Gen_SockIO.tla enumerates every script of socket behaviours up to a length, per request size.
Drive: the real receive_data / send_data on a scripted fake socket (with and without MSG_WAITALL, blocking and
       timeout mode, several byte scales so that the 60000-byte chunk limit is crossed).
Trace: Trace_SockIO.tla decides every recorded execution.
"""
import errno
import socket

from .. import tlc, util

MC_CFG = """SPECIFICATION Spec
CONSTANTS N = %d
  WaitAll = %s
  Chunk = %d
  MaxCalls = %d
  Blocking = %s
INVARIANT ReturnExact
INVARIANT NeverOverAsk
INVARIANT NeverSurplus
INVARIANT PartialIsData
INVARIANT ErrorHasCause
INVARIANT EofCarriesData
INVARIANT PeerIsPrefix
INVARIANT ReturnComplete
CHECK_DEADLOCK FALSE
"""

GEN_CFG = """INIT Init
NEXT Next
CONSTANTS MaxN = %d
  MaxLen = %d
CONSTRAINT Emit
CHECK_DEADLOCK FALSE
"""


class Hang(BaseException):
    pass


class _FakeTime:
    @staticmethod
    def sleep(x):
        pass

    @staticmethod
    def time():
        return 0.0


def block(i, B):
    """content of unit i at byte scale B: distinct for every i, and not periodic inside the block"""
    if B == 1:
        return bytes([(i * 37 + 11) % 251])
    head = ("<%d>" % i).encode()
    body = bytes((j * 7 + i * 13) % 256 for j in range(256))
    reps = (B - len(head)) // 256 + 1
    return (head + body * reps)[:B]


def to_units(data, B, cache):
    """inverse projection bytes -> unit ids; None when the bytes do not consist of whole blocks (unprojectable)"""
    data = bytes(data)
    if len(data) % B:
        return None
    out = []
    for o in range(0, min(len(data), 64 * B), B):       # (more than 64 units is surplus whatever it is: the tail is not looked at)
        out.append(cache.get(data[o:o + B], -9))
    return out


ROT = [0]


def fatal(code, text):
    """a fatal socket error in one of the shapes the operating system, the ssl module or a wrapper may give it: with error number
    and text, as a subclass, with a text only, with nothing at all"""
    ROT[0] += 1
    return [OSError(code, text), ConnectionResetError(code, text) if code == errno.ECONNRESET else BrokenPipeError(code, text),
            OSError(), OSError(text), OSError(code, text), ConnectionAbortedError()][ROT[0] % 6]


ERR = {
    "eintr": lambda: OSError(errno.EINTR, "interrupted"),
    "eagain": lambda: OSError(errno.EAGAIN, "try again"),
    "ewouldblock": lambda: OSError(errno.EWOULDBLOCK, "would block"),
    "reset": lambda: fatal(errno.ECONNRESET, "reset by peer"),
    "pipe": lambda: fatal(errno.EPIPE, "broken pipe"),
    "timeout": lambda: socket.timeout("timed out"),
}


class ScriptSock:
    """scripted socket.  recv side hands out the stream block(0) block(1) ... ; send side collects what it accepts."""
    family = socket.AF_INET

    def __init__(self, script, B, timeout, stream_units):
        self.script = list(script)
        self.B = B
        self._timeout = timeout
        self.stream = b"".join(block(i, B) for i in range(stream_units))
        self.pos = 0
        self.calls = []
        self.sticky = None
        self.peer = bytearray()
        self.unprojectable = False
        self.cache = {block(i, B): i for i in range(stream_units)}

    def gettimeout(self):
        return self._timeout

    def close(self):
        pass

    def shutdown(self, how):
        pass

    def _next(self):
        if len(self.calls) >= 60:
            raise Hang()
        if self.sticky:
            return {"k": self.sticky, "n": 0}
        if self.script:
            b = self.script.pop(0)
            if b["k"] in ("eof", "reset", "pipe"):
                self.sticky = b["k"]
            return b
        return None     # script exhausted: the socket behaves perfectly from here on

    def recv(self, size, flags=0):
        b = self._next()
        ask = -(-size // self.B)
        if b is None:
            b = {"k": "deliver", "n": ask}
        if b["k"] == "deliver":
            nbytes = min(b["n"] * self.B, size)
            data = self.stream[self.pos:self.pos + nbytes]
            self.pos += nbytes
            u = to_units(data, self.B, self.cache)
            if u is None or size % self.B:
                self.unprojectable = True
                u = []
            self.calls.append({"ask": ask, "r": "deliver", "u": u})
            return data
        self.calls.append({"ask": ask, "r": b["k"], "u": []})
        if b["k"] == "eof":
            return b""
        raise ERR[b["k"]]()

    def _offered(self, data):
        u = to_units(data, self.B, self.cache)
        if u is None:
            self.unprojectable = True
            u = []
        return u

    def send(self, data):
        b = self._next()
        data = bytes(data)
        u = self._offered(data)
        if b is None:
            b = {"k": "deliver", "n": len(u)}
        if b["k"] == "deliver":
            k = min(b["n"], len(u))
            self.peer.extend(data[:k * self.B])
            self.calls.append({"r": "accept", "u": u, "k": k})
            return k * self.B
        if b["k"] == "eof":      # not a send behaviour; treat as a reset
            b = {"k": "reset"}
            self.sticky = "reset"
        self.calls.append({"r": b["k"], "u": u, "k": 0})
        raise ERR[b["k"]]()

    def sendall(self, data):
        b = self._next()
        data = bytes(data)
        u = self._offered(data)
        if b is not None and b["k"] == "deliver" and b["n"] < len(u) and self.script and self.script[0]["k"] in ("eintr", "eagain", "ewouldblock"):
            # part of the buffer goes out, then the kernel interrupts the call (a send timeout, a signal): sendall raises
            k = b["n"]
            self.peer.extend(data[:k * self.B])
            self.calls.append({"r": "accept", "u": u, "k": k})
            e = self.script.pop(0)
            self.calls.append({"r": "sendall_error", "u": u[k:], "k": 0})
            raise ERR[e["k"]]()
        if b is None or b["k"] == "deliver":
            self.peer.extend(data)
            self.calls.append({"r": "accept", "u": u, "k": len(u)})
            return None
        if b["k"] == "eof":
            b = {"k": "reset"}
            self.sticky = "reset"
        if b["k"] in ("eintr", "eagain", "ewouldblock"):
            # a blocking sendall does not surface these; model them as a fatal error so the script stays meaningful
            b = {"k": "pipe"}
            self.sticky = "pipe"
        self.calls.append({"r": b["k"], "u": u, "k": 0})
        raise ERR[b["k"]]()


class OtherStream:
    """a socket of an earlier, unrelated connection: delivers bytes that occur in no scripted stream, in two pieces, and then
    fails; nothing of it may show up in a later read on another socket"""
    family = socket.AF_INET

    def __init__(self, n, fail):
        self.left, self.fail = n, fail

    def gettimeout(self):
        return 5.0

    def recv(self, size, flags=0):
        if self.fail and self.left <= 3:
            raise OSError(errno.ECONNRESET, "reset by peer")
        k = max(1, min(size, self.left) // 2) if self.left > 1 else min(size, self.left)
        self.left -= k
        return b"\xee" * k


def warm_up(socketutil, case):
    """every recorded read is preceded by a read on another socket through the same code path (one that completes, or one that
    breaks off half way, in turn): a read must start from nothing"""
    ROT[0] += 1
    fail = ROT[0] % 2 == 0
    try:
        socketutil.receive_data(OtherStream(7, fail), 7)
    except Exception:
        pass


def run_case(socketutil, errors, case):
    n, B, kind = case["n"], case["B"], case["kind"]
    sock = ScriptSock(case["s"], B, None if case.get("blocking") else 5.0, n + 3)
    tr = {"kind": kind, "n": n, "outcome": "none", "data": [-1], "partial": [-1]}
    try:
        if kind == "recv":
            socketutil.USE_MSG_WAITALL = bool(case["waitall"])
            warm_up(socketutil, case)
            if ROT[0] % 3 == 0:
                # (through the connection object that the rest of the library reads with)
                conn = socketutil.SocketConnection(sock)
                conn.keep_open = True
                data = conn.recv(n * B)
            else:
                data = socketutil.receive_data(sock, n * B)
            u = to_units(data, B, sock.cache)
            tr["outcome"] = "return"
            tr["data"] = u if u is not None else [-9]
        else:
            payload = b"".join(block(i, B) for i in range(n))
            # the buffer is handed over as bytes, as a bytearray, as a view of bytes or - where its length allows - as a view of
            # items wider than a byte, or as an array of such items
            ROT[0] += 1
            form = ROT[0] % 5
            if form == 4 and len(payload) % 4 == 0 and payload:
                import array
                payload = array.array("I", payload)        # a buffer of wide items that is not a view (an array, as numeric code has them)
            elif form == 1:
                payload = bytearray(payload)
            elif form == 2:
                payload = memoryview(payload)
            elif form == 3 and len(payload) % 2 == 0 and payload:
                import array
                payload = memoryview(array.array("H", payload))
            socketutil.send_data(sock, payload)
            tr["outcome"] = "return"
    except Hang:
        tr["outcome"] = "hang"
    except errors.TimeoutError:
        tr["outcome"] = "timeout"
    except errors.ConnectionClosedError as x:
        tr["outcome"] = "closed"
        pd = getattr(x, "partialData", None)
        if pd is not None:
            u = to_units(pd, B, sock.cache)
            tr["partial"] = u if u is not None else [-9]
    except Exception as x:
        tr["outcome"] = "other"
        tr["exc"] = type(x).__name__
    tr["calls"] = sock.calls
    if kind == "send":
        u = to_units(sock.peer, B, sock.cache)
        tr["peer"] = u if u is not None else [-9]
    return tr, sock.unprojectable


def cases_from(scripts, ctx):
    scales = [1, 30000] if ctx.quick else [1, 20000, 30000, 60000]
    out = []
    for sc in scripts:
        for B in scales:
            if B > 1 and (len(sc["s"]) > 2 and ctx.quick):
                continue
            for waitall in (True, False):
                out.append({"kind": "recv", "n": sc["n"], "s": sc["s"], "B": B, "waitall": waitall})
                # the same read on a socket without a timeout (a timeout cannot happen there, nor "would block")
                if not any(b["k"] in ("timeout", "eagain", "ewouldblock") for b in sc["s"]):
                    out.append({"kind": "recv", "n": sc["n"], "s": sc["s"], "B": B, "waitall": waitall, "blocking": True})
            if not any(b["k"] == "eof" for b in sc["s"]):
                for blocking in (False, True):
                    if blocking and len(sc["s"]) > 1 and not (len(sc["s"]) == 2 and sc["s"][0]["k"] == "deliver"
                                                              and sc["s"][1]["k"] in ("eintr", "eagain", "ewouldblock")):
                        continue        # sendall consumes one behaviour (or goes out in part and is then interrupted)
                    out.append({"kind": "send", "n": sc["n"], "s": sc["s"], "B": B, "blocking": blocking})
    return out


def run(ctx):
    from Pyro5 import socketutil, errors
    socketutil.time = _FakeTime
    ctx.rule = ("cases = every script of socket behaviours (deliver k / eof / EINTR / EAGAIN / EWOULDBLOCK / ECONNRESET / "
                "EPIPE / timeout) up to the length bound, generated by TLC from Gen_SockIO, x request size x MSG_WAITALL "
                "on/off x blocking/timeout mode x byte scale; distinct_nontrivial = distinct (kind, mode, scale, script) "
                "cases whose script contains at least one short delivery or error")
    ctx.assumptions = ["the scripted socket returns at most what was asked and keeps reporting EOF / a fatal error once reported",
                       "time.sleep inside socketutil is a no-op"]
    # (1) the model satisfies the property for every socket behaviour sequence
    for wa in ("TRUE", "FALSE"):
        for bl in ("TRUE", "FALSE"):
            tlc.mc(ctx, "SockIO", cfg_text=MC_CFG % (ctx.pick(3, 4), wa, 2, ctx.pick(6, 7), bl))
    # (2) TLC enumerates the scripts
    scripts = tlc.gen(ctx, "Gen_SockIO", cfg_text=GEN_CFG % (ctx.pick(3, 4), ctx.pick(3, 4)))
    if len(scripts) < 100:
        raise util.MachineryError("script generation produced too few scripts")
    cases = cases_from(scripts, ctx)
    # long runs of retryable errors inside one call (a quiet peer on a non-blocking socket): the call keeps retrying
    for e in ("eintr", "eagain", "ewouldblock"):
        for n_err in (14, 25, 40):
            burst = [{"k": e, "n": 0}] * n_err
            for n in (1, 3):
                cases.append({"kind": "recv", "n": n, "s": burst + [{"k": "deliver", "n": n}], "B": 1, "waitall": False})
                cases.append({"kind": "recv", "n": n, "s": [{"k": "deliver", "n": 0}] * 0 + burst, "B": 1, "waitall": True})
                cases.append({"kind": "send", "n": n, "s": burst + [{"k": "deliver", "n": n}], "B": 1, "blocking": False})
    # (3) drive the real code
    traces, kept = [], []
    skipped = 0
    for c in cases:
        tr, unproj = run_case(socketutil, errors, c)
        if unproj:
            skipped += 1
            continue
        traces.append(tr)
        kept.append(c)
        nontriv = any(b["k"] != "deliver" or b["n"] < c["n"] for b in c["s"])
        ctx.count((c["kind"], c.get("waitall"), c.get("blocking"), c["B"], c["n"], util_json(c["s"])) if nontriv else None)
    ctx.extra["unprojectable_cases_skipped"] = skipped
    if not traces:
        raise util.MachineryError("no projectable traces")
    for i in (0, len(traces) // 3, len(traces) // 2, len(traces) - 1):
        ctx.sample({"case": kept[i], "trace": traces[i]})
    # (4) TLC validates every recorded execution
    verdicts, _ = tlc.validate(ctx, "Trace_SockIO", traces, cfg="Trace_SockIO.cfg", batch=20000)
    seen_events = set()
    for c, tr, v in zip(kept, traces, verdicts):
        seen_events.add(tr["outcome"])
        if v:
            sig = "%s kind=%s mode=%s" % (v, c["kind"], ("waitall" if c.get("waitall") else "loop") + ("+blocking" if c.get("blocking") else "")
                                          if c["kind"] == "recv" else ("blocking" if c.get("blocking") else "loop"))
            ctx.violation(sig, {"case": c, "trace": tr})
    for need in ("return", "closed", "timeout"):
        if need not in seen_events:
            raise util.MachineryError("vacuity: no trace with outcome " + need)
    ctx.exhaustive = True


def util_json(o):
    import json
    return json.dumps(o, sort_keys=True)


def replay(ctx, path):
    import json
    from Pyro5 import socketutil, errors
    socketutil.time = _FakeTime
    rep = json.load(open(path))
    bad = 0
    for case in rep["cases"]:
        tr, _ = run_case(socketutil, errors, case["case"])
        v, _ = tlc.validate(ctx, "Trace_SockIO", [tr], cfg="Trace_SockIO.cfg")
        print("replay:", case["case"], "->", tr["outcome"], "verdict:", v[0] or "accepted")
        bad += bool(v[0])
    if bad:
        print("VIOLATION property=%s replay=%s" % (ctx.prop, path))
    return 1 if bad else 0
