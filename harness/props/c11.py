"""C11 - a batch behaves like the same calls made one after another.

MC    : Batch.tla (the member-by-member loop against Run, the sequential meaning of a call list).
Gen   : Gen_Batch.tla enumerates every call list up to a length over the call alphabet.
Drive : two identical real objects in a real daemon: one driven through BatchProxy (normal and oneway; also a re-used
        BatchProxy), the other call by call; every serializer; journal read back through a separate proxy.
Trace : Trace_Batch.tla (monitor) compares both with the model, hence with each other.
"""
import json
import random

from .. import memnet, tlc, util
from .. import sched as S

GEN_CFG = """INIT Init
NEXT Next
CONSTANTS MaxLen = %d
CHECK_DEADLOCK FALSE
"""
MC_CFG = """SPECIFICATION Spec
CONSTANTS Calls <- MCCalls
  MaxLen = %d
INVARIANT SameAsSequential
CHECK_DEADLOCK FALSE
"""


def make_target():
    import Pyro5.api as P

    class Journal(object):
        def __init__(self):
            self.j = []

        @P.expose
        def add(self, k):
            self.j.append(k)
            return sum(self.j)

        @P.expose
        def addkw(self, k=0):
            self.j.append(k)
            return sum(self.j)

        @P.expose
        def read(self):
            return len(self.j)

        @P.expose
        @P.oneway
        def note(self, k):
            # declared oneway: whoever calls it gets nothing back, whatever it returns
            self.j.append(k)
            return "noted"

        @P.expose
        def fail(self):
            if APPERR[0]:
                # an exception class of the application's own, for which it has registered converters both ways
                raise AppError("fail", 7, code=403)
            x = ZeroDivisionError("fail", 7)
            x.code = 403
            x.detail = {"k": [1, 2]}
            if UNSER[0]:
                import threading
                x.lock = threading.Lock()
            raise x

        @P.expose
        def failafter(self, k):
            self.j.append(k)
            x = ZeroDivisionError("failafter")
            x.after = k
            if TBTEXT[0]:
                # the exception itself is clean, but its cause's text (a file name that is not valid unicode) is part of the
                # traceback that travels with it
                raise x from OSError("cannot read caf\udce9.txt")
            raise x

        def unexposed(self):
            self.j.append(-1)
            return -1

        def _private(self):
            self.j.append(-2)
            return -2

        @P.expose
        def dump(self):
            return list(self.j)

        @P.expose
        def reset(self):
            self.j = []
    return Journal


def invoke_on(target, c):
    m = c["m"]
    if m == "add":
        return target.add(c["k"])
    if m == "addkw":
        return target.addkw(k=c["k"])
    if m == "read":
        return target.read()
    if m == "note":
        r = target.note(c["k"])
        if type(target).__name__ != "BatchProxy":
            S.CUR.quiesce()         # a oneway call is over for the caller at once; the reference run waits until it has been carried out
        return NONE if r is None else -7      # (-7: something else than nothing came back)
    if m == "fail":
        return target.fail()
    if m == "failafter":
        return target.failafter(c["k"])
    if m == "unexposed":
        return target.unexposed()
    if m == "private":
        return target._private()
    if m == "missing":
        return target.no_such_method()
    raise util.MachineryError("call " + m)


NONE = 1000000       # what Batch.tla writes for "nothing"
APPERR = [False]     # the raising member raises the application's own exception class


class AppError(Exception):
    def __init__(self, *args, code=0):
        super().__init__(*args)
        self.code = code


def apperror_to_dict(x):
    return {"__class__": "harness.c11.AppError", "a": list(x.args), "code": x.code}


def apperror_from_dict(classname, d):
    return AppError(*d["a"], code=d["code"])
TBTEXT = [False]     # the append-then-raise member's exception has a cause whose text not every serializer can write
UNSER = [False]      # the raising member's exception carries something no serializer can write


def is_fallback(x):
    """the daemon's substitute for an exception it could not serialize: a Pyro error that describes the original"""
    from Pyro5 import errors
    return isinstance(x, errors.PyroError) and "ZeroDivisionError" in str(x)


def exc_name(x):
    if is_fallback(x):
        return "ValueError"
    # the model calls the exception of the raising members "ValueError"; the target raises ZeroDivisionError so that it cannot be
    # confused with an error of the machinery in between
    return "ValueError" if isinstance(x, (ZeroDivisionError, AppError)) else ("AttributeError" if isinstance(x, AttributeError) else "other:" + type(x).__name__)


BAD_NAMES = {"unexposed": "unexposed", "private": "_private", "missing": "no_such_method"}


def fingerprint(x, calls=()):
    """class, args and custom attributes of a caught exception, as text.  A refusal of a name that cannot be called is worded
    differently by the client (single call) and by the daemon (batch): there, it is that call's own if it names the member."""
    if is_fallback(x):
        return "substitute describing the original"
    if isinstance(x, AttributeError):
        names = [BAD_NAMES[c["m"]] for c in calls if c["m"] in BAD_NAMES]
        return "AttributeError|names the member" if any(repr(n) in str(x) or ("'%s'" % n) in str(x) for n in names) else "AttributeError|" + str(x)[:80]
    attrs = {k: v for k, v in vars(x).items() if k != "_pyroTraceback"}
    return "%s.%s|%s|%s" % (type(x).__module__, type(x).__name__, json.dumps(list(x.args), sort_keys=True, default=repr),
                            json.dumps(attrs, sort_keys=True, default=repr)) if isinstance(x, (ZeroDivisionError, AppError)) else type(x).__name__


def sequential(p, calls):
    res = []
    for i, c in enumerate(calls):
        try:
            res.append(invoke_on(p, c))
        except (S.Hang, S.SchedAbort):
            raise
        except Exception as x:
            return {"results": res, "exc": exc_name(x), "pos": i + 1, "fp": fingerprint(x, calls)}
    return {"results": res, "exc": "", "pos": 0, "fp": ""}


def submit_batch(P, bp, calls, oneway, queued=False):
    """queues calls on BatchProxy bp (unless that has been done already) and submits; returns the observation record"""
    for c in ([] if queued else calls):
        invoke_on(bp, c)
    out = {"results": [], "exc": "", "where": "", "pos": 0, "ret_none": False, "fp": ""}
    try:
        gen = bp(oneway=oneway)
    except (S.Hang, S.SchedAbort):
        raise
    except Exception as x:
        out.update(exc=exc_name(x), where="submit", fp=fingerprint(x, calls))
        return out
    if oneway:
        out["ret_none"] = gen is None
        return out
    try:
        for r in gen:
            out["results"].append(NONE if r is None else (r if isinstance(r, int) and not isinstance(r, bool) else -7))
    except (S.Hang, S.SchedAbort):
        raise
    except Exception as x:
        out.update(exc=exc_name(x), where="position", pos=len(out["results"]) + 1, fp=fingerprint(x, calls))
    return out


def run_cases(cases, servertype):
    import Pyro5.api as P
    from Pyro5 import config
    config.SERVERTYPE = servertype
    config.THREADPOOL_SIZE = 8
    config.THREADPOOL_SIZE_MIN = 1
    config.COMMTIMEOUT = 0.0
    traces = []

    from Pyro5 import serializers as _ser
    _ser.SerializerBase.register_class_to_dict(AppError, apperror_to_dict)
    _ser.SerializerBase.register_dict_to_class("harness.c11.AppError", apperror_from_dict)

    def main():
        sc = S.CUR
        d = P.Daemon(host="127.0.0.1")
        J = make_target()
        ua = d.register(J(), "a")
        ub = d.register(J(), "b")
        # the same journal as a registered class with one instance per connection: the state belongs to the caller's connection
        usa = d.register(P.behavior(instance_mode="session")(make_target()), "sa")
        usb = d.register(P.behavior(instance_mode="session")(make_target()), "sb")
        drv = memnet.ServerDriver(d)
        undrained = [0]
        for case_no, case in enumerate(cases):
            sc.set_budget(20000)
            ser = case["ser"]
            UNSER[0] = bool(case.get("unser"))
            APPERR[0] = not UNSER[0] and case_no % 3 == 1
            TBTEXT[0] = case_no % 2 == 0
            tr = {"calls": case["calls"], "pre": case["pre"], "oneway": case["oneway"], "hang": False, "ser": ser, "drain": case["drain"]}
            pa = pb = pr = None
            try:
                session = bool(case.get("session"))
                tr["session"] = session
                pa, pb, pr = P.Proxy(usa if session else ua), P.Proxy(usb if session else ub), P.Proxy(ua)
                for p in (pa, pb, pr):
                    p._pyroSerializer = ser
                pr.reset()
                pb.reset()
                # reference: the calls one after another (the earlier batch's calls first)
                sequential(pb, case["pre"])
                tr["seq"] = sequential(pb, case["calls"])
                tr["seq"]["journal"] = pb.dump()
                # the batch, on a BatchProxy that may already have carried an earlier batch
                bp = P.BatchProxy(pa)
                late = None
                if case["pre"] and case["drain"] == "late":
                    # the results of the earlier batch are only looked at after the next batch's calls have been collected
                    for c in case["pre"]:
                        invoke_on(bp, c)
                    try:
                        late = bp()
                    except (S.Hang, S.SchedAbort):
                        raise
                    except Exception:
                        late = iter(())           # (a submission that fails as a whole: nothing to look at later)
                    for c in case["calls"]:
                        invoke_on(bp, c)
                    try:
                        list(late)
                    except (S.Hang, S.SchedAbort):
                        raise
                    except Exception:
                        pass
                elif case["pre"]:
                    first = submit_batch(P, bp, case["pre"], False) if case["drain"] else None
                    if first is None:
                        for c in case["pre"]:
                            invoke_on(bp, c)
                        try:
                            # results deliberately not looked at; every other time (of these) the earlier batch is a oneway batch
                            undrained[0] += 1
                            bp(oneway=bool(undrained[0] % 2))
                            sc.quiesce()
                        except (S.Hang, S.SchedAbort):
                            raise
                        except Exception:
                            pass
                if case_no % 4 == 2 and late is None:
                    # the calls are collected, then the batch proxy is copied and the copy collects calls of its own (never
                    # submitted): the original is still the batch it was
                    import copy as _copy
                    for c in case["calls"]:
                        invoke_on(bp, c)
                    other = _copy.copy(bp)
                    invoke_on(other, {"m": "add", "k": 7})
                    invoke_on(other, {"m": "add", "k": 9})
                    late = True
                tr["bat"] = submit_batch(P, bp, case["calls"], case["oneway"], queued=late is not None)
                sc.quiesce()
                pr._pyroRelease()
                if session:
                    tr["bat"]["journal"] = pa.dump()        # the state lives in the caller's own connection
                else:
                    q = P.Proxy(ua)
                    q._pyroSerializer = ser
                    tr["bat"]["journal"] = q.dump()
                    q._pyroRelease()
            except S.Hang:
                tr["hang"] = True
                tr.setdefault("seq", {"results": [], "exc": "", "pos": 0, "journal": [], "fp": ""})
                tr.setdefault("bat", {"results": [], "exc": "", "where": "", "pos": 0, "ret_none": False, "journal": [], "fp": ""})
                tr["seq"].setdefault("journal", [])
                if tr["bat"].get("journal") is None:
                    tr["bat"]["journal"] = []
            for p in (pa, pb, pr):
                try:
                    if p is not None:
                        p._pyroRelease()
                except Exception:
                    pass
            try:
                sc.quiesce()
            except S.Hang:
                pass
            traces.append(tr)
        drv.shutdown()
        d.close()
    try:
        memnet.run(main, max_steps=50000000)
    finally:
        APPERR[0] = False
        TBTEXT[0] = False
        _ser.SerializerBase.unregister_class_to_dict(AppError)
        _ser.SerializerBase.unregister_dict_to_class("harness.c11.AppError")
    if len(traces) < len(cases):
        raise util.MachineryError("session ended early (%d of %d)" % (len(traces), len(cases)))
    return traces


def run(ctx):
    memnet.install()
    ctx.rule = ("cases = (call list from Gen_Batch over add / keyword add / read / raising / append-then-raise / unexposed / private / missing) "
                "x normal|oneway x serializer x (fresh BatchProxy | re-used BatchProxy with an earlier batch, drained or not); "
                "distinct_nontrivial = distinct cases whose call list contains a failing member")
    ctx.assumptions = ["the journal object is the stateful reference; effects are read back through a separate proxy after quiescence",
                       "a failure may surface at its position in the result sequence or when the batch is submitted (both allowed by the statement)"]
    tlc.mc(ctx, "MC_Batch", cfg_text=MC_CFG % ctx.pick(4, 5))
    lists = tlc.gen(ctx, "Gen_Batch", cfg_text=GEN_CFG % ctx.pick(3, 4))
    if len(lists) < 800:
        raise util.MachineryError("call list generation incomplete")
    rng = random.Random(ctx.seed + 11)
    sers = ["serpent", "json", "marshal", "msgpack"]
    cases = []
    for i, calls in enumerate(lists):
        for oneway in (False, True):
            for k, ser in enumerate(sers):
                if ctx.quick and k != (i + oneway) % 4 and len(calls) > 1:
                    continue
                cases.append({"calls": calls, "pre": [], "oneway": oneway, "ser": ser, "drain": True, "session": (i + k) % 4 == 1,
                              "unser": (i + k) % 5 == 2 and any(c["m"] == "fail" for c in calls)})
    short = [c for c in lists if 1 <= len(c) <= 2]
    # an earlier batch on the same BatchProxy: one whose submission succeeds (what a BatchProxy holds after a submission that
    # itself raised is not something the statement speaks about)
    presafe = [c for c in short if not any(x["m"] in ("unexposed", "private", "missing") for x in c)]
    for i in range(ctx.pick(300, 3000)):
        pre, calls = rng.choice(presafe), rng.choice(short)
        ser = sers[i % 4]
        cases.append({"calls": calls, "pre": pre, "oneway": rng.random() < 0.3, "ser": ser, "drain": (True, False, "late")[i % 3], "session": i % 5 == 2})
    # long batches: a failing member early, late, or nowhere in more than a thousand calls
    # (quick: the early failure only - the model stops there too, the other shapes take TLC minutes)
    for li, (n, failat) in enumerate(((1100, 7), (2300, 3), (1100, 1050), (1100, 0), (2300, 1200))[:ctx.pick(2, 5)]):
        calls = [{"m": "add", "k": 1 + j % 3} for j in range(n)]
        if failat:
            calls[failat] = {"m": "fail", "k": 0}
        for oneway in (False, True):
            cases.append({"calls": calls, "pre": [], "oneway": oneway, "ser": sers[(li + oneway) % 4], "drain": True})
    traces = run_cases(cases, "multiplex")
    metas = [dict(c, server="multiplex") for c in cases]
    if not ctx.quick:
        sub = cases[::5]
        traces += run_cases(sub, "thread")
        metas += [dict(c, server="thread") for c in sub]
    failing = {"fail", "failafter", "unexposed", "private", "missing"}
    for m in metas:
        ctx.count(json.dumps(m, sort_keys=True) if any(c["m"] in failing for c in m["calls"]) else None)
    for i in (7, len(traces) // 2, len(traces) - 1):
        ctx.sample(traces[i])
    verdicts, _ = tlc.validate(ctx, "Trace_Batch", traces, cfg="Trace_Batch.cfg", batch=6000)
    for tr, m, v in zip(traces, metas, verdicts):
        if v:
            ctx.violation("%s [ser=%s %s%s]" % (v, m["ser"], "oneway" if m["oneway"] else "normal", " reuse" if m["pre"] else ""),
                          {"case": m, "trace": tr})


def replay(ctx, path):
    memnet.install()
    rep = json.load(open(path))
    bad = 0
    for case in rep["cases"]:
        m = case["case"]
        tr = run_cases([m], m.get("server", "multiplex"))[0]
        v, _ = tlc.validate(ctx, "Trace_Batch", [tr], cfg="Trace_Batch.cfg")
        print("replay:", m, "->", v[0] or "accepted")
        print("   seq:", tr["seq"])
        print("   bat:", tr["bat"])
        bad += bool(v[0])
    if bad:
        print("VIOLATION property=%s replay=%s" % (ctx.prop, path))
    return 1 if bad else 0
