"""C09 - instance modes: one per daemon, one per connection, or one per call.

MC    : Instances.tla (atomic design) and InstancesImpl.tla (PlusCal of _getInstance for 'single' with the lock, racing
        first calls, falsy instances).
Gen   : Gen_Inst.tla walks the atomic model and emits every history of open / call / close steps up to a length.
Drive : a real daemon (multiplex server for the histories; thread-pool server with racing clients under the line-level
        scheduler for the 'single' race) serving generated classes of every instance shape (truthy, falsy via __len__,
        falsy via __bool__, all-equal __eq__/__hash__) with every creator kind (none, ok, fails first, wrong type).
Trace : Trace_Inst.tla (monitor).
"""
import gc
import itertools
import json
import os
import random
import weakref

from .. import memnet, tlc, util
from .. import sched as S

GEN_CFG = """INIT GInit
NEXT GNext
CONSTANTS Conns = {%s}
  Classes = {"S", "N", "P"}
  Mode <- GMode
  MaxCalls = 20
  MaxLen = %d
CHECK_DEADLOCK FALSE
"""
MC_IMPL = """SPECIFICATION Spec
CONSTANTS Threads = {1, 2, 3}
  Truthy = %s
  TestIsNone = TRUE
  UseLock = TRUE
  CallsEach = 2
INVARIANT OneInstance
INVARIANT CreatedOnce
CHECK_DEADLOCK FALSE
"""
SHAPES = ["truthy", "falsy_len", "falsy_bool", "eqall"]
CREATORS = ["none", "ok", "failfirst", "wrongtype", "falsy"]
MODES = {"S": "single", "N": "session", "P": "percall"}


class FailingResource(object):
    """something the application tracks on its connection and whose close() fails"""
    def close(self):
        raise RuntimeError("this resource cannot be closed")


def make_classes(shape, creator_kind, stats, inherit=False, slow=False, resraise=False):
    """slow: making an instance takes half a second (of virtual time); resraise: the first call served by an instance tracks, on
    the caller's connection, a resource whose close() raises"""
    import Pyro5.api as P
    serial = itertools.count(1)
    classes = {}
    for K, mode in MODES.items():
        ns = {}

        def __init__(self, K=K):
            self.serial = next(serial)
            stats["creates"][K] += 1
            if slow and S.CUR is not None:
                S.CUR.sleep(0.5)
            if K == "N":
                stats["refs"].append(weakref.ref(self))
                stats["byserial"][self.serial] = weakref.ref(self)

        def who(self):
            if resraise and not getattr(self, "tracked", False):
                from Pyro5.callcontext import current_context
                self.tracked = FailingResource()
                current_context.track_resource(self.tracked)
            return self.serial

        def note(self):
            # a oneway member: the caller learns nothing, the instance that served it is written down here
            stats.setdefault("noted", []).append(self.serial)
        ns["__init__"] = __init__
        ns["who"] = who
        ns["note"] = P.oneway(note)
        if shape == "falsy_len":
            ns["__len__"] = lambda self: 0
        elif shape == "falsy_bool":
            ns["__bool__"] = lambda self: False
        elif shape == "eqall":
            ns["__eq__"] = lambda self, other: True
            ns["__hash__"] = lambda self: 1
        cls = type("Target_%s_%s" % (K, shape), (object,), ns)
        cls = P.expose(cls)
        creator = None
        if creator_kind == "ok":
            def creator(clazz, K=K):
                stats["creator_ok"][K] += 1
                return clazz()
        elif creator_kind == "falsy":
            # a creator that is itself an empty container (callable, but falsy): still a creator
            class FalsyCreator(object):
                def __init__(self, K):
                    self.K = K

                def __len__(self):
                    return 0

                def __call__(self, clazz):
                    stats["creator_ok"][self.K] += 1
                    return clazz()
            creator = FalsyCreator(K)
        elif creator_kind == "failfirst":
            def creator(clazz, K=K):
                stats["creator_calls"][K] += 1
                if stats["creator_calls"][K] == 1:
                    raise ValueError("creator fails the first time")
                stats["creator_ok"][K] += 1
                return clazz()
        elif creator_kind == "wrongtype":
            def creator(clazz, K=K):
                stats["creator_calls"][K] += 1
                return object()
        if inherit == "override":
            # the base class is declared with another mode (and no creator); the registered subclass declares its own on top
            other = {"single": "percall", "session": "single", "percall": "session"}[mode]
            base = P.behavior(instance_mode=other)(cls)
            cls = type("Over_%s_%s" % (K, shape), (base,), {})
            cls = P.behavior(instance_mode=mode, instance_creator=creator)(cls)
            classes[K] = cls
            continue
        cls = P.behavior(instance_mode=mode, instance_creator=creator)(cls)
        if inherit:
            # what gets registered is a plain subclass: exposure, instance mode and creator are all inherited
            cls = type("Sub_%s_%s" % (K, shape), (cls,), {})
        classes[K] = cls
    return classes


def new_stats():
    return {"creates": {k: 0 for k in MODES}, "creator_ok": {k: 0 for k in MODES}, "creator_calls": {k: 0 for k in MODES}, "refs": [], "byserial": {}, "served": {}}


def alive_after_close(stats, cid):
    """session instances that served connection cid and are still alive although the connection has ended"""
    refs = [stats["byserial"].get(sn) for sn in stats["served"].get(cid, ())]
    if any(r is not None and r() is not None for r in refs):
        gc.collect()
    return sum(1 for r in refs if r is not None and r() is not None)


def finish_trace(tr, stats):
    gc.collect()
    alive = sum(1 for r in stats["refs"] if r() is not None)
    tr.append({"e": "stats", "creates": stats["creates"], "creator_ok": stats["creator_ok"], "creator_calls": stats["creator_calls"],
               "alive_session": alive})


def daemon_class(P, hookraise):
    """the daemon's disconnect hook is application code: it may fail (both servers log and ignore that)"""
    if not hookraise:
        return P.Daemon

    class HookRaisingDaemon(P.Daemon):
        def clientDisconnect(self, conn):
            raise RuntimeError("application hook failed")
    return HookRaisingDaemon


def end_connection(p, abortive):
    """the client ends its connection: an orderly release, or (abortive) a reset - the process was killed, the path was cut"""
    if abortive and p._pyroConnection is not None:
        p._pyroConnection.sock.abort()
    p._pyroRelease()


def run_history(h, shape, creator_kind, servertype="multiplex", hookraise=False, two_daemons=False, abortive=False, inherit=False, rereg=False,
                oneway_first=False, resraise=False):
    """oneway_first: instances take a while to make, and every call is preceded by a oneway call on the same class over the same
    connection (a oneway call runs in a thread of its own while the connection's next request is already being served)"""
    import Pyro5.api as P
    from Pyro5 import config
    config.SERVERTYPE = servertype
    config.THREADPOOL_SIZE = 8
    config.THREADPOOL_SIZE_MIN = 1
    stats = new_stats()
    tr = [{"e": "cfg", "creator": "ok" if creator_kind == "falsy" else creator_kind}]      # (a falsy creator is a creator like any other)

    def main():
        sc = S.CUR
        d = daemon_class(P, hookraise)(host="127.0.0.1")
        classes = make_classes(shape, creator_kind, stats, inherit=inherit, slow=oneway_first, resraise=resraise)
        uris = {K: d.register(cls, K) for K, cls in classes.items()}
        drv = memnet.ServerDriver(d)
        conns = {}
        inc = itertools.count(1)
        daemons = [(d, drv)]
        for si, step in enumerate(h):
            a, c, k = step["a"], step["c"], step["k"]
            if rereg and si == len(h) // 2:
                # the classes are unregistered and registered again half way: the daemon is the same, so is its one 'single' instance
                for K, cls in classes.items():
                    d.unregister(K)
                    d.register(cls, K, force=True)
            if two_daemons and si == len(h) // 2:
                # a second daemon in the same process takes over the same classes; the connections move to it
                d2 = daemon_class(P, hookraise)(host="127.0.0.1")
                uris = {K: d2.register(cls, K) for K, cls in classes.items()}
                daemons.append((d2, memnet.ServerDriver(d2)))
                tr.append({"e": "newdaemon"})
                for cc in list(conns):
                    cid, p = conns.pop(cc)
                    p._pyroRelease()
                    sc.quiesce()
                    tr.append({"e": "close", "c": cid, "alive": alive_after_close(stats, cid)})
                    p = P.Proxy(uris["S"])
                    p._pyroBind()
                    conns[cc] = (next(inc), p)
                    tr.append({"e": "open", "c": conns[cc][0]})
            if a == "open":
                p = P.Proxy(uris["S"])
                p._pyroBind()
                conns[c] = (next(inc), p)
                tr.append({"e": "open", "c": conns[c][0]})
            elif a == "close":
                cid, p = conns.pop(c)
                end_connection(p, abortive)
                sc.quiesce()
                tr.append({"e": "close", "c": cid, "alive": alive_after_close(stats, cid)})
            elif a == "call":
                cid, p = conns[c]
                noted0 = len(stats.get("noted", []))
                if oneway_first:
                    from Pyro5 import protocol
                    p._pyroInvoke("note", (), {}, flags=protocol.FLAGS_ONEWAY, objectId=k)
                try:
                    inst = p._pyroInvoke("who", (), {}, objectId=k)
                    if k == "N":
                        stats["served"].setdefault(cid, set()).add(inst)
                    tr.append({"e": "call", "c": cid, "k": k, "inst": inst, "ok": True})
                except (S.Hang, S.SchedAbort):
                    raise
                except Exception:
                    tr.append({"e": "call", "c": cid, "k": k, "inst": 0, "ok": False})
                if oneway_first:
                    sc.sleep(1.0)
                    sc.quiesce()
                    for sn in stats.get("noted", [])[noted0:]:
                        # the oneway call that went first was served as well: by which instance
                        if k == "N":
                            stats["served"].setdefault(cid, set()).add(sn)
                        tr.insert(len(tr) - 1, {"e": "call", "c": cid, "k": k, "inst": sn, "ok": True})
        for c in list(conns):
            cid, p = conns.pop(c)
            end_connection(p, abortive)
            sc.quiesce()
            tr.append({"e": "close", "c": cid, "alive": alive_after_close(stats, cid)})
        p = None
        for dd, dv in daemons:
            dv.shutdown()
            dd.close()
    res, sc = memnet.run(main)
    if res.get("hang"):
        tr.append({"e": "hang"})
    finish_trace(tr, stats)
    return tr


def run_race(chooser, nclients, shape, creator_kind, tfilter, hookraise=False, calls=("S", "N", "S", "P")):
    """first calls of several connections racing on the thread-pool server"""
    import Pyro5.api as P
    from Pyro5 import config
    config.SERVERTYPE = "thread"
    config.THREADPOOL_SIZE = nclients + 1
    config.THREADPOOL_SIZE_MIN = 1
    stats = new_stats()
    tr = [{"e": "cfg", "creator": creator_kind, "race": True}]

    def main():
        sc = S.CUR
        d = daemon_class(P, hookraise)(host="127.0.0.1")
        classes = make_classes(shape, creator_kind, stats)
        uris = {K: d.register(cls, K) for K, cls in classes.items()}
        drv = memnet.ServerDriver(d)
        done = [0]

        def client(i):
            def body():
                p = P.Proxy(uris["S"])
                p._pyroBind()
                tr.append({"e": "open", "c": i})
                for k in calls:
                    try:
                        inst = p._pyroInvoke("who", (), {}, objectId=k)
                        if k == "N":
                            stats["served"].setdefault(i, set()).add(inst)
                        tr.append({"e": "call", "c": i, "k": k, "inst": inst, "ok": True})
                    except (S.Hang, S.SchedAbort):
                        raise
                    except Exception:
                        tr.append({"e": "call", "c": i, "k": k, "inst": 0, "ok": False})
                p._pyroRelease()
                done[0] += 1
            return body
        for i in range(1, nclients + 1):
            sc.spawn("c%d" % i, client(i), trace=False)
        sc.yield_point(lambda: done[0] == nclients)
        sc.quiesce()
        for i in range(1, nclients + 1):
            tr.append({"e": "close", "c": i, "alive": alive_after_close(stats, i)})
        drv.shutdown()
        d.close()
    res, sc = memnet.run(main, chooser=chooser, trace_filter=tfilter, max_steps=60000)
    if res.get("hang"):
        tr.append({"e": "hang"})
    finish_trace(tr, stats)
    return tr


def run(ctx):
    memnet.install()
    from Pyro5 import server
    ctx.rule = ("cases = (history of open/call/close steps from Gen_Inst) x (instance shape) x (creator kind) on the multiplex server, plus "
                "racing first calls of 2-3 connections on the thread-pool server under explored schedules (yield points in the instance "
                "lookup/creation code); distinct_nontrivial = distinct recorded traces")
    ctx.assumptions = ["instance identity = serial number assigned in the constructor of the generated target classes",
                       "one connection is served by one thread at a time (true of both servers), so races are generated between connections only"]
    tlc.mc(ctx, "MC_Instances", cfg="MC_Instances.cfg")
    tlc.mc(ctx, "InstancesImpl", cfg_text=MC_IMPL % "TRUE")
    tlc.mc(ctx, "InstancesImpl", cfg_text=MC_IMPL % "FALSE")
    hs = tlc.gen(ctx, "Gen_Inst", cfg_text=GEN_CFG % ("1, 2", ctx.pick(6, 7)))
    if len(hs) < 1000:
        raise util.MachineryError("too few histories")
    rng = random.Random(ctx.seed + 9)
    rng.shuffle(hs)
    traces, metas = [], []
    n_plain = ctx.pick(60, 600)
    n_creator = ctx.pick(25, 250)
    for shape in SHAPES:
        for i, h in enumerate(hs[:n_plain]):
            hr = i % 3 == 2
            st = "thread" if i % 4 == 3 else "multiplex"
            two = i % 5 == 1        # a second daemon in the same process takes over half way
            ab = i % 7 in (2, 3)    # the connections end with a reset instead of an orderly close
            inh = {1: True, 4: True, 2: "override", 5: "override"}.get(i % 8, False)   # the classes inherit their behaviour / override an inherited one
            rr = (not two) and i % 4 == 2     # unregistered and registered again half way
            ow = i % 6 == 4 and not two and not rr
            rsr = i % 5 == 3        # the instances track a resource whose close() fails
            traces.append(run_history(h, shape, "none", servertype=st, hookraise=hr, two_daemons=two, abortive=ab, inherit=inh, rereg=rr, oneway_first=ow,
                                      resraise=rsr))
            metas.append({"part": "history" + ("-threadserver" if st == "thread" else ""), "shape": shape, "creator": "none", "h": h, "hookraise": hr,
                          "two_daemons": two, "abortive": ab, "inherit": inh, "rereg": rr, "oneway_first": ow, "resraise": rsr})
    for creator in CREATORS[1:]:
        for shape in ("truthy", "falsy_len"):
            for j, h in enumerate(hs[n_plain:n_plain + n_creator]):
                inh = {1: True, 2: "override"}.get(j % 4, False)
                rr = j % 5 == 3
                traces.append(run_history(h, shape, creator, inherit=inh, rereg=rr))
                metas.append({"part": "history", "shape": shape, "creator": creator, "h": h, "inherit": inh, "rereg": rr})
    if not ctx.quick:
        for shape in SHAPES:
            for h in hs[-150:]:
                traces.append(run_history(h, shape, "none", servertype="thread"))
                metas.append({"part": "history-threadserver", "shape": shape, "creator": "none", "h": h})
    # the race
    sfile = os.path.abspath(server.__file__)
    fine = {"_getInstance", "createInstance"}

    def tfilter(code):
        return os.path.abspath(code.co_filename) == sfile and (code.co_name in fine or "nstance" in code.co_name)

    def tfilter_wide(code):
        return os.path.abspath(code.co_filename) == sfile and code.co_name in (fine | {"handleRequest"})
    seen = set()
    for shape, creator, ncl, filt, (bound, limit, nrand) in (
            [(s, "none", 2, tfilter, (ctx.pick(2, 3), ctx.pick(40, 400), ctx.pick(30, 300))) for s in SHAPES] +
            [("truthy", "ok", 3, tfilter, (1, ctx.pick(25, 200), ctx.pick(25, 300))),
             ("truthy", "hookraise", 2, tfilter, (1, ctx.pick(10, 100), ctx.pick(10, 100))),
             ("falsy_len", "ok", 2, tfilter, (1, ctx.pick(25, 200), ctx.pick(25, 300))),
             ("truthy", "none", 2, tfilter_wide, (1, ctx.pick(20, 300), ctx.pick(40, 600))),
             # a creator that fails the first time it is called: whoever's call that was fails, the others wait for / find the one
             # instance that is made afterwards (three connections, each making just its first call on the 'single' class twice)
             ("truthy", "failfirst", 3, tfilter, (2, ctx.pick(150, 1500), ctx.pick(40, 400))),
             ("eqall", "failfirst", 2, tfilter, (2, ctx.pick(40, 300), ctx.pick(20, 200)))]):
        def once(ch):
            if creator == "hookraise":
                return run_race(ch, ncl, shape, "none", filt, hookraise=True)
            if creator == "failfirst":
                return run_race(ch, ncl, shape, creator, filt, calls=("S", "S"))
            return run_race(ch, ncl, shape, creator, filt)
        for ch, tr in S.explore(once, max_preemptions=bound, limit=limit, rng=rng, random_runs=nrand):
            ctx.evaluations += 1
            key = json.dumps(tr, sort_keys=True)
            if key in seen:
                continue
            seen.add(key)
            traces.append(tr)
            metas.append({"part": "race", "shape": shape, "creator": creator, "clients": ncl, "schedule": list(ch.names)})
    for tr in traces:
        ctx.nontrivial.add(json.dumps(tr, sort_keys=True))
    ctx.evaluations += sum(1 for m in metas if m["part"] != "race")
    for i in (0, len(traces) // 2, len(traces) - 1):
        ctx.sample({"meta": {k: v for k, v in metas[i].items() if k != "schedule"}, "trace": traces[i]})
    verdicts, _ = tlc.validate(ctx, "Trace_Inst", traces, cfg="Trace_Inst.cfg", batch=4000)
    for tr, meta, v in zip(traces, metas, verdicts):
        if any(e["e"] == "hang" for e in tr):
            v = v or "C09.Hang"
        if v:
            ctx.violation("%s [%s shape=%s creator=%s]" % (v, meta["part"], meta["shape"], meta["creator"]), {"meta": meta, "trace": tr})


def replay(ctx, path):
    memnet.install()
    rep = json.load(open(path))
    bad = 0
    for case in rep["cases"]:
        meta = case["meta"]
        if meta["part"] == "race":
            print("replay of race cases: rerun the check (schedules are re-explored)")
            continue
        tr = run_history(meta["h"], meta["shape"], meta["creator"], "thread" if "thread" in meta["part"] else "multiplex",
                         hookraise=meta.get("hookraise", False), two_daemons=meta.get("two_daemons", False), abortive=meta.get("abortive", False), inherit=meta.get("inherit", False), rereg=meta.get("rereg", False))
        v, _ = tlc.validate(ctx, "Trace_Inst", [tr], cfg="Trace_Inst.cfg")
        print("replay:", meta["shape"], meta["creator"], "->", v[0] or "accepted")
        bad += bool(v[0])
    if bad:
        print("VIOLATION property=%s replay=%s" % (ctx.prop, path))
    return 1 if bad else 0
