"""C06 - wire messages decode to exactly what was encoded; nothing else decodes.

MC    : Wire.tla (structural view of byte strings; WellFormed, ConsumedOK; the sender's size check vs the receiver's).
Gen   : Gen_Wire.tla enumerates message shapes, header field boundary values and mutations of encoded bytes.
Drive : the real SendingMessage builds messages; the real recv_stub reads them through a real SocketConnection over a fake
        socket that fragments the stream as scripted and counts the bytes it hands out; mutated byte strings likewise.
Trace : Trace_Wire.tla decides accept/reject, consumed bytes, field fidelity and re-encodability per case (monitor).
"""
import json
import random
import socket
import struct
import uuid
import zlib

from .. import tlc, util

MC_CFG = """SPECIFICATION Spec
CONSTANTS PSizes = {0, 1, 99, 100, 101, 102, 400}
  AnnShapes <- MCAnnShapes
  Limits = {0, 11, 12, 100, 101, 112, 113, 500, 100000}
INVARIANT EncodeWellFormed
INVARIANT LimitSymmetric
CHECK_DEADLOCK FALSE
"""
HUGE = 1 << 30


class FragSock:
    """hands out the byte string in scripted fragments; EOF afterwards"""
    family = socket.AF_INET

    def __init__(self, data, frags):
        self.data = data
        self.pos = 0
        self.frags = list(frags)
        self.handed = 0

    def gettimeout(self):
        return None

    def recv(self, n, flags=0):
        if self.pos >= len(self.data):
            return b""
        k = n
        if self.frags:
            k = min(n, max(1, self.frags.pop(0)))
        out = self.data[self.pos:self.pos + k]
        self.pos += len(out)
        self.handed += len(out)
        return out

    def close(self):
        pass

    def shutdown(self, how):
        pass


def payload_of(cls, rng):
    if cls == "empty":
        return b""
    if cls == "one":
        return b"x"
    if cls in ("t99", "t100", "t101", "t102"):
        n = int(cls[1:])
        return bytes((i * 7 + 3) % 251 for i in range(n)) if rng.random() < 0.5 else b"ab" * (n // 2) + b"c" * (n % 2)
    if cls == "big_text":
        return b"the quick brown fox " * rng.choice([6, 50, 400])
    if cls == "big_noise":
        return bytes(rng.randrange(256) for _ in range(rng.choice([101, 150, 700])))
    raise util.MachineryError(cls)


def anns_of(shape):
    if shape == "none":
        return {}
    if shape == "one_empty":
        return {"EMPT": b""}
    if shape == "one":
        return {"ABCD": b"xyz"}
    if shape == "two":
        return {"ABCD": b"xyz", "WXYZ": b"0123456789"}
    if shape == "three_mixed":
        return {"AAAA": b"1", "BBBB": b"", "CCCC": b"\x00\xff" * 20}
    if shape == "memoryview":
        import array
        # (views of bytes, and a view whose items are wider than a byte: its length in items is not its length in bytes)
        return {"MEMV": memoryview(b"memoryview-data"), "ZERO": memoryview(b""), "WIDE": memoryview(array.array("I", [1, 2, 3]))}
    if shape == "bytearray":
        return {"BARR": bytearray(b"bytearray-data")}
    raise util.MachineryError(shape)


def structural(data, limit):
    """project a byte string to the structural record of Wire.tla"""
    hdr = data[:40]
    rec = {"tag_ok": hdr[:4] == b"PYRO", "ver_ok": len(hdr) >= 6 and hdr[4:6] == (502).to_bytes(2, "big"),
           "magic_ok": len(hdr) == 40 and hdr[38:40] == b"\x4d\xc5", "decl_d": 0, "decl_a": 0, "avail": max(0, len(data) - 40),
           "chunks": [], "compressed": False, "zlib_ok": True, "limit": limit}
    if len(hdr) < 40:
        rec["magic_ok"] = False
        return rec
    flags = struct.unpack("!H", hdr[8:10])[0]
    d, a = struct.unpack("!II", hdr[12:20])
    rec["decl_d"], rec["decl_a"] = d, a
    rec["compressed"] = bool(flags & 2)
    body = data[40:]
    i = 0
    while i < a:
        cid = body[i:i + 4]
        if len(body) < i + 8:
            # the chunk header itself is cut off: the walk cannot continue; record what a strict reader would conclude
            rec["chunks"].append({"len": max(0, a - i), "ascii": False})
            break
        ln = struct.unpack("!I", body[i + 4:i + 8])[0]
        rec["chunks"].append({"len": ln, "ascii": all(c < 128 for c in cid)})
        i += 8 + ln
    if rec["compressed"]:
        try:
            zlib.decompress(body[a:a + d])
        except Exception:
            rec["zlib_ok"] = False
    # keep numbers inside TLC's 32-bit integers
    for k in ("decl_d", "decl_a", "avail", "limit"):
        rec[k] = min(rec[k], 2000000000)
    for c in rec["chunks"]:
        c["len"] = min(c["len"], 2000000000)
    return rec


def decode(protocol, socketutil, config, data, frags, limit):
    """run the real recv_stub over a fragmenting socket; returns (msg or None, consumed, error class)"""
    config.MAX_MESSAGE_SIZE = limit
    sock = FragSock(data, frags)
    conn = socketutil.SocketConnection(sock)
    conn.keep_open = True
    try:
        msg = protocol.recv_stub(conn, None)
        return msg, sock.handed, ""
    except Exception as x:
        return None, sock.handed, type(x).__name__
    finally:
        config.MAX_MESSAGE_SIZE = HUGE


def msg_fields(msg):
    def b(x):
        # a decoder that leaves a field unset (None) has not decoded the message into "exactly those fields": make it differ
        return bytes(x) if x is not None else b"\x00<field left unset by the decoder>"
    return {"type": msg.type, "flags": msg.flags & ~(2 | 64), "seq": msg.seq, "ser": msg.serializer_id, "data": b(msg.data),
            "ann": {k: b(v) for k, v in (msg.annotations or {}).items()}, "corr": b(msg.corr_id), "hascorr": bool(msg.flags & 64)}


def reencode_same(protocol, socketutil, config, msg):
    """Decode(Encode(Decode(b))) = Decode(b)"""
    from Pyro5.callcontext import current_context
    f = msg_fields(msg)
    saved, savedc = current_context.correlation_id, config.COMPRESSION
    try:
        current_context.correlation_id = uuid.UUID(bytes=f["corr"]) if f["hascorr"] else None
        config.COMPRESSION = False
        out = protocol.SendingMessage(f["type"], f["flags"], f["seq"], f["ser"], f["data"], annotations=f["ann"])
        m2, _, err = decode(protocol, socketutil, config, bytes(out.data), [], HUGE)
        if m2 is None:
            return False
        g = msg_fields(m2)
        if not f["hascorr"]:
            f["corr"] = g["corr"]
        return f == g
    except Exception:
        return False
    finally:
        current_context.correlation_id, config.COMPRESSION = saved, savedc


def fragmentation(total, style, rng):
    if style == 0:
        return []
    if style == 1:
        return [1] * (total + 5)
    if style == 2:
        return [6, 34, 7, 1, 3] + [rng.choice([1, 2, 5, 60000]) for _ in range(50)]
    return [rng.choice([1, 2, 3, 5, 8, 13, 39, 40, 41]) for _ in range(200)]


def payload_as(payload, k):
    """the same bytes handed over as bytes, as a bytearray, as a memoryview of bytes, or - where the length allows - as a
    memoryview of items that are wider than a byte"""
    import array
    form = k % 4
    if form == 1:
        return bytearray(payload)
    if form == 2:
        return memoryview(bytes(payload))
    if form == 3 and len(payload) % 4 == 0 and payload:
        return memoryview(array.array("I", bytes(payload)))
    return bytes(payload)


def build(protocol, config, mtype, flags, seq, ser, payload, anns, corr, comp, limit):
    from Pyro5.callcontext import current_context
    saved = current_context.correlation_id
    savedc, savedl = config.COMPRESSION, config.MAX_MESSAGE_SIZE
    try:
        current_context.correlation_id = corr
        config.COMPRESSION = comp
        config.MAX_MESSAGE_SIZE = limit
        return protocol.SendingMessage(mtype, flags, seq, ser, payload_as(payload, seq + len(payload)), annotations=anns)
    finally:
        current_context.correlation_id = saved
        config.COMPRESSION, config.MAX_MESSAGE_SIZE = savedc, savedl


def run_case(protocol, socketutil, config, errors, case, idx, rng):
    T, F, S_, R = [1, 2, 3, 4, 5, 6, 0, 255], [0, 1, 4, 24, 32, 65408, 2, 64, 65535], [0, 1, 255, 256, 65535], [0, 1, 4, 42, 255]
    fam = case["fam"]
    # both ways of reading are used in turn: asking for everything at once (MSG_WAITALL; the socket may still hand out less, as
    # one with a timeout does) and the plain loop
    socketutil.USE_MSG_WAITALL = bool((idx // 2) % 2)
    out = {"case": case, "encoded": False, "fields_ok": True, "reenc_ok": True, "sender": "n/a"}
    if fam in ("msg", "hdr"):
        if fam == "msg":
            payload, anns = payload_of(case["p"], rng), anns_of(case["a"])
            corr = uuid.UUID(int=idx + 1) if case["corr"] else None
            comp = case["comp"]
            mtype, flags, seq, ser = T[idx % 8], F[(idx // 3) % 9], S_[(idx // 5) % 5], R[(idx // 7) % 5]
            lim = case["lim"]
        else:
            payload, anns, corr, comp = b"payload-%d" % idx, anns_of(["none", "one", "two"][idx % 3]), (uuid.UUID(int=7) if idx % 2 else None), False
            mtype, flags, seq, ser, lim = case["t"], case["f"], case["s"], case["ser"], "huge"
        ref = build(protocol, config, mtype, flags, seq, ser, payload, anns, corr, comp, HUGE)
        data = bytes(ref.data)
        total = len(data) - 40
        limit = {"huge": HUGE, "exact": total, "minus1": total - 1}[lim]
        if limit < 0:
            limit = 0
            lim = "zero"
        try:
            build(protocol, config, mtype, flags, seq, ser, payload, anns, corr, comp, limit)
            out["sender"] = "built"
        except errors.ProtocolError:
            out["sender"] = "refused"
        msg, consumed, err = decode(protocol, socketutil, config, data + b"TRAILING-NEXT-MESSAGE", fragmentation(len(data), idx % 4, rng), limit)
        out["rec"] = structural(data + b"TRAILING-NEXT-MESSAGE", limit)
        out["encoded"] = True
        if msg is not None:
            f = msg_fields(msg)
            exp = {"type": mtype, "flags": flags & ~(2 | 64), "seq": seq, "ser": ser, "data": bytes(payload),
                   "ann": {k: (v.tobytes() if isinstance(v, memoryview) else bytes(v)) for k, v in anns.items()}, "corr": corr.bytes if corr else f["corr"],
                   "hascorr": corr is not None or bool(flags & 64)}      # a caller-supplied correlation bit is outside the statement
            out["fields_ok"] = f == exp and (msg.flags & 2) == 0
            if not out["fields_ok"]:
                out["diff"] = [k for k in exp if f.get(k) != exp[k]]
            out["reenc_ok"] = reencode_same(protocol, socketutil, config, msg)
    else:
        base = case["base"]
        payload = {"plain": b"0123456789" * 3, "ann2": b"abc", "ann3_empty": b"", "compressed": b"compress me please " * 20,
                   "corr": b"with correlation", "big": bytes(range(256)) * 3}[base]
        anns = {"plain": {}, "ann2": anns_of("two"), "ann3_empty": anns_of("three_mixed"), "compressed": anns_of("one"),
                "corr": anns_of("one"), "big": anns_of("two")}[base]
        ref = build(protocol, config, 4, 0, 77, 1, payload, anns, uuid.UUID(int=99) if base == "corr" else None, base == "compressed", HUGE)
        data, limit = mutate(bytes(ref.data), case["mu"], case["k"], rng)
        msg, consumed, err = decode(protocol, socketutil, config, data, fragmentation(len(data), idx % 4, rng), limit)
        out["rec"] = structural(data, limit)
        if msg is not None:
            out["reenc_ok"] = reencode_same(protocol, socketutil, config, msg)
    out["accepted"] = msg is not None
    out["consumed"] = consumed
    out["error"] = err
    return out


def mutate(data, mu, k, rng):
    b = bytearray(data)
    limit = HUGE
    a = struct.unpack("!I", data[16:20])[0]
    d = struct.unpack("!I", data[12:16])[0]

    def put(off, fmt, v):
        b[off:off + struct.calcsize(fmt)] = struct.pack(fmt, v)
    if mu == "tag":
        b[k % 4] ^= 0x20
    elif mu == "version":
        put(4, "!H", [501, 503, 0][k % 3])
    elif mu == "magic":
        put(38, "!H", [0, 0x4dc4, 0xffff][k % 3])
    elif mu == "reserved":
        put(36, "!H", k)
    elif mu == "type":
        put(6, "!B", [0, 5, 200][k % 3])
    elif mu == "flag_set_compressed":
        put(8, "!H", struct.unpack("!H", data[8:10])[0] | 2)
    elif mu == "flag_clear_compressed":
        put(8, "!H", struct.unpack("!H", data[8:10])[0] & ~2)
    elif mu == "flag_toggle_corr":
        put(8, "!H", struct.unpack("!H", data[8:10])[0] ^ 64)
    elif mu == "seq":
        put(10, "!H", 65535 - k)
    elif mu == "ser":
        put(7, "!B", 250 + k % 5)
    elif mu == "decl_d_plus":
        put(12, "!I", d + k)
    elif mu == "decl_d_minus":
        put(12, "!I", max(0, d - k))
    elif mu == "decl_a_plus_comp":
        put(16, "!I", a + k)
        put(12, "!I", max(0, d - k))
    elif mu == "decl_a_minus_comp":
        put(16, "!I", max(0, a - k))
        put(12, "!I", d + min(a, k))
    elif mu == "decl_a_zero":
        put(16, "!I", 0)
        put(12, "!I", d + a)
    elif mu == "decl_a_plus":
        put(16, "!I", a + k)
    elif mu in ("chunk_len_plus", "chunk_len_minus", "chunk_len_huge", "chunk_len_into_payload", "chunk_id_nonascii", "chunk_id_dup"):
        if a >= 8:
            ln = struct.unpack("!I", data[44:48])[0]
            if mu == "chunk_len_plus":
                put(44, "!I", ln + k)
            elif mu == "chunk_len_minus":
                put(44, "!I", max(0, ln - k))
            elif mu == "chunk_len_huge":
                put(44, "!I", 0xfffffff0)
            elif mu == "chunk_len_into_payload":
                put(44, "!I", a - 8 + k)           # the (first) chunk runs past the annotation area into the payload
            elif mu == "chunk_id_nonascii":
                b[40 + k % 4] = 0xe9
            elif mu == "chunk_id_dup" and a >= 8 + ln + 8:
                b[40 + 8 + ln:40 + 8 + ln + 4] = data[40:44]
    elif mu == "truncate_header":
        del b[[5, 6, 39][k % 3]:]
    elif mu == "truncate_ann":
        del b[40 + max(0, min(a, k) - 1):]
    elif mu == "truncate_payload":
        del b[len(b) - min(k, max(1, d)):]
    elif mu == "trailing_bytes":
        b += b"PYRO" + bytes(k)
    elif mu == "over_limit":
        limit = max(0, a + d - k)
    elif mu == "empty":
        del b[:]
    elif mu == "short6":
        del b[k % 6:]
    elif mu == "random":
        b = bytearray(rng.randrange(256) for _ in range(40 + k * 10))
    return bytes(b), limit


def run(ctx):
    from Pyro5 import protocol, socketutil, config, errors
    socketutil.USE_MSG_WAITALL = False
    config.MAX_MESSAGE_SIZE = HUGE
    ctx.rule = ("cases = every message shape (payload class x annotation shape x correlation id x compression x MAX_MESSAGE_SIZE class), every "
                "combination of boundary values of type/flags/sequence/serializer, and every mutation class x base message x parameter, all "
                "enumerated by TLC from Gen_Wire; each read back through a fragmenting socket (4 fragmentation styles); distinct_nontrivial "
                "= distinct cases other than the plain uncompressed, unannotated message")
    ctx.assumptions = ["payload contents and field values are seeded witnesses of their class (boundary values enumerated, bulk content random)",
                       "the structural projection of a byte string (header fields, chunk walk, zlib validity) is computed by the harness"]
    tlc.mc(ctx, "MC_Wire", cfg_text=MC_CFG)
    cases = tlc.gen(ctx, "Gen_Wire", cfg="Gen_Wire.cfg")
    if len(cases) != 3012:
        raise util.MachineryError("expected 3012 wire cases, got %d" % len(cases))
    rng = random.Random(ctx.seed + 6)
    reps = ctx.pick(1, 4)
    traces = []
    for rep in range(reps):
        for idx, case in enumerate(cases):
            traces.append(run_case(protocol, socketutil, config, errors, case, idx + rep * 7919, rng))
    for tr in traces:
        c = tr["case"]
        ctx.count(json.dumps(c, sort_keys=True) + str(tr.get("error")) if not (c["fam"] == "msg" and c["p"] == "one" and c["a"] == "none") else None)
    for i in (0, 700, 2300, len(traces) - 1):
        t = dict(traces[i])
        ctx.sample(t)
    verdicts, _ = tlc.validate(ctx, "Trace_Wire", [{k: v for k, v in t.items() if k not in ("diff",)} for t in traces], cfg="Trace_Wire.cfg", batch=4000)
    acc = sum(1 for t in traces if t["accepted"])
    for tr, v in zip(traces, verdicts):
        if v:
            c = tr["case"]
            cls = {"msg": "msg p=%s a=%s comp=%s lim=%s" % (c.get("p"), c.get("a"), c.get("comp"), c.get("lim")),
                   "hdr": "hdr", "mut": "mut %s" % c.get("mu")}[c["fam"]]
            ctx.violation("%s [%s]" % (v, cls), tr)
    if not ctx.violations and not (len(traces) * 0.3 < acc < len(traces) * 0.98):
        raise util.MachineryError("vacuity: %d of %d cases accepted" % (acc, len(traces)))
    ctx.exhaustive = True
    ctx.extra["accepted"] = acc


def replay(ctx, path):
    from Pyro5 import protocol, socketutil, config, errors
    socketutil.USE_MSG_WAITALL = False
    rep = json.load(open(path))
    rng = random.Random(ctx.seed + 6)
    bad = 0
    for case in rep["cases"]:
        tr = run_case(protocol, socketutil, config, errors, case["case"], 0, rng)
        v, _ = tlc.validate(ctx, "Trace_Wire", [{k: x for k, x in tr.items() if k != "diff"}], cfg="Trace_Wire.cfg")
        print("replay:", case["case"], "->", v[0] or "accepted", tr.get("error"), tr.get("diff"))
        bad += bool(v[0])
    if bad:
        print("VIOLATION property=%s replay=%s" % (ctx.prop, path))
    return 1 if bad else 0
