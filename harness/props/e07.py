"""E07 (extra, beyond the listed properties) - serialized blobs: arguments that pass through gateways without being unpacked.

MC    : Blob.tla (Transparent) over writer x argument list x info x hops of up to three proxies with their own serializer / compression.
Gen   : Gen_Blob.tla emits the cases (with and without the nodes in between unpacking the arguments themselves).
Drive : a client proxy and a chain of real dispatcher objects in a real daemon (in-memory transport); every node records the info it
        sees and, if it looks, the arguments it unpacks; it passes the blob on through a proxy with the hop's serializer and compression.
Trace : Trace_Blob.tla (monitor): what every node saw depends on the writer only.
"""
import json
import random

from .. import memnet, tlc, util
from .. import sched as S

PLAIN = [1, "two", [3, 4], {"k": 5}, None, 2.5, "", [], 10 ** 12]
INFOS = {"text": "blob-info", "number": 42, "pair": ("a", 1)}


def run_cases(cases, servertype):
    import Pyro5.api as P
    from Pyro5 import client, config
    config.SERVERTYPE = servertype
    config.COMMTIMEOUT = 0.0
    config.THREADPOOL_SIZE = 16
    traces = []

    def main():
        sc = S.CUR
        d = P.Daemon(host="127.0.0.1")
        state = {}

        def classify(values, case):
            out = []
            if not isinstance(values, (list, tuple)) or len(values) != len(case["concrete"]):
                return ["other"] * len(case["concrete"])
            for kind, orig, v in zip(case["args"], case["concrete"], values):
                if kind == "tuple":
                    out.append("tuple" if isinstance(v, tuple) and list(v) == list(orig) else ("list" if isinstance(v, list) and v == list(orig) else "other"))
                else:
                    out.append("plain" if v == orig and type(v) is type(orig) else "other")
            return out

        @P.expose
        class Node(object):
            def __init__(self, k):
                self.k = k

            def request_annotations(self):
                # an ordinary call: which annotations came with it
                from Pyro5 import api
                return sorted(api.current_context.annotations)

            def handle(self, blob):
                case = state["case"]
                hops = case["hops"]
                rec = {"k": self.k, "info_ok": False, "looked": False, "failed": False, "args": [], "why": ""}
                state["nodes"].append(rec)
                if not isinstance(blob, client.SerializedBlob):
                    rec["why"] = "not a blob: " + type(blob).__name__
                    rec["looked"] = rec["failed"] = True
                    return "done"
                got = blob.info
                want = INFOS[case["info"]]
                rec["info_ok"] = got == want or (isinstance(want, tuple) and list(got) == list(want))
                last = self.k == len(hops)
                if last or case["peek"]:
                    rec["looked"] = True
                    try:
                        rec["args"] = classify(blob.deserialized(), case)
                    except (S.Hang, S.SchedAbort):
                        raise
                    except Exception as x:
                        rec["failed"] = True
                        rec["why"] = "%s: %s" % (type(x).__name__, str(x)[:60])
                if not last:
                    nxt = hops[self.k]          # hop k+1 (0-based index k)
                    with P.Proxy(state["uris"][self.k + 1]) as p:
                        p._pyroSerializer = nxt["ser"]
                        config.COMPRESSION = bool(nxt["comp"])
                        try:
                            return p.handle(blob)
                        finally:
                            config.COMPRESSION = False
                return "done"
        state["uris"] = {k: d.register(Node(k), "node%d" % k) for k in (1, 2, 3)}
        drv = memnet.ServerDriver(d)
        for ci, case in enumerate(cases):
            sc.set_budget(200000)
            concrete, n = [], ci
            for kind in case["args"]:
                n += 1
                concrete.append((1, "x") if kind == "tuple" else PLAIN[n % len(PLAIN)])
            case = dict(case, concrete=concrete)
            state["case"] = case
            state["nodes"] = []
            outcome = "ok"
            later = []
            try:
                with P.Proxy(state["uris"][1]) as p:
                    p._pyroSerializer = case["hops"][0]["ser"]
                    config.COMPRESSION = bool(case["hops"][0]["comp"])
                    try:
                        r = p.handle(client.SerializedBlob(INFOS[case["info"]], list(concrete)))
                    finally:
                        config.COMPRESSION = False
                    if r != "done":
                        outcome = "other"
                    # an ordinary call afterwards, from the same thread: the blob's info belongs to the blob call only
                    later = p.request_annotations()
            except (S.Hang, S.SchedAbort):
                raise
            except Exception as x:
                outcome = "error:%s: %s" % (type(x).__name__, str(x)[:80])
            sc.quiesce()
            traces.append({"later_clean": outcome.split(":")[0] != "ok" or "BLBI" not in later,
                           "writer": case["writer"], "args": case["args"], "info": case["info"], "hops": case["hops"], "peek": case["peek"],
                           "outcome": outcome.split(":")[0], "detail": outcome, "nodes": list(state["nodes"]), "server": servertype,
                           "concrete": repr(concrete)})
        drv.shutdown()
        d.close()
    memnet.run(main, max_steps=400000000)
    if len(traces) < len(cases):
        raise util.MachineryError("session ended early (%d of %d)" % (len(traces), len(cases)))
    return traces


def run(ctx):
    memnet.install()
    ctx.rule = ("cases = (serializer that writes the blob) x (argument list of plain values and tuples) x (info value) x (one to three hops, each "
                "proxy with its own serializer and compression setting) x (nodes in between unpack or not); distinct_nontrivial = distinct cases "
                "in which a later hop uses another serializer than the writer")
    ctx.assumptions = ["compression is a process-wide setting: each node switches it just before it sends",
                       "plain values are chosen so that every serializer returns them unchanged (C01 covers the mapping itself)"]
    tlc.mc(ctx, "Blob", cfg="MC_Blob.cfg")
    cases = tlc.gen(ctx, "Gen_Blob", cfg="Gen_Blob.cfg")
    if len(cases) < 10000:
        raise util.MachineryError("case generation incomplete (%d)" % len(cases))
    rng = random.Random(ctx.seed + 707)
    rng.shuffle(cases)
    short = [c for c in cases if len(c["hops"]) <= 2]
    cases = short[:ctx.pick(500, 100000)] + [c for c in cases if len(c["hops"]) == 3][:ctx.pick(700, 100000)]
    total = 0
    for servertype in ("thread", "multiplex") if not ctx.quick else ("thread",):
        # (a dispatcher that calls the next node while it is being served needs a server that serves several connections at once;
        # on the multiplex server only single hops are possible)
        cs = cases if servertype == "thread" else [c for c in cases if len(c["hops"]) == 1]
        traces = run_cases(cs, servertype)
        total += len(cs)
        for c in cs:
            ctx.count(json.dumps(c, sort_keys=True) if any(h["ser"] != c["writer"] for h in c["hops"]) else None)
        ctx.sample({"case": traces[-1]})
        verdicts, _ = tlc.validate(ctx, "Trace_Blob", traces, cfg="Trace_Blob.cfg", batch=4000)
        for tr, v in zip(traces, verdicts):
            if v:
                sers = "/".join(h["ser"] for h in tr["hops"])
                ctx.violation("%s [writer=%s hops=%s peek=%s server=%s]" % (v, tr["writer"], sers, tr["peek"], servertype), tr)
    ctx.evaluations = total


def replay(ctx, path):
    print("E07 replay: rerun the check with the same VERIF_SEED")
    return 0
