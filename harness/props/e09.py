"""E09 (extra, beyond the listed properties) - where a daemon says it is: inside and outside (NAT) locations in the uris it hands out.

MC    : Location.tla (NetworkHostsCanBeTranslated).
Gen   : Gen_Location.tla: listening address kind x outside address x how the outside host is written (a name, an IPv6 address) x which uri is asked for (30 cases).
Drive : real daemons on the loopback interfaces (127.0.0.1, ::1) and on a Unix socket in the scratch directory, both server types;
        the uris from uriFor() and register() are parsed back; the object is called through the inside uri.
Trace : Trace_Location.tla (monitor).
"""
import os
import threading
import time

from .. import tlc, util

NATHOSTS = {"name": "nat.example.org", "ipv6": "2001:db8::7"}


def one_case(c, servertype, scratch, n):
    import Pyro5.api as P
    from Pyro5 import config, core
    config.SERVERTYPE = servertype
    config.POLLTIMEOUT = 0.2
    config.COMMTIMEOUT = 0.0
    rec = dict(c, server=servertype, names="", parses_back=False, register_agrees=False, reachable=False, detail="")
    kw = {}
    NATHOST = NATHOSTS[c["nh"]]
    if c["n"] != "none":
        kw = {"nathost": NATHOST, "natport": 5555 if c["n"] == "fixed" else 0}
    path = os.path.join(scratch, "e09_%d.sock" % n)
    try:
        if c["h"] == "unix":
            d = P.Daemon(unixsocket=path, **kw)
        else:
            d = P.Daemon(host="127.0.0.1" if c["h"] == "ipv4" else "::1", port=0, **kw)
    except ValueError as x:
        rec["names"], rec["detail"] = "ValueError", str(x)[:80]
        return rec
    except Exception as x:
        rec["names"], rec["detail"] = "other_exception", "%s: %s" % (type(x).__name__, str(x)[:80])
        return rec
    try:
        @P.expose
        class T(object):
            def who(self):
                return "x"
        try:
            reg = d.register(T(), "obj")
            uri = d.uriFor("obj", nat=c["asknat"])
        except Exception as x:
            # a daemon that cannot say where it is
            rec["names"], rec["detail"] = "other_exception", "%s: %s" % (type(x).__name__, str(x)[:80])
            return rec
        rec["register_agrees"] = str(reg) == str(d.uriFor("obj"))
        sn = d.sock.getsockname()
        if uri.sockname:
            rec["names"] = "inside" if uri.sockname == path else "other"
        else:
            port = sn[1]
            host = sn[0]
            if uri.host == host and uri.port == port:
                rec["names"] = "inside"
            elif uri.host == NATHOST and uri.port == 5555:
                rec["names"] = "outside_fixed"
            elif uri.host == NATHOST and uri.port == port:
                rec["names"] = "outside_actualport"
            else:
                rec["names"] = "other"
        rec["detail"] = str(uri)
        back = core.URI(str(uri))
        rec["parses_back"] = back == uri and (back.host, back.port, back.sockname, back.object) == (uri.host, uri.port, uri.sockname, uri.object)
        th = threading.Thread(target=d.requestLoop, daemon=True)
        th.start()
        try:
            with P.Proxy(d.uriFor("obj", nat=False)) as p:
                p._pyroTimeout = 5.0
                rec["reachable"] = p.who() == "x"
        except Exception as x:
            rec["detail"] += " | unreachable: %s: %s" % (type(x).__name__, str(x)[:60])
        d.shutdown()
        th.join(5.0)
    finally:
        try:
            d.close()
        except Exception:
            pass
        if os.path.exists(path):
            os.remove(path)
    return rec


def run(ctx):
    ctx.rule = ("cases = listening address (IPv4, IPv6, Unix socket) x outside address (none, host with a fixed port, host with port 0 = the "
                "real port) x which uri is asked for (outside / inside) x server type; distinct_nontrivial = cases with an outside address")
    ctx.assumptions = ["real sockets on the loopback interfaces and a Unix socket in the scratch directory (no scheduler: the calls are sequential)",
                       "the outside host name is only ever parsed, never resolved"]
    tlc.mc(ctx, "Location", cfg="MC_Location.cfg")
    cases = tlc.gen(ctx, "Gen_Location", cfg="Gen_Location.cfg")
    if len(cases) != 30:
        raise util.MachineryError("expected 30 cases, got %d" % len(cases))
    import socket
    have6 = True
    try:
        s = socket.socket(socket.AF_INET6, socket.SOCK_STREAM)
        s.bind(("::1", 0))
        s.close()
    except OSError:
        have6 = False
    ctx.extra["ipv6_loopback"] = have6
    traces = []
    n = 0
    for servertype in ("thread", "multiplex"):
        for c in sorted(cases, key=lambda c: (c["h"], c["n"], c["nh"], c["asknat"])):
            if c["h"] == "ipv6" and not have6:
                continue
            n += 1
            traces.append(one_case(c, servertype, ctx.scratch, n))
            ctx.count("%s/%s/%s/%s" % (servertype, c["h"], c["n"], c["asknat"]) if c["n"] != "none" else None)
    ctx.evaluations = len(traces)
    ctx.sample({"case": traces[0]})
    ctx.sample({"case": traces[-1]})
    verdicts, _ = tlc.validate(ctx, "Trace_Location", traces, cfg="Trace_Location.cfg")
    for tr, v in zip(traces, verdicts):
        if v:
            ctx.violation("%s [host=%s nat=%s asknat=%s server=%s]" % (v, tr["h"], tr["n"], tr["asknat"], tr["server"]), tr)


def replay(ctx, path):
    print("E09 replay: rerun the check (all cases are enumerated)")
    return 0
