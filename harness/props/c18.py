"""C18 - thread pool: each connection served once or refused; workers stay bounded; close is clean.

MC    : Pool.tla (atomic design, safety + liveness) and PoolImpl.tla (PlusCal, statement level, with the lock).
Gen   : Gen_Pool.tla enumerates environment scripts (submit / release / close orders).
Drive : the real Pool + Worker threads under the line-level scheduler (yield point before every line of Pool/Worker
        methods), preemption-bounded DFS then random schedules per script; call/return events recorded by wrappers.
        Plus the real thread-pool *server* over the in-memory transport for the refusal path (connect-failure text).
Trace : Trace_Pool.tla (search mode: TLC places the atomic effects) decides every distinct recorded history.
"""
import collections
import json
import re
import random

from .. import memnet, tlc, util
from .. import sched as S

MC_POOL = """SPECIFICATION Spec
CONSTANTS Size = %d
  Min = %d
  Jobs = {%s}
  Workers = {%s}
INVARIANT WorkerBound
INVARIANT OneWorkerEach
INVARIANT RefusedNeverRuns
PROPERTY NoSubmitAfterClose
PROPERTY Served
PROPERTY WorkersLeave
CHECK_DEADLOCK FALSE
"""
MC_IMPL = """SPECIFICATION Spec
CONSTANTS Size = %d
 Min = %d
 NJobs = %d
 UseLock = TRUE
 MaxW = %d
 DoClose = %s
INVARIANT WorkerBound
INVARIANT AtMostOnce
INVARIANT RefusedNeverRuns
INVARIANT RefusedOnlyWhenFull
PROPERTY AcceptedRun
PROPERTY AllExit
CHECK_DEADLOCK FALSE
"""
GEN = """INIT Init
NEXT Next
CONSTANTS MaxJobs = %d
  MaxLen = %d
CONSTRAINT Emit
CHECK_DEADLOCK FALSE
"""
TRACE_CFG = """SPECIFICATION Spec
CONSTRAINT Constr
POSTCONDITION Post
CHECK_DEADLOCK FALSE
"""

LOG = []
_wrapped = False


def widx():
    sc = S.CUR
    n = sc.names.get(sc.me(), "")
    return int(n[1:]) if n.startswith("w") and n[1:].isdigit() else 0


def setup():
    global _wrapped
    memnet.install()
    from Pyro5 import svr_threads as T
    if _wrapped:
        return T
    _wrapped = True
    _process, _notify, _close, _run = T.Pool.process, T.Pool.notify_done, T.Pool.close, T.Worker.run

    def process(self, job):
        j = getattr(job, "j", None)
        if j is None:
            return _process(self, job)
        LOG.append({"e": "SubmitCall", "j": j})
        try:
            _process(self, job)
        except T.NoFreeWorkersError:
            LOG.append({"e": "SubmitRet", "j": j, "r": "refused"})
            raise
        except T.PoolError:
            LOG.append({"e": "SubmitRet", "j": j, "r": "closed"})
            raise
        except (S.SchedAbort, S.Hang):
            raise
        except BaseException:
            LOG.append({"e": "SubmitRet", "j": j, "r": "error"})
            raise
        LOG.append({"e": "SubmitRet", "j": j, "r": "ok"})

    def notify_done(self, worker):
        if not getattr(self, "_verif_log", False):
            return _notify(self, worker)
        w = widx()
        LOG.append({"e": "DoneCall", "w": w})
        ok = False
        try:
            _notify(self, worker)
            ok = True
        finally:
            if ok:
                LOG.append({"e": "DoneRet", "w": w})

    def close(self):
        if not getattr(self, "_verif_log", False):
            return _close(self)
        LOG.append({"e": "CloseCall"})
        _close(self)
        LOG.append({"e": "CloseRet"})

    def run(self):
        pool = self.pool
        _run(self)
        if getattr(pool, "_verif_log", False):
            LOG.append({"e": "WorkerExit", "w": widx()})
    T.Pool.process, T.Pool.notify_done, T.Pool.close, T.Worker.run = process, notify_done, close, run
    # two points inside the critical sections are made visible: the hand-over of a job to its worker, and the moment the pool
    # becomes closed (both happen under the pool's lock in Pool.process / Pool.close)
    _wprocess = T.Worker.process

    def wprocess(self, job):
        j = getattr(job, "j", None)
        if j is not None:        # (jobs with a number exist in this harness only)
            LOG.append({"e": "Hand", "j": j})
        return _wprocess(self, job)
    T.Worker.process = wprocess

    def get_closed(self):
        return self.__dict__.get("_verif_closed", False)

    def set_closed(self, v):
        self.__dict__["_verif_closed"] = v
        if v and getattr(self, "_verif_log", False):
            LOG.append({"e": "ClosedSet"})
    T.Pool.closed = property(get_closed, set_closed)
    return T


class Job:
    def __init__(self, j, gates, raises=False):
        self.j = j
        self.gates = gates
        self.raises = raises

    def __call__(self):
        sc = S.CUR
        LOG.append({"e": "JobStart", "j": self.j, "w": widx()})
        sc.yield_point(lambda: self.gates.get(self.j, False))
        LOG.append({"e": "JobEnd", "j": self.j, "w": widx()})
        if self.raises:
            if self.j % 4 == 3:
                raise SystemExit("job %d leaves by way of sys.exit()" % self.j)   # (what a remote method may do: that ends the job)
            raise RuntimeError("job %d ends with an exception" % self.j)      # a job may fail; its worker is still the pool's


class DelayThread:
    """delay-bounded schedule: the named thread runs first whenever it can, for k of its steps; from then on it is held back for as
    long as anything else can run (timers included), and continues only when it is the only one left.  One long delay at one point
    of one thread reaches interleavings that need several preemptions of the ordinary kind."""
    wants_timers = True

    def __init__(self, name, k):
        self.name, self.k, self.n = name, k, 0
        self.names = []

    def __call__(self, names, sched):
        timers = getattr(sched, "timer_names", set())
        if self.name in names and self.name not in timers and self.n < self.k:
            self.n += 1
            pick = self.name
        else:
            rest = [n for n in names if n != self.name]
            soft = sched.soft
            plain = [n for n in rest if n not in soft and n not in timers]
            pick = (plain or [n for n in rest if n not in timers] or rest or names)[0]
        self.names.append(pick)
        return pick


def run_once(T, config, chooser, script, size, mn, eager=False, raising=False):
    """eager: the submitting thread does not pause after a submission that is followed by another submission or by the close;
    raising: every second job ends with an exception"""
    config.THREADPOOL_SIZE = size
    config.THREADPOOL_SIZE_MIN = mn
    del LOG[:]
    LOG.append({"e": "Init", "size": size, "min": mn})
    gates = {}
    mx = [0]
    pool_ref = [None]
    closer_done = [True]

    def ch(names, sc):
        p = pool_ref[0]
        if p is not None:
            mx[0] = max(mx[0], p.num_workers())
        return chooser(names, sc)
    ch.wants_timers = getattr(chooser, "wants_timers", False)

    def main():
        sc = S.CUR
        try:
            pool = T.Pool()
        except ValueError:
            LOG.append({"e": "ConfigRefused"})       # minimum above maximum: refusing to start is the one correct reaction
            return
        pool._verif_log = True
        pool_ref[0] = pool
        j = rel = 0
        closed = False
        for ai, a in enumerate(script):
            if a == "submit":
                j += 1
                try:
                    pool.process(Job(j, gates, raises=raising and j % 2 == 1))
                except (T.NoFreeWorkersError, T.PoolError):
                    pass
                if eager and ai + 1 < len(script) and script[ai + 1] in ("submit", "close"):
                    continue
            elif a == "release":
                rel += 1
                gates[rel] = True
            elif a == "close" and not closed:
                closed = True
                closer_done[0] = False

                def closer():
                    try:
                        pool.close()
                    finally:
                        closer_done[0] = True
                sc.spawn("closer", closer)
                if eager and ai + 1 < len(script) and script[ai + 1] == "submit":
                    continue        # the close and the next submission start together
            sc.soft_yield()
        for k in range(1, j + 1):
            gates[k] = True
        sc.quiesce()
        sc.yield_point(lambda: closer_done[0])
        if not closed:
            LOG.append({"e": "Quiet"})      # everything released, nothing running, pool still open: no accepted job may be left waiting
            pool.close()
        sc.quiesce()
        p = pool_ref[0]
        mx[0] = max(mx[0], p.num_workers())

    import os
    tfile = os.path.abspath(T.__file__)
    names = {"process", "notify_done", "run", "close"}
    res, sc = memnet.run(main, chooser=ch, trace_filter=lambda code: os.path.abspath(code.co_filename) == tfile and code.co_name in names,
                         max_steps=20000)
    how = "ok"
    if res.get("hang"):
        how = "hang"
    elif sc.errors:
        how = "error:" + type(sc.errors[0][1]).__name__
    LOG.append({"e": "End", "maxw": mx[0], "how": how})
    return list(LOG)


def diagnose(tr, size):
    """coarse signature of a rejected history (the verdict itself is TLC's)"""
    end = tr[-1]
    if end["how"] != "ok":
        return "C18.Close/Progress(%s)" % end["how"]
    if end["maxw"] > size:
        return "C18.WorkerBound"
    evs = [e["e"] for e in tr]
    if "ClosedSet" in evs and "Hand" in evs[evs.index("ClosedSet"):]:
        return "C18.JobHandedOverAfterPoolClosed"
    if "CloseRet" in evs and "JobStart" in evs[evs.index("CloseRet"):]:
        return "C18.JobStartedAfterCloseReturned"
    starts = collections.Counter(e["j"] for e in tr if e["e"] == "JobStart")
    if any(v > 1 for v in starts.values()):
        return "C18.RunTwice"
    okj = {e["j"] for e in tr if e["e"] == "SubmitRet" and e["r"] == "ok"}
    ended = {e["j"] for e in tr if e["e"] == "JobEnd"}
    closed = any(e["e"] == "CloseCall" for e in tr[:-3])
    if (okj - ended) and not closed:
        return "C18.AcceptedNotServed"
    refused = {e["j"] for e in tr if e["e"] == "SubmitRet" and e["r"] == "refused"}
    if refused & set(starts):
        return "C18.RefusedButRan"
    started = {e["w"] for e in tr if e["e"] in ("JobStart", "DoneCall")} | set(range(1, tr[0]["min"] + 1))
    exited = {e["w"] for e in tr if e["e"] == "WorkerExit"}
    if started - exited:
        return "C18.WorkerNeverExits"
    if refused:
        return "C18.RefusedWhileNotFull/Order"
    return "C18.NoLinearization"


def server_refusal(ctx, config):
    """the real thread-pool server over the in-memory transport: more clients than workers"""
    import Pyro5.api as P
    from Pyro5 import errors
    out = []
    # (the last two daemons listen on a Unix domain socket: their peers have no host and port)
    for size, commtimeout, unix in ((1, 0.0, False), (2, 0.0, False), (1, 2.0, False), (2, 2.0, False), (1, 0.0, True), (2, 2.0, True)):
        config.SERVERTYPE = "thread"
        config.THREADPOOL_SIZE = size
        config.THREADPOOL_SIZE_MIN = 1
        config.COMMTIMEOUT = commtimeout
        rec = {"size": size, "commtimeout": commtimeout, "unix": unix, "served": 0, "refused": 0, "reason_ok": True, "other": [], "after": None, "crashed": False}

        @P.expose
        class Echo:
            def echo(self, x):
                return x

        def main():
            sc = S.CUR
            d = P.Daemon(unixsocket="verif-c18-refusal-%d.sock" % size) if unix else P.Daemon(host="127.0.0.1")
            uri = d.register(Echo(), "echo")
            drv = memnet.ServerDriver(d)
            proxies = []
            for i in range(size + 2):
                p = P.Proxy(uri)
                proxies.append(p)
                try:
                    if p.echo(i) == i:
                        rec["served"] += 1
                    else:
                        rec["other"].append("wrong answer")
                except errors.CommunicationError as x:
                    rec["refused"] += 1
                    if not re.search(r"worker|thread|pool|busy|capacity|full", str(x), re.I):      # the failure must say why
                        rec["reason_ok"] = False
                        rec["other"].append(str(x)[:80])
                except BaseException as x:     # noqa
                    if isinstance(x, (S.Hang, S.SchedAbort)):
                        raise
                    rec["other"].append(type(x).__name__)
            # more peers that find every worker busy: proxies of every serializer; a peer whose connect message names a
            # serializer nobody knows; and (with a communication timeout configured) a peer that connects and says nothing,
            # followed by one more client - each of them must be told, none may hold up the next
            from Pyro5 import protocol
            from .. import daemonlab as L
            where = "verif-c18-refusal-%d.sock" % size if unix else ("127.0.0.1", int(d.locationStr.split(":")[1]))
            for ser in ("serpent", "json", "marshal", "msgpack"):
                px = P.Proxy(uri)
                px._pyroSerializer = ser
                try:
                    px._pyroBind()
                    rec["other"].append("a proxy got in although every worker was busy")
                except errors.CommunicationError as x:
                    if not re.search(r"worker|thread|pool|busy|capacity|full", str(x), re.I):
                        rec["reason_ok"] = False
                        rec["other"].append("%s: %s" % (ser, str(x)[:80]))
                except BaseException as x:     # noqa
                    if isinstance(x, (S.Hang, S.SchedAbort)):
                        raise
                    rec["other"].append("%s: %s" % (ser, type(x).__name__))
            raw = memnet.NET.create_socket(connect=where)
            raw.sendall(L.patch(L.connect_msg("echo", "hello", "serpent"), 7, "!B", 99))
            sc.quiesce()
            got = bytes(raw.inbuf)
            if len(got) < 7 or got[6] != protocol.MSG_CONNECTFAIL:
                rec["other"].append("a connect message with an unknown serializer id was not answered with a connect-failure")
            raw.close()
            sc.quiesce()
            if commtimeout:
                silent = memnet.NET.create_socket(connect=where)
                for _ in range(int(commtimeout) + 1):
                    sc.sleep(1.0)
                    for p in proxies[:size]:
                        p.echo("still here")        # (an idle connection would itself be dropped after the timeout)
                late = P.Proxy(uri)
                try:
                    late._pyroBind()
                    rec["other"].append("a proxy got in although every worker was busy")
                except errors.CommunicationError as x:
                    if not re.search(r"worker|thread|pool|busy|capacity|full", str(x), re.I):
                        rec["reason_ok"] = False
                        rec["other"].append("behind a silent peer: " + str(x)[:80])
                silent.close()
                sc.quiesce()
            # earlier clients are still served; after one leaves a new one gets in
            for i, p in enumerate(proxies[:size]):
                if p.echo("again") != "again":
                    rec["other"].append("witness broken")
            proxies[0]._pyroRelease()
            sc.quiesce()
            q = P.Proxy(uri)
            try:
                rec["after"] = q.echo("new")
            except Exception as x:
                rec["after"] = "error:" + type(x).__name__
            rec["crashed"] = drv.crashed is not None
            for p in proxies + [q]:
                p._pyroRelease()
            sc.quiesce()
            rec["busy_end"] = len(d.transportServer.pool.busy)
            drv.shutdown()
            d.close()
        res, sc = memnet.run(main)
        config.COMMTIMEOUT = 0.0
        if res.get("hang"):
            rec["other"].append("hang")
        out.append(rec)
    return out


def run(ctx):
    T = setup()
    from Pyro5 import config
    ctx.rule = ("cases = (environment script from Gen_Pool) x (pool size, min) x (thread schedule: default, preemption-bounded DFS "
                "over the yield points = every source line of Pool.process/notify_done/close and Worker.run, then seeded random); "
                "distinct_nontrivial = distinct recorded call/return histories (deduplicated before TLC validates them)")
    ctx.assumptions = ["CPython delivers a 'line' trace event per executed source line; races below line granularity are excluded by the GIL",
                       "sampled Pool.num_workers() after every scheduler step is the worker count of the property"]
    # (1) models
    tlc.mc(ctx, "Pool", cfg_text=MC_POOL % (2, 1, "1, 2, 3", "1, 2, 3, 4"))
    if not ctx.quick:
        tlc.mc(ctx, "Pool", cfg_text=MC_POOL % (3, 2, "1, 2, 3, 4", "1, 2, 3, 4, 5"), timeout=1800)
    tlc.mc(ctx, "PoolImpl", cfg_text=MC_IMPL % (2, 1, 3, 4, "TRUE"), timeout=1800)
    if not ctx.quick:
        tlc.mc(ctx, "PoolImpl", cfg_text=MC_IMPL % (1, 1, 3, 3, "TRUE"), timeout=1800)
        tlc.mc(ctx, "PoolImpl", cfg_text=MC_IMPL % (3, 2, 4, 5, "FALSE"), timeout=3600)
    # (2) environment scripts
    scripts = tlc.gen(ctx, "Gen_Pool", cfg_text=GEN % (ctx.pick(3, 4), ctx.pick(5, 7)))
    scripts = sorted({tuple(s) for s in scripts})
    if len(scripts) < 10:
        raise util.MachineryError("too few pool scripts")
    rng = random.Random(ctx.seed + 18)
    rng.shuffle(scripts)
    # scripts in which a submission can meet a finishing worker or a close are the interesting ones: keep those first
    def interest(s):
        return -(sum(1 for i in range(len(s) - 1) if s[i] == "release" and s[i + 1] == "submit") * 2 + ("close" in s) + s.count("submit")
                 + 2 * any(s[i] == "close" and s[i + 1] == "submit" for i in range(len(s) - 1)))
    scripts.sort(key=interest)
    scripts = scripts[:ctx.pick(14, 200)]
    sizes = [(1, 1), (2, 1), (2, 2)] if ctx.quick else [(1, 1), (2, 1), (2, 2), (3, 1), (3, 2)]
    # (3) drive the real pool under the scheduler
    traces = {}
    runs = 0
    per_script_random = ctx.pick(6, 30)
    dfs_limit = ctx.pick(130, 400)      # bound 1: every single preemption point of the run (quick); bound 2 sampled breadth-first (thorough)
    def keep(tr, meta):
        key = json.dumps(tr, sort_keys=True)
        if key not in traces:
            traces[key] = (tr, meta)
    for script in scripts:
        for (size, mn) in sizes:
            # variants under the default schedule: an eager submitter, jobs that end with an exception
            for eager, raising in ((True, False), (False, True), (True, True)):
                ch = S.PreemptionBounded(())
                tr = run_once(T, config, ch, script, size, mn, eager=eager, raising=raising)
                runs += 1
                keep(tr, {"script": list(script), "size": size, "min": mn, "schedule": list(ch.names), "eager": eager, "raising": raising})
        if "close" in script:
            # the eager submitter racing with the close: every single switch point (including the end of close()'s grace period)
            for (size, mn) in sizes[:2]:
                def once_eager(ch):
                    return run_once(T, config, ch, script, size, mn, eager=True)
                for ch, tr in S.explore(once_eager, max_preemptions=1, limit=ctx.pick(40, 200), rng=rng, random_runs=0):
                    runs += 1
                    keep(tr, {"script": list(script), "size": size, "min": mn, "schedule": list(ch.names), "eager": True, "raising": False})
        # a minimum above the maximum: the pool must refuse to start rather than run more workers than allowed
        ch = S.PreemptionBounded(())
        tr = run_once(T, config, ch, script, 1, 2)
        runs += 1
        if not any(e["e"] == "ConfigRefused" for e in tr):
            keep(tr, {"script": list(script), "size": 1, "min": 2, "schedule": list(ch.names)})
        for (size, mn) in sizes:
            def once(ch):
                return run_once(T, config, ch, script, size, mn)
            for ch, tr in S.explore(once, max_preemptions=ctx.pick(1, 2), limit=dfs_limit, rng=rng, random_runs=per_script_random):
                runs += 1
                key = json.dumps(tr, sort_keys=True)
                if key not in traces:
                    traces[key] = (tr, {"script": list(script), "size": size, "min": mn, "schedule": list(ch.names)})
    # a submission followed at once by the close, two switch points: the worker can be stopped right after it has looked at its job
    # slot, the close can run to its end in between, and only then the worker goes on
    for script in (("submit", "close"), ("submit", "release", "submit", "close")):
        for (size, mn) in ((1, 1), (2, 1)):
            def once_sc(ch, script=script, size=size, mn=mn):
                return run_once(T, config, ch, script, size, mn, eager=True)
            for ch, tr in S.explore(once_sc, max_preemptions=2, limit=ctx.pick(150, 1500), rng=rng, random_runs=0):
                runs += 1
                keep(tr, {"script": list(script), "size": size, "min": mn, "schedule": list(ch.names), "eager": True, "raising": False})
    # one worker held back at every one of its first steps while everything else (the close included) runs as far as it can
    for script in (("submit", "close"), ("submit", "release", "submit", "close"), ("submit", "submit", "close")):
        for (size, mn) in ((1, 1), (2, 1)):
            for w in ("w1", "w2"):
                for k in range(1, ctx.pick(14, 30)):
                    ch = DelayThread(w, k)
                    tr = run_once(T, config, ch, script, size, mn, eager=True)
                    runs += 1
                    keep(tr, {"script": list(script), "size": size, "min": mn, "schedule": list(ch.names), "eager": True, "raising": False,
                              "delayed": [w, k]})
    # grow / shrink / grow again: the pool must scale up a second time after its surplus workers have retired
    for (size, mn) in ((2, 1), (3, 1), (3, 2), (2, 2)):
        for rounds in (2, 3) if size == 2 else (2,):
            script = (["submit"] * size + ["release"] * size) * rounds
            for eager, raising in ((False, False), (True, False), (False, True)):
                ch = S.PreemptionBounded(())
                tr = run_once(T, config, ch, script, size, mn, eager=eager, raising=raising)
                runs += 1
                keep(tr, {"script": list(script), "size": size, "min": mn, "schedule": list(ch.names), "eager": eager, "raising": raising})
    ctx.evaluations = runs
    items = list(traces.values())
    for tr, meta in items:
        ctx.nontrivial.add(json.dumps(tr, sort_keys=True))
    for i in (0, len(items) // 2, len(items) - 1):
        ctx.sample({"meta": {k: v for k, v in items[i][1].items() if k != "schedule"}, "history": items[i][0]})
    # (4) TLC validates every distinct history
    verdicts, _ = tlc.validate(ctx, "Trace_Pool", [tr for tr, _ in items], cfg_text=TRACE_CFG, mode="search", batch=1500)
    refused_seen = any(e.get("r") == "refused" for tr, _ in items for e in tr)
    close_race_seen = any(e["e"] == "CloseCall" and i < len(tr) - 4 for tr, _ in items for i, e in enumerate(tr))
    for (tr, meta), v in zip(items, verdicts):
        if v:
            ctx.violation(diagnose(tr, meta["size"]), {"meta": meta, "history": tr})
    if not ctx.violations and (not refused_seen or not close_race_seen):
        raise util.MachineryError("vacuity: no refusal / no racing close among the recorded histories")
    # (5) the refusal path end to end
    for rec in server_refusal(ctx, config):
        ctx.count(("server", rec["size"], rec["commtimeout"], rec["unix"]))
        ok = (rec["served"] == rec["size"] and rec["refused"] == 2 and rec["reason_ok"] and not rec["other"]
              and rec["after"] == "new" and not rec["crashed"] and rec.get("busy_end") == 0)
        ctx.sample({"server_refusal": rec}, limit=8)
        if not ok:
            ctx.violation("C18.ServerRefusalPath", rec)


def replay(ctx, path):
    T = setup()
    from Pyro5 import config
    rep = json.load(open(path))
    bad = 0
    for case in rep["cases"]:
        meta = case.get("meta")
        if not meta:
            continue
        ch = S.Replay()
        names = list(meta["schedule"])

        def chooser(en, sc, names=names):
            if names:
                n = names.pop(0)
                if n in en:
                    return n
            return en[0]
        tr = run_once(T, config, chooser, meta["script"], meta["size"], meta["min"], eager=meta.get("eager", False), raising=meta.get("raising", False))
        v, _ = tlc.validate(ctx, "Trace_Pool", [tr], cfg_text=TRACE_CFG, mode="search")
        print("replay:", meta["script"], meta["size"], meta["min"], "->", v[0] or "accepted", "| same history:", tr == case["history"])
        bad += bool(v[0])
    if bad:
        print("VIOLATION property=%s replay=%s" % (ctx.prop, path))
    return 1 if bad else 0
