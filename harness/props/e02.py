"""E02 (extra, beyond the listed properties) - life cycle of client proxies: ownership, lazy connection, release, copies.

MC    : ProxyLife.tla (ConnectionsNotShared, RefusedIsNoOp, ServedOnOwn).
Gen   : Gen_ProxyLife.tla: every operation sequence of length 3 and random walks of length 10.
Drive : two persistent threads under the scheduler perform the operations on real Proxy objects against a real daemon;
        the target reports the connection it is served on; the daemon's own connection table is read after each step.
Trace : Trace_ProxyLife.tla steps the model's own actions and compares outcome, serving connection, connected flags and
        the daemon's connections.
"""
import copy
import json

from .. import daemonlab as L
from .. import memnet, tlc, util
from .. import sched as S

GEN_CFG = """INIT GInit
NEXT GNext
CONSTANTS Threads = {"A", "B"}
  MaxProxies = 3
  MaxConns = 1000
  MaxLen = %d
CHECK_DEADLOCK FALSE
"""


class Actor:
    """a persistent thread of the scheduler that executes what main hands to it (thread identity matters here)"""
    def __init__(self, name):
        self.cmd = None
        self.res = None
        self.stop = False
        S.CUR.spawn(S.CUR.fresh_name("actor" + name), self.loop)

    def loop(self):
        sc = S.CUR
        while True:
            sc.yield_point(lambda: self.cmd is not None or self.stop)
            if self.stop:
                return
            fn, self.cmd = self.cmd, None
            try:
                self.res = ("ok", fn())
            except (S.Hang, S.SchedAbort):
                raise
            except BaseException as x:     # noqa
                self.res = ("exc", x)

    def do(self, fn):
        self.res = None
        self.cmd = fn
        S.CUR.yield_point(lambda: self.res is not None)
        return self.res


def run_scripts(scripts):
    from Pyro5 import errors
    traces = []

    def main():
        sc = S.CUR
        lab = L.Lab(servertype="multiplex")
        P = lab.P
        served = []

        @P.expose
        class Target(object):
            def who(self):
                served.append(lab.conn_of_context())
                return served[-1]
        lab.daemon.register(Target(), "target")
        uri = lab.daemon.uriFor("target")
        actors = {"A": Actor("A"), "B": Actor("B")}

        def server_conns():
            out = []
            for key in lab.daemon.transportServer.selector.get_map().values():
                sock = getattr(key.fileobj, "sock", None)
                if sock is not None:
                    out.append(lab.conn_of_sock(sock))
            return sorted(out)
        for script in scripts:
            sc.set_budget(60000)
            lab.base = len(lab.net.socks)
            tr = []
            st, first = actors["A"].do(lambda: P.Proxy(uri))
            proxies = {1: first}
            try:
                for ev in script:
                    op, t, p = ev["op"], ev["t"], ev["p"]
                    px = proxies[p]
                    del served[:]

                    def scoped():
                        with px:
                            return px.who()
                    fn = {"call": lambda: px.who(), "bind": lambda: px._pyroBind(), "release": lambda: px._pyroRelease(),
                          "reconnect": lambda: px._pyroReconnect(1), "claim": lambda: px._pyroClaimOwnership(),
                          "copy": lambda: copy.copy(px), "scoped": scoped}[op]
                    st, val = actors[t].do(fn)
                    sc.quiesce()
                    if st == "ok":
                        out = "ok"
                        if op == "copy":
                            proxies[len(proxies) + 1] = val
                    elif type(val) is errors.PyroError:
                        out = "notowner"
                    else:
                        out = "other"
                    connected = [proxies[i]._pyroConnection is not None if i in proxies else False for i in (1, 2, 3)]
                    tr.append(dict(ev, out=out, served=served[-1] if served else 0, nserved=len(served), connected=connected,
                                   server_conns=server_conns(), exc="" if st == "ok" else "%s: %s" % (type(val).__name__, str(val)[:60])))
            except S.Hang:
                tr.append({"op": "call", "t": "A", "p": 1, "out": "other", "served": 0, "nserved": 0, "connected": [False] * 3, "server_conns": [], "exc": "hang"})
            for i, px in proxies.items():
                for a in actors.values():
                    st, _ = a.do(lambda: px._pyroRelease())
                    if st == "ok":
                        break
            sc.quiesce()
            traces.append(tr)
        for a in actors.values():
            a.stop = True
        lab.close()
    memnet.run(main, max_steps=200000000)
    if len(traces) < len(scripts):
        raise util.MachineryError("session ended early (%d of %d)" % (len(traces), len(scripts)))
    return traces


def run(ctx):
    memnet.install()
    ctx.rule = ("cases = operation scripts (call, bind, release, reconnect, claim, copy, scoped use; two threads, up to three proxies): "
                "every script of length 3 plus random walks of length 10; distinct_nontrivial = distinct scripts containing a refused operation")
    ctx.assumptions = ["multiplex server (its connection table is read directly)", "connections are numbered in the order they are made"]
    tlc.mc(ctx, "ProxyLife", cfg="MC_ProxyLife.cfg")
    s3 = tlc.gen(ctx, "Gen_ProxyLife", cfg_text=GEN_CFG % 3)
    walks = tlc.gen(ctx, "Gen_ProxyLife", cfg_text=GEN_CFG % 10, workers=1,
                    extra=("-simulate", "num=%d" % ctx.pick(400, 5000), "-depth", "12", "-seed", str(ctx.seed + 202)))
    if len(s3) < 1000 or len(walks) < 300:
        raise util.MachineryError("script generation incomplete (%d, %d)" % (len(s3), len(walks)))
    if ctx.quick:
        s3 = s3[::4]
    scripts = s3 + walks
    traces = run_scripts(scripts)
    for s, tr in zip(scripts, traces):
        ctx.count(json.dumps(s) if any(e["out"] == "notowner" for e in tr) else None)
    ctx.sample({"script": scripts[-1], "trace": traces[-1]})
    verdicts, _ = tlc.validate(ctx, "Trace_ProxyLife", traces, cfg="Trace_ProxyLife.cfg", batch=3000)
    for s, tr, v in zip(scripts, traces, verdicts):
        if v:
            ctx.violation(v, {"script": s, "trace": tr})


def replay(ctx, path):
    print("E02 replay: rerun the check with the same VERIF_SEED")
    return 0
