"""E14 (extra, beyond the listed properties) - what the handshake validator finds in the call context.

MC    : HookContext.tla (ValidatorSeesItsOwnMessage).
Gen   : Gen_HookContext.tla: every sequence of up to five steps (connect, call, drop) of up to three peers in which a validator runs
        after the thread has served something else.
Drive : a real daemon over the in-memory transport (multiplex: one thread for all peers; thread pool of one: the worker is used again
        for the next peer), raw peers with their own serializer, sequence numbers and correlation ids; the validator compares every
        field of the call context with the connect message it was called for and with the message served before.
Trace : Trace_HookContext.tla (monitor).
"""
import json
import uuid

from .. import memnet, tlc, util
from .. import sched as S

SERS = {1: "serpent", 2: "json", 3: "msgpack"}
FIELDS = ("client", "addr", "seq", "flags", "serializer", "corr")


def run_scripts(scripts, servertype):
    import Pyro5.api as P
    from Pyro5 import config, protocol, serializers
    from Pyro5.callcontext import current_context
    traces = []

    def msg(msgtype, flags, seq, ser, payload, corr):
        saved = current_context.correlation_id
        current_context.correlation_id = corr
        try:
            return bytes(protocol.SendingMessage(msgtype, flags, seq, serializers.serializers[ser].serializer_id, payload).data)
        finally:
            current_context.correlation_id = saved

    def main():
        sc = S.CUR
        config.SERVERTYPE = servertype
        config.THREADPOOL_SIZE = 1
        config.THREADPOOL_SIZE_MIN = 1
        config.COMMTIMEOUT = 0.0
        for script in scripts:
            sc.set_budget(30000)
            last = {}          # the message the daemon served last: what a stale field would show
            expect = {}
            saw_box = {}
            execs = [0]

            def rel(own, stale, got):
                if got == own:
                    return "own"
                return "stale" if stale is not None and got == stale else "other"

            class D(P.Daemon):
                def validateHandshake(self, conn, data):
                    cc = current_context
                    try:
                        addr = conn.sock.getpeername()
                    except OSError:
                        addr = None
                    saw_box["saw"] = {
                        "client": "own" if cc.client is conn else ("stale" if last and cc.client is last.get("conn") else "other"),
                        "addr": rel(addr, last.get("addr"), cc.client_sock_addr),
                        "seq": rel(expect["seq"], last.get("seq"), cc.seq),
                        "flags": rel(expect["flags"], last.get("flags"), cc.msg_flags),
                        "serializer": rel(expect["serializer"], last.get("serializer"), cc.serializer_id),
                        "corr": rel(expect["corr"], last.get("corr"), cc.correlation_id)}
                    last.update(conn=conn, addr=addr, seq=expect["seq"], flags=expect["flags"], serializer=expect["serializer"], corr=expect["corr"])
                    return "welcome"

            @P.expose
            class T(object):
                @P.oneway
                def note(self, seq, flags, serid, corr):
                    cc = current_context
                    execs[0] += 1
                    last.update(conn=cc.client, addr=cc.client_sock_addr, seq=cc.seq, flags=cc.msg_flags, serializer=cc.serializer_id,
                                corr=cc.correlation_id)
            d = D(host="127.0.0.1")
            d.register(T(), "t")
            drv = memnet.ServerDriver(d)
            port = int(d.locationStr.split(":")[1])
            socks = {}
            seqs = {}
            tr = {"server": servertype, "steps": [], "hang": False}
            try:
                for st in script["steps"]:
                    c, a = st["c"], st["a"]
                    ser = SERS[c]
                    s = serializers.serializers[ser]
                    ev = dict(st, ok=True, saw={f: "own" for f in FIELDS})
                    if a == "connect":
                        if servertype == "thread" and socks:
                            # (a pool of one worker serves one peer at a time: whoever is connected makes room first)
                            for k in list(socks):
                                socks.pop(k).close()
                            sc.quiesce()
                        corr = uuid.UUID(int=1000 + 17 * len(tr["steps"]) + c)
                        seq = 500 + 10 * c + len(tr["steps"])
                        data = msg(protocol.MSG_CONNECT, 0, seq, ser, s.dumps({"handshake": "hi", "object": "t"}), corr)
                        expect.update(seq=seq, flags=protocol.FLAGS_CORR_ID, serializer=s.serializer_id, corr=corr)
                        saw_box.clear()
                        socks[c] = memnet.NET.create_socket(connect=("127.0.0.1", port))
                        socks[c].sendall(data)
                        sc.quiesce()
                        got = bytes(socks[c].inbuf)
                        ev["ok"] = len(got) > 6 and got[6] == protocol.MSG_CONNECTOK and "saw" in saw_box
                        ev["saw"] = saw_box.get("saw", {f: "other" for f in FIELDS})
                        del socks[c].inbuf[:]
                        seqs[c] = 100 * c
                    elif a == "call":
                        if c not in socks:
                            ev["ok"] = True         # (its connection made room for another peer's: nothing to do)
                        else:
                            seqs[c] += 1
                            corr = uuid.UUID(int=5000 + 17 * len(tr["steps"]) + c)
                            before = execs[0]
                            socks[c].sendall(msg(protocol.MSG_INVOKE, protocol.FLAGS_ONEWAY, seqs[c], ser,
                                                 s.dumpsCall("t", "note", [0, 0, 0, 0], {}), corr))
                            sc.quiesce()
                            ev["ok"] = execs[0] == before + 1
                    else:
                        if c in socks:
                            socks.pop(c).close()
                            sc.quiesce()
                    tr["steps"].append(ev)
            except S.Hang:
                tr["hang"] = True
                while len(tr["steps"]) < len(script["steps"]):
                    tr["steps"].append(dict(script["steps"][len(tr["steps"])], ok=False, saw={f: "other" for f in FIELDS}))
            for k in list(socks):
                socks.pop(k).close()
            try:
                sc.quiesce()
            except S.Hang:
                pass
            drv.shutdown()
            d.close()
            traces.append(tr)
    memnet.run(main, max_steps=20000000)
    if len(traces) < len(scripts):
        raise util.MachineryError("session ended early (%d of %d)" % (len(traces), len(scripts)))
    return traces


def run(ctx):
    memnet.install()
    ctx.rule = ("cases = sequence of connect / call / drop steps of up to three peers (own serializer, sequence numbers, correlation ids) x "
                "server type (multiplex, thread pool of one); distinct_nontrivial = scripts in which a validator runs after another peer's message")
    ctx.assumptions = ["the calls are oneway calls of a method that records the context it runs in (that is what a stale field would show)",
                       "with the pool of one worker a new peer is connected after the others have left"]
    tlc.mc(ctx, "HookContext", cfg="MC_HookContext.cfg")
    scripts = tlc.gen(ctx, "Gen_HookContext", cfg="Gen_HookContext.cfg")
    seen, uniq = set(), []
    for s_ in scripts:
        k = json.dumps(s_["steps"])
        if k not in seen:
            seen.add(k)
            uniq.append(s_)
    if len(uniq) < 100:
        raise util.MachineryError("script generation incomplete (%d)" % len(uniq))
    if ctx.quick:
        uniq = uniq[::3]
    traces = []
    for st in ("multiplex", "thread"):
        traces += run_scripts(uniq, st)
    after_other = 0
    for tr in traces:
        hit = any(s["a"] == "connect" and i > 0 and tr["steps"][i - 1]["c"] != s["c"] for i, s in enumerate(tr["steps"]))
        after_other += hit
        ctx.count(json.dumps([tr["server"], [(s["a"], s["c"]) for s in tr["steps"]]]) if hit else None)
    ctx.evaluations = len(traces)
    for i in (0, len(traces) // 2, len(traces) - 1):
        ctx.sample(traces[i])
    verdicts, _ = tlc.validate(ctx, "Trace_HookContext", traces, cfg="Trace_HookContext.cfg")
    for tr, v in zip(traces, verdicts):
        if v:
            ctx.violation("%s [server=%s]" % (v, tr["server"]), tr)
    if not ctx.violations and after_other < 20:
        raise util.MachineryError("vacuity: only %d scripts with a validator running after another peer's message" % after_other)


def replay(ctx, path):
    print("E14 replay: rerun the check (all scripts are enumerated)")
    return 0
