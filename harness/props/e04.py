"""E04 (extra, beyond the listed properties) - life cycle of daemons: request loop, loop condition, shutdown, close, combine.

MC    : Lifecycle.tla (NoServiceAfterClose, ClosedForGood, CombinedOrphan; HeldEndsWithDaemon is shown to FAIL: closing a daemon
        does not end the connections clients hold - a worker of the thread-pool server goes on serving them).
Gen   : Gen_Lifecycle.tla walks the model, interleaving calls; with and without the combine step (multiplex / thread server).
Drive : real daemons whose real requestLoop runs in scheduler threads over the in-memory transport (the selector waits in virtual
        time); shutdown() is called from the script's thread; every call uses a fresh proxy with a communication timeout.
Trace : Trace_Lifecycle.tla replays the steps through the model's actions and compares the observations.
"""
import json
import random

from .. import memnet, tlc, util
from .. import sched as S

GEN_CFG = """INIT GInit
NEXT GNext
CONSTANTS MaxLen = %d
  CanCombine = %s
CHECK_DEADLOCK FALSE
"""
POLL = 2.0


def run_scripts(scripts, servertype, chooser_factory=None):
    import Pyro5.api as P
    from Pyro5 import config, errors
    traces = []
    for script in scripts:
        tr = []

        def main():
            sc = S.CUR
            config.SERVERTYPE = servertype
            config.POLLTIMEOUT = POLL
            config.COMMTIMEOUT = 0.0
            config.THREADPOOL_SIZE = 4
            config.THREADPOOL_SIZE_MIN = 1
            daemons, uris, stopflag, loops = {}, {}, {}, {}

            @P.expose
            class Target(object):
                def __init__(self, d):
                    self.d = d

                def who(self):
                    return self.d
            for d in ("d1", "d2"):
                daemons[d] = P.Daemon(host="127.0.0.1")
                uris[d] = daemons[d].register(Target(d), "obj")
                stopflag[d] = False
                loops[d] = {"running": False, "crashed": ""}

            def start(d):
                stopflag[d] = False
                st = loops[d] = {"running": True, "crashed": ""}
                dm = daemons[d]

                def body():
                    try:
                        dm.requestLoop(lambda: not stopflag[d])
                    except (S.Hang, S.SchedAbort):
                        raise
                    except BaseException as x:     # noqa   the loop died: an observation
                        st["crashed"] = "%s: %s" % (type(x).__name__, str(x)[:80])
                    finally:
                        st["running"] = False
                sc.spawn(sc.fresh_name("loop_" + d), body)

            heldp = {}

            def call(d, p=None):
                keep = p is not None
                if p is None:
                    p = P.Proxy(uris[d])
                    p._pyroTimeout = 3.0
                try:
                    who = p.who()
                    return "ok" if who == d else "other"
                except (S.Hang, S.SchedAbort):
                    raise
                except errors.TimeoutError:
                    return "timeout"
                except errors.ConnectionClosedError:
                    return "closed"
                except errors.CommunicationError as x:
                    return "refused" if "cannot connect" in str(x) else "other"
                except Exception:
                    return "other"
                finally:
                    if not keep:
                        p._pyroRelease()
            try:
                for ev in script:
                    a, d = ev["a"], ev["d"]
                    sc.set_budget(200000)
                    if a == "start":
                        start(d)
                        sc.quiesce()
                        tr.append(dict(ev, crashed=bool(loops[d]["crashed"]), why=loops[d]["crashed"]))
                    elif a == "stopcond":
                        stopflag[d] = True
                        sc.sleep(POLL + 0.5)
                        sc.quiesce()
                        tr.append(dict(ev, loop_returned=not loops[d]["running"], crashed=bool(loops[d]["crashed"]), why=loops[d]["crashed"]))
                    elif a == "shutdown":
                        t0 = sc.now
                        returned = True
                        daemons[d].shutdown()
                        took = int((sc.now - t0) * 1000)
                        sc.quiesce()
                        tr.append(dict(ev, returned=returned, loop_returned=not loops[d]["running"], took=took,
                                       crashed=bool(loops[d]["crashed"]), why=loops[d]["crashed"]))
                    elif a == "close":
                        err = ""
                        try:
                            daemons[d].close()
                        except (S.Hang, S.SchedAbort):
                            raise
                        except Exception as x:
                            err = "%s: %s" % (type(x).__name__, str(x)[:80])
                        sc.quiesce()
                        tr.append(dict(ev, error=bool(err), why=err))
                    elif a == "combine":
                        err = ""
                        try:
                            daemons["d1"].combine(daemons["d2"])
                        except (S.Hang, S.SchedAbort):
                            raise
                        except Exception as x:
                            err = "%s: %s" % (type(x).__name__, str(x)[:80])
                        tr.append(dict(ev, error=bool(err), why=err))
                    elif a == "call":
                        out = call(d)
                        sc.quiesce()
                        tr.append(dict(ev, out=out))
                    elif a == "hold":
                        if d in heldp:
                            heldp.pop(d)._pyroRelease()
                        heldp[d] = P.Proxy(uris[d])
                        heldp[d]._pyroTimeout = 3.0
                        tr.append(dict(ev, out=call(d, heldp[d])))
                        sc.quiesce()
                    elif a == "heldcall":
                        hp = heldp[d]
                        if hp._pyroConnection is None:
                            out = "gone"        # an earlier failure dropped the connection: do not let the proxy make a new one
                        else:
                            out = call(d, hp)
                        sc.quiesce()
                        tr.append(dict(ev, out=out))
                    elif a == "release":
                        if d in heldp:
                            heldp.pop(d)._pyroRelease()
                        sc.quiesce()
                        tr.append(dict(ev))
            except S.Hang:
                tr.append({"a": "shutdown", "d": "d1", "returned": False, "loop_returned": False, "took": 0, "crashed": False, "why": "hang"})
            # wind down whatever is still running
            for d in ("d1", "d2"):
                stopflag[d] = True
            for hp in heldp.values():
                hp._pyroRelease()
            for d in ("d1", "d2"):
                try:
                    if daemons[d].transportServer is not None:
                        daemons[d].close()
                except Exception:
                    pass
            sc.sleep(POLL + 0.5)
        ch = chooser_factory() if chooser_factory else S.prefer_others
        res, sc = memnet.run(main, chooser=ch, max_steps=3000000)
        if res.get("hang") and not (tr and tr[-1].get("why") == "hang"):
            tr.append({"a": "shutdown", "d": "d1", "returned": False, "loop_returned": False, "took": 0, "crashed": False, "why": "hang"})
        traces.append(tr)
    return traces


def run(ctx):
    memnet.install()
    ctx.rule = ("cases = walks of the life-cycle model (start loop, stop by condition, shutdown, close, combine, with calls in between) up to a "
                "length, on the multiplex server (with combine) and on the thread-pool server (without); distinct_nontrivial = distinct scripts "
                "containing a shutdown or a stop by condition")
    ctx.assumptions = ["the request loops run in scheduler threads; the selector's poll timeout (2 s) elapses in virtual time",
                       "every call uses a fresh proxy with a 3 s communication timeout; the housekeeper thread is not running"]
    tlc.mc(ctx, "Lifecycle", cfg="MC_Lifecycle.cfg")
    # the documented quirk must stay a quirk of the model: TLC refutes HeldEndsWithDaemon
    out, stats = tlc.run(ctx, "Lifecycle", cfg="MC_Lifecycle_quirk.cfg")
    if "Invariant HeldEndsWithDaemon is violated" not in out:
        raise util.MachineryError("HeldEndsWithDaemon was expected to be refuted")
    rng = random.Random(ctx.seed + 404)
    total = 0
    for servertype, can in (("multiplex", "TRUE"), ("thread", "FALSE")):
        scripts = tlc.gen(ctx, "Gen_Lifecycle", cfg_text=GEN_CFG % (ctx.pick(5, 6), can))
        if len(scripts) < 200:
            raise util.MachineryError("script generation incomplete (%d)" % len(scripts))
        rng.shuffle(scripts)
        scripts = scripts[:ctx.pick(400, 6000)]
        traces = run_scripts(scripts, servertype)
        total += len(scripts)
        for s in scripts:
            ctx.count(json.dumps([servertype, s]) if any(e["a"] in ("shutdown", "stopcond") for e in s) else None)
        ctx.sample({"server": servertype, "trace": traces[-1]})
        verdicts, _ = tlc.validate(ctx, "Trace_Lifecycle", traces, cfg="Trace_Lifecycle.cfg", batch=4000)
        for s, tr, v in zip(scripts, traces, verdicts):
            if v:
                ctx.violation("%s [server=%s]" % (v, servertype), {"server": servertype, "script": s, "trace": tr})
    ctx.evaluations = total


def replay(ctx, path):
    memnet.install()
    rep = json.load(open(path))
    bad = 0
    for case in rep["cases"]:
        tr = run_scripts([case["script"]], case["server"])[0]
        v, _ = tlc.validate(ctx, "Trace_Lifecycle", [tr], cfg="Trace_Lifecycle.cfg")
        print("replay:", case["server"], [e["a"] + ":" + e["d"] for e in case["script"]], "->", v[0] or "accepted")
        for e in tr:
            print("   ", e)
        bad += bool(v[0])
    if bad:
        print("VIOLATION property=%s replay=%s" % (ctx.prop, path))
    return 1 if bad else 0
