"""C19 - URIs have one canonical text form that parses back to the same URI.

MC    : URI.tla (abstract text algebra, Parse / Print; RoundTrip, FixedPoint over the complete abstract space).
Gen   : Gen_URI.tla prints the complete abstract text space (protocol x object shape x location shape x port form).
Drive : every abstract text is concretised (several seeded witnesses per class: letter case, host spellings, port spellings)
        and fed to the real URI parser; accepted URIs are printed, re-parsed, hashed, sent through all four serializers,
        through Proxy state, and through a name-server registration; accepted URIs are also compared pairwise.
Trace : Trace_URI.tla (monitor).
"""
import itertools
import json
import random

from .. import tlc, util


def concretise(t, rng, variant):
    proto = {"PYRO": "PYRO", "PYRONAME": "PYRONAME", "PYROMETA": "PYROMETA", "other": rng.choice(["PYROX", "PYR", "HTTP", "PYRONAMES"])}[t["proto"]]
    proto = [proto, proto.lower(), "".join(c.lower() if i % 2 else c for i, c in enumerate(proto))][variant % 3]
    obj = {"plain": ["obj", "Pyro.NameServer", "x", "obj_1234567890abcdef"], "with_at": ["user@obj", "a@b@c"],
           "punct": ["ob-j_1.2$%&", "o:b", "é-ü", "ob.j/k"], "tags2": ["a,b", "tag1,Tag2"], "tags_dup": ["a,a,b", "b,a,b"],
           "tags_with_empty": ["a,,b", "a,b,", ",a,b"], "tags_only_empty": [",", ",,", ", ,".replace(" ", "")],
           "lead_at": ["@z,1", "@obj", "@b,a", "@9,@1"]}[t["obj"]]
    obj = obj[variant % len(obj)]
    if t["proto"] != "PYROMETA" and t["obj"].startswith("tags"):
        pass        # for the other protocols a tag list is just an object name with commas
    loc = {"none": None, "host": ["localhost", "Server.Example.COM", "host-1"], "emptyhost": [""], "ipv4": ["127.0.0.1", "10.0.0.255"],
           "v6": ["[::1]", "[FE80::1]", "[0:0:0:0:0:0:0:1]", "[fe80::1%2]"], "v6_double": ["[[::1]]"], "v6_bad": ["[::zz]", "[]", "[:::"],
           "unix": ["./u:/tmp/Pyro/Worker.sock", "./u:/tmp/dir with blanks/sock  ", "./u:sock", "./u:sock\t", "./u:/tmp/pyro/worker.sock", "./u: lead"], "unix_empty": ["./u:"], "unix_colon": ["./u:a:b"]}[t["loc"]]
    if loc is None:
        return proto + ":" + obj
    loc = loc[variant % len(loc)]
    port = {"none": None, "dec": ["4444", "1", "65535"], "zeros": ["0080", "000"], "plus": ["+55"], "spaces": [" 77 ", "77 "],
            "underscore": ["1_000"], "unidigits": ["\u0664\u0664", "\uff11\uff12"], "negative": ["-5"], "nonnum": ["abc", "12ab", "1.5"],
            "empty": [""]}[t["port"]]
    s = proto + ":" + obj + "@" + loc
    if port is not None:
        s += ":" + port[variant % len(port)]
    return s


def facts(core, client, serializers, nameserver, s):
    out = {"kind": "one", "s": s, "accepted": False, "reparse_ok": True, "reparse_eq": True, "fixed": True, "hash_ok": True, "routes": []}
    try:
        u = core.URI(s)
    except Exception as x:
        out["error"] = type(x).__name__
        return out, None
    out["accepted"] = True
    txt = str(u)
    out["text"] = txt
    try:
        u2 = core.URI(txt)
    except Exception:
        out["reparse_ok"] = False
        return out, u
    out["reparse_eq"] = bool(u2 == u) and not (u2 != u)
    out["fixed"] = str(u2) == txt
    try:
        out["hash_ok"] = hash(u2) == hash(u)
    except TypeError:
        out["hash_ok"] = False      # an accepted uri that cannot be hashed has no hash to be equal
    for name, ser in sorted(serializers.serializers.items()):
        try:
            v = ser.loads(ser.dumps(u))
            out["routes"].append({"name": name, "eq": bool(v == u) and str(v) == txt})
        except Exception as x:
            out["routes"].append({"name": name, "eq": False, "error": type(x).__name__})
        try:
            # received twice; the first receiver edits what it got (it is its own object) before the second one arrives
            blob = ser.dumps(u)
            first = ser.loads(blob)
            if isinstance(first.object, set):
                first.object.add("edited-by-the-first-receiver")
            else:
                first.object = "Pyro.Daemon"
            first.protocol = "PYRO"
            second = ser.loads(blob)
            out["routes"].append({"name": name + "+again", "eq": bool(second == u) and str(second) == txt})
        except Exception as x:
            out["routes"].append({"name": name + "+again", "eq": False, "error": type(x).__name__})
        if CATCHALL[0]:
            # the application has registered a converter for "every other object" (for the base class of all classes) later on:
            # uris and proxies still travel as what they are
            try:
                v = ser.loads(ser.dumps([u]))[0]
                out["routes"].append({"name": name + "+catchall", "eq": isinstance(v, core.URI) and bool(v == u)})
            except Exception as x:
                out["routes"].append({"name": name + "+catchall", "eq": False, "error": type(x).__name__})
        try:
            p = client.Proxy(u)
            q = ser.loads(ser.dumps(p))
            out["routes"].append({"name": "proxy/" + name, "eq": bool(q._pyroUri == u)})
            p._pyroRelease()
        except Exception as x:
            out["routes"].append({"name": "proxy/" + name, "eq": False, "error": type(x).__name__})
    if isinstance(u.object, set):
        # a tag set changed in place after the uri has been printed once: the text form follows, and still parses to an equal uri
        try:
            w = core.URI(s)
            before = str(w)
            w.object.add("added-later")
            after = str(w)
            out["routes"].append({"name": "tags_edited", "eq": after != before and bool(core.URI(after) == w) and hash(core.URI(after)) == hash(w)})
        except Exception as x:
            out["routes"].append({"name": "tags_edited", "eq": False, "error": type(x).__name__})
    try:
        ns = nameserver.NameServer()
        ns.register("n", u)
        out["routes"].append({"name": "nameserver", "eq": bool(ns.lookup("n") == u)})
    except Exception as x:
        out["routes"].append({"name": "nameserver", "eq": False, "error": type(x).__name__})
    return out, u


MADE_IDS = [("plain", "obj"), ("plain", "Some.Object-1_x"), ("generated", None), ("at_inside", "accounts@eu-west"), ("at_end", "obj@"),
            ("at_start", "@obj"), ("space_inside", "stock level"), ("space_end", "obj "), ("space_start", " obj"), ("tab", "a\tb"),
            ("newline", "a\nb"), ("colon", "a:b"), ("slash", "a/b"), ("unicode", "objét-中"), ("dots", "..."), ("percent", "a%40b"),
            ("brackets", "[::1]"), ("at_colon", "x@host:99"), ("comma", "a,b"), ("empty", "")]


CATCHALL = [False]


def made_uris(core, serializers):
    """uris a real daemon hands out for object ids of every shape (it may refuse an id; what it hands out must mean that id)"""
    import Pyro5.api as P
    out = []

    class Thing(object):
        pass
    d = P.Daemon(host="127.0.0.1", port=0)
    try:
        for idclass, oid in MADE_IDS:
            rec = {"kind": "made", "idclass": idclass, "id": repr(oid), "refused": False, "reparse_ok": False, "designates": False, "routes": []}
            obj = Thing()
            try:
                uri = d.register(obj, oid) if oid is not None else d.register(obj)
            except Exception as x:
                rec["refused"] = True
                rec["detail"] = "%s: %s" % (type(x).__name__, str(x)[:80])
                out.append(rec)
                continue
            real_id = obj._pyroId
            rec["text"] = str(uri)
            try:
                back = core.URI(str(uri))
                rec["reparse_ok"] = True
                rec["designates"] = back.object == real_id and back.location == d.locationStr and back == uri
                for name, ser in sorted(serializers.serializers.items()):
                    try:
                        got = ser.loads(ser.dumps(uri))
                        rec["routes"].append({"name": name, "eq": bool(got == uri and got.object == real_id)})
                    except Exception:
                        rec["routes"].append({"name": name, "eq": False})
            except Exception as x:
                rec["detail"] = "%s: %s" % (type(x).__name__, str(x)[:80])
            out.append(rec)
            d.unregister(real_id)
    finally:
        d.close()
    return out


def generic_to_dict(obj):
    return {"__class__": "harness.props.c19.Anything", "text": repr(obj)[:40]}


def run(ctx):
    from Pyro5 import core, client, serializers, nameserver
    ctx.rule = ("cases = every abstract text of URI.tla (protocol x object shape x location shape x port form; 2048 after dropping impossible "
                "combinations) x seeded concrete witnesses (letter case, host / socket / port spellings); plus all pairs of accepted URIs inside "
                "each (protocol, object) group; distinct_nontrivial = distinct concrete strings the parser accepted")
    ctx.assumptions = ["concrete witnesses per abstract class are a fixed table plus seeded choices; a defect that needs one particular host or "
                       "object spelling outside the table can be missed"]
    tlc.mc(ctx, "URI", cfg="MC_URI.cfg")
    cases = tlc.gen(ctx, "Gen_URI", cfg="Gen_URI.cfg")
    if len(cases) != 2048:
        raise util.MachineryError("expected 2048 abstract texts, got %d" % len(cases))
    rng = random.Random(ctx.seed + 19)
    traces, seen = [], set()
    groups = {}
    agree = 0
    serializers.SerializerBase.register_class_to_dict(object, generic_to_dict)
    CATCHALL[0] = True
    for c in cases:
        for variant in range(ctx.pick(3, 8)):
            s = concretise(c["text"], rng, variant)
            if s in seen:
                continue
            seen.add(s)
            f, u = facts(core, client, serializers, nameserver, s)
            f["abstract"] = c["text"]
            traces.append(f)
            agree += f["accepted"] == c["model_accepts"]
            if u is not None:
                ctx.nontrivial.add(s)
                groups.setdefault((c["text"]["proto"], c["text"]["obj"]), []).append((s, u))
    # pairs that differ in the location only (same protocol and object): every spelling of host / socket / port
    hosts = ["localhost", "LocalHost", "Server.Example.COM", "server.example.com", "127.0.0.1", "[::1]", "[FE80::1]", "[fe80::1]",
             "[0:0:0:0:0:0:0:1]", ""]
    socks = ["./u:/tmp/Pyro/Worker.sock", "./u:/tmp/pyro/worker.sock", "./u:sock", "./u:SOCK"]
    for proto in ("PYRO", "PYRONAME", "PYROMETA"):
        for obj in ("obj", "a,b"):
            lst = []
            for loc in [h + ":" + pt for h in hosts for pt in ("4444", "04444", "80")] + socks + hosts[:6]:
                s = "%s:%s@%s" % (proto, obj, loc)
                try:
                    lst.append((s, core.URI(s)))
                except Exception:
                    pass
            groups[(proto, obj, "locations")] = lst
    ctx.evaluations = len(traces)
    npairs = 0
    for key, lst in sorted(groups.items()):
        if len(key) == 2:
            rng.shuffle(lst)
            lst = lst[:ctx.pick(14, 40)]
        for (s1, a), (s2, b) in itertools.combinations(lst, 2):
            same = (a.protocol, a.object, a.host, a.port, a.sockname) == (b.protocol, b.object, b.host, b.port, b.sockname)
            try:
                heq = hash(a) == hash(b)
            except TypeError:
                heq = False
            traces.append({"kind": "pair", "s": s1, "s2": s2, "eq": bool(a == b), "same": bool(same), "hash_eq": heq})
            npairs += 1
    # the same tags written in another order are the same uri: longer tag lists, whose sets are laid out differently in memory
    # depending on the order in which the tags went in
    pool = ["a", "b", "c", "d", "e", "f", "g", "h", "k1", "k2", "k3", "x.y", "tag-9", "T", "zz", "q"]
    for n in range(ctx.pick(60, 400)):
        tags = rng.sample(pool, rng.randint(4, 9))
        others = [sorted(tags), sorted(tags, reverse=True), rng.sample(tags, len(tags))]
        s1 = "PYROMETA:" + ",".join(tags)
        for o in others:
            s2 = "PYROMETA:" + ",".join(o)
            try:
                a, b = core.URI(s1), core.URI(s2)
            except Exception:
                continue
            try:
                heq = hash(a) == hash(b)
            except TypeError:
                heq = False
            traces.append({"kind": "pair", "s": s1, "s2": s2, "eq": bool(a == b), "same": a.object == b.object, "hash_eq": heq})
            npairs += 1
    ctx.evaluations += npairs
    made = made_uris(core, serializers)
    ctx.evaluations += len(made)
    ctx.extra["uris_made_by_a_daemon"] = len(made)
    ctx.extra["ids_refused_by_the_daemon"] = sum(1 for m in made if m["refused"])
    for i in (5, len(cases), len(traces) - 1):
        ctx.sample(traces[i])
    traces += made
    CATCHALL[0] = False
    serializers.SerializerBase.unregister_class_to_dict(object)
    verdicts, _ = tlc.validate(ctx, "Trace_URI", traces, cfg="Trace_URI.cfg", batch=8000)
    for tr, v in zip(traces, verdicts):
        if v:
            if tr["kind"] == "made":
                ctx.violation("%s [uri made by a daemon, id class=%s]" % (v, tr["idclass"]), tr)
            elif tr["kind"] == "one":
                a = tr["abstract"]
                ctx.violation("%s [proto=%s obj=%s loc=%s port=%s]" % (v, a["proto"], a["obj"], a["loc"], a["port"]), tr)
            else:
                ctx.violation("%s [pair]" % v, tr)
    nacc = sum(1 for t in traces if t["kind"] == "one" and t["accepted"])
    if not ctx.violations and (nacc < 300 or npairs < 300):
        raise util.MachineryError("vacuity: %d accepted strings, %d pairs" % (nacc, npairs))
    ctx.extra["accepted_strings"] = nacc
    ctx.extra["pairs_compared"] = npairs
    ctx.extra["acceptance_agrees_with_model"] = "%d of %d strings" % (agree, len(seen))
    ctx.exhaustive = True


def replay(ctx, path):
    from Pyro5 import core, client, serializers, nameserver
    rep = json.load(open(path))
    bad = 0
    for case in rep["cases"]:
        if case["kind"] != "one":
            a, b = core.URI(case["s"]), core.URI(case["s2"])
            print("replay pair:", case["s"], case["s2"], "eq", a == b)
            continue
        f, _ = facts(core, client, serializers, nameserver, case["s"])
        v, _ = tlc.validate(ctx, "Trace_URI", [f], cfg="Trace_URI.cfg")
        print("replay:", repr(case["s"]), "->", v[0] or "accepted", f.get("text"), [r for r in f["routes"] if not r["eq"]])
        bad += bool(v[0])
    if bad:
        print("VIOLATION property=%s replay=%s" % (ctx.prop, path))
    return 1 if bad else 0
