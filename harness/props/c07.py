"""C07 - remote exceptions arrive as the same exception with the same content.

MC    : ExcTransport.tla (what the caller must observe, by class kind and carriability).
Gen   : Gen_Exc.tla enumerates argument-tuple shape x attribute shape x call kind.
Drive : every Exception subclass of the library's own whitelist (builtins and Pyro5.errors) plus a class unknown to the
        receiver is raised by a real remote method (plain call, attribute access, batch member, streamed item) under all four
        serializers; the caller's exception is compared with the one raised; then the same proxy makes another call.
Trace : Trace_Exc.tla (monitor).
"""
import json
import math
import random
import threading

from .. import memnet, tlc, util
from .. import sched as S
from .c01 import same


class AppError(Exception):
    """exists on the raising side only (the receiver's whitelist does not know it)"""


ARGS = {
    "none": [], "one_str": ["something went wrong"], "str_int": ["message", 42], "three_mixed": ["m", 3.5, None],
    "nested_list": [["a", [1, 2]], {"k": [True, None]}], "big_int": [2 ** 70 + 1, -(2 ** 65)], "unicode": ["héllo \U0001F600 中"],
    "none_value": [None], "float_nan": [float("nan"), float("inf")], "dict_arg": [{"code": 7, "detail": "x"}],
}
ATTRS = {
    "none": {}, "one_int": {"code": 42}, "nested": {"info": {"a": [1, 2], "b": None}}, "several": {"x": 1, "y": "two", "z": 3.0},
    "unserialisable": {"code": 1}, "tuple_value": {"pair": (1, "b")},
    # (what add_note() leaves on an exception, and an application's own double-underscore name: attributes like any other)
    "dunder_named": {"__notes__": ["seen at sensor 7", "second note"], "__origin__": "sensor 7"},
}
SPECIAL_ARGS = {
    "UnicodeDecodeError": ["utf-8", b"\xff\xfe", 0, 1, "invalid start byte"], "UnicodeEncodeError": ["ascii", "é", 0, 1, "ordinal not in range"],
    "UnicodeTranslateError": ["é", 0, 1, "no mapping"],
}


def exception_classes():
    """every Exception subclass of builtins and of Pyro5.errors, under distinct keys (the two modules share the name TimeoutError)"""
    import builtins
    from Pyro5 import errors
    out = {}
    for name, cls in vars(builtins).items():
        if isinstance(cls, type) and issubclass(cls, Exception) and name not in ("ExceptionGroup", "BaseExceptionGroup"):
            out[name] = cls
    for name, cls in vars(errors).items():
        if isinstance(cls, type) and issubclass(cls, errors.PyroError):
            out["Pyro5.errors." + name] = cls
    return out


def make_target(table):
    import Pyro5.api as P

    class Raiser(object):
        def __init__(self):
            self.armed = None
            self.kept = None
            self.unser_n = 0
            self.gen_n_ = 0

        def __getattr__(self, name):
            # a delegating wrapper: names this object does not have are answered by the wrapped one (here: it has nothing to say)
            if name.startswith("_"):
                raise AttributeError(name)
            return None

        def _build(self, spec):
            cls = table[spec["cls"]]
            x = cls(*SPECIAL_ARGS.get(spec["cls"], spec["args"] if not spec.get("big") else ["x" * spec["big"]]))
            for k, v in spec["attrs"].items():
                setattr(x, k, tuple(v) if spec.get("tuple_attr") == k else v)
            if spec.get("unser"):
                # content that no serializer can write: objects of the interpreter, or text that is not valid unicode (a lone
                # surrogate, as file names and broken input give them) in an attribute or in the message itself
                self.unser_n = n = getattr(self, "unser_n", 0) + 1
                if n % 4 == 0:
                    x.lock = threading.Lock()
                    x.fn = lambda: 1
                elif n % 4 == 1:
                    x.note = "not unicode: \udc80"
                    x.lock = threading.Lock()
                elif n % 4 == 2:
                    x.lock = threading.Lock()
                    if x.args and isinstance(x.args[0], str):
                        x.args = (x.args[0] + " \udc80\ud800",) + tuple(x.args[1:])
                else:
                    # the exception itself is clean, but it was raised while another one was being handled whose text cannot be
                    # encoded: that text is part of the traceback that travels with it
                    x.__context__ = OSError("cannot open report-\udcff.txt")
            return x

        @P.expose
        def raiser(self, spec):
            raise self._build(spec)

        @P.expose
        def arm(self, spec):
            self.armed = spec
            return True

        @P.expose
        @property
        def prop(self):
            raise self._build(self.armed)

        @P.expose
        def gen(self, spec):
            def streamer():
                yield 1
                raise self._build(spec)
            self.gen_n = n = getattr(self, "gen_n_", 0) + 1
            self.gen_n_ = n
            if n % 2:
                return streamer()
            target = self

            class Producer(object):
                """an iterator of the application's own making (nothing but __iter__ and __next__)"""
                def __init__(self):
                    self.k = 0

                def __iter__(self):
                    return self

                def __next__(self):
                    self.k += 1
                    if self.k == 1:
                        return 1
                    raise target._build(spec)
            return Producer()

        @P.expose
        def keep_and_raise(self, spec):
            self.kept = self._build(spec)
            raise self.kept

        @P.expose
        def raise_kept_again(self):
            raise self.kept         # the very same exception object, raised by another call

        @P.expose
        def ok(self, x):
            return x
    return Raiser


def make_session_counter():
    import Pyro5.api as P

    @P.behavior(instance_mode="session")
    class Counter(object):
        """one instance per connection: it counts the calls that connection made on it"""
        def __init__(self):
            self.n = 0

        @P.expose
        def bump(self):
            self.n += 1
            return self.n
    return Counter


def mapped(ser, v):
    """the serializer's mapping on plain data (tuples become lists under json and msgpack)"""
    if isinstance(v, tuple):
        return [mapped(ser, x) for x in v] if ser in ("json", "msgpack") else tuple(mapped(ser, x) for x in v)
    if isinstance(v, list):
        return [mapped(ser, x) for x in v]
    if isinstance(v, dict):
        return {k: mapped(ser, x) for k, x in v.items()}
    return v


def run_jobs(jobs, table):
    import Pyro5.api as P
    from Pyro5 import config, errors
    config.SERVERTYPE = "multiplex"
    config.COMMTIMEOUT = 0.0
    config.ITER_STREAMING = True
    config.COMPRESSION = False
    traces = []

    def main():
        sc = S.CUR
        d = P.Daemon(host="127.0.0.1")
        uri = d.register(make_target(table)(), "raiser")
        d.register(make_session_counter(), "counter")
        drv = memnet.ServerDriver(d)
        # the same objects behind a Unix domain socket (whose clients have no address to speak of): every fifth job goes there
        du = P.Daemon(unixsocket="verif-c07.sock")
        uri_unix = du.register(make_target(table)(), "raiser")
        du.register(make_session_counter(), "counter")
        drvu = memnet.ServerDriver(du)
        proxies = {}
        for jobno, job in enumerate(jobs):
            sc.set_budget(30000)
            ser, ck, spec, kind, carriable = job["ser"], job["ck"], job["spec"], job["kind"], job["carriable"]
            config.MAX_MESSAGE_SIZE = job.get("max_message_size", 1024 * 1024 * 1024)
            tr = {"kind": kind, "carriable": carriable, "ck": ck, "ser": ser, "cls": spec["cls"], "argshape": job["a"], "attrshape": job["t"],
                  "outcome": "returned", "same_class": False, "args_equal": False, "attrs_equal": False, "has_traceback": False,
                  "is_pyro_error": False, "names_class": False, "names_message": False, "next_ok": False, "tb_own": True,
                  "session_kept": True}
            try:
                via_unix = jobno % 5 == 3
                p = proxies.get((ser, via_unix))
                if p is None or p._pyroConnection is None:
                    p = proxies[(ser, via_unix)] = P.Proxy(uri_unix if via_unix else uri)
                    p._pyroSerializer = ser
                    p._pyroBind()
                caught = None
                # (only where the daemon itself makes the substitute: a class the *client* cannot rebuild makes the proxy drop its own connection)
                watch_session = bool(spec.get("unser")) and kind != "unknown_to_receiver" and ck != "batch"
                bumped = p._pyroInvoke("bump", [], {}, objectId="counter") if watch_session else 0
                p._pyroMaxRetries = job.get("retries", 0)     # (a proxy told to retry repeats the call; what it raises in the end is the same)
                try:
                    if ck == "call":
                        p.raiser(spec)
                    elif ck == "getattr":
                        p.arm(spec)
                        p.prop
                    elif ck == "batch":
                        b = P.BatchProxy(p)
                        b.ok(1)
                        b.raiser(spec)
                        b.ok(2)
                        res = list(b())
                    elif ck == "reraise":
                        try:
                            p.keep_and_raise(spec)
                        except (S.Hang, S.SchedAbort):
                            raise
                        except Exception:
                            pass
                        p.raise_kept_again()
                    elif ck == "stream":
                        it = p.gen(spec)
                        try:
                            first = next(it)
                            next(it)
                        finally:
                            util.detach_iterator(it)     # no close_stream traffic from the iterator's finaliser (it could run in any thread)
                except (S.Hang, S.SchedAbort):
                    raise
                except BaseException as x:     # noqa
                    caught = x
                if caught is not None:
                    tr["outcome"] = "raised"
                    cls = table[spec["cls"]]
                    tr["same_class"] = type(caught) is cls
                    exp_args = mapped(ser, tuple(job["raised_args"]))
                    tr["args_equal"] = same(list(caught.args), list(exp_args)) if isinstance(exp_args, (list, tuple)) else False
                    got_attrs = {k: v for k, v in vars(caught).items() if k != "_pyroTraceback"}
                    exp_attrs = mapped(ser, dict(spec["attrs"], **({spec["tuple_attr"]: tuple(spec["attrs"][spec["tuple_attr"]])} if spec.get("tuple_attr") else {})))
                    tr["attrs_equal"] = same(got_attrs, exp_attrs)
                    tb = getattr(caught, "_pyroTraceback", None)
                    tr["has_traceback"] = bool(tb) and all(isinstance(x, str) for x in tb)
                    # the remote traceback is that of this raise: it names the function that raised just now
                    raiser = {"call": "raiser", "batch": "raiser", "getattr": "prop", "stream": "streamer", "reraise": "raise_kept_again"}[ck]
                    tr["tb_own"] = (not tr["has_traceback"]) or any(raiser in line or (ck == "stream" and "__next__" in line and "Producer" not in raiser) for line in tb)
                    tr["is_pyro_error"] = isinstance(caught, errors.PyroError)
                    text = str(caught)
                    tr["names_class"] = cls.__name__ in text
                    tr["names_message"] = (not spec["args"]) or (isinstance(spec["args"][0], str) and spec["args"][0][:10] in text)
                    tr["caught"] = type(caught).__name__ + ": " + text[:80]
                try:
                    tr["next_ok"] = p.ok(7) == 7
                    if watch_session:
                        tr["session_kept"] = p._pyroInvoke("bump", [], {}, objectId="counter") == bumped + 1
                except (S.Hang, S.SchedAbort):
                    raise
                except Exception:
                    tr["next_ok"] = False
            except S.Hang:
                tr["outcome"] = "hang"
                proxies.pop((ser, jobno % 5 == 3), None)
            traces.append(tr)
        config.MAX_MESSAGE_SIZE = 1024 * 1024 * 1024
        for p in proxies.values():
            try:
                p._pyroRelease()
            except Exception:
                pass
        drv.shutdown()
        d.close()
        drvu.shutdown()
        du.close()
    memnet.run(main, max_steps=100000000)
    if len(traces) < len(jobs):
        raise util.MachineryError("session ended early (%d of %d)" % (len(traces), len(jobs)))
    return traces


def run_shared_instance(ctx, table, rng):
    """thread-pool server: two connections make the daemon raise the very same exception object at the same time (an application
    that keeps the failure of a job and raises it for everybody who asks).  Every line of the daemon's error-reply code is a
    switch point.  Each caller must get the exception, complete, as if it were alone."""
    import os
    import Pyro5.api as P
    from Pyro5 import config, errors, server, serializers
    sfile = os.path.abspath(server.__file__)
    zfile = os.path.abspath(serializers.__file__)

    def tfilter(code):
        f = os.path.abspath(code.co_filename)
        return (f == sfile and code.co_name == "_sendExceptionResponse") or (f == zfile and code.co_name in ("class_to_dict", "dumps"))
    out = []
    sers = sorted(serializers.serializers)
    for si, ser in enumerate(sers):
        spec = {"cls": "ValueError", "args": ["kept", si], "attrs": {"code": si}, "unser": False}

        def once(chooser, ser=ser, spec=spec):
            config.SERVERTYPE = "thread"
            config.THREADPOOL_SIZE = 4
            config.THREADPOOL_SIZE_MIN = 1
            config.COMMTIMEOUT = 0.0
            config.COMPRESSION = False
            recs = {}

            def main():
                sc = S.CUR
                d = P.Daemon(host="127.0.0.1")
                uri = d.register(make_target(table)(), "raiser")
                drv = memnet.ServerDriver(d)
                with P.Proxy(uri) as p0:
                    p0._pyroSerializer = ser
                    try:
                        p0.keep_and_raise(spec)
                    except ValueError:
                        pass
                done = [0]

                def client(i):
                    def body():
                        tr = {"kind": "builtin", "carriable": True, "ck": "reraise", "ser": ser, "cls": "ValueError", "argshape": "str_int",
                              "attrshape": "one_int", "outcome": "returned", "same_class": False, "args_equal": False, "attrs_equal": False,
                              "has_traceback": False, "is_pyro_error": False, "names_class": False, "names_message": False, "next_ok": False,
                              "tb_own": True, "session_kept": True}
                        recs[i] = tr
                        try:
                            p = P.Proxy(uri)
                            p._pyroSerializer = ser
                            p._pyroBind()
                            try:
                                p.raise_kept_again()
                            except (S.Hang, S.SchedAbort):
                                raise
                            except BaseException as x:     # noqa
                                tr["outcome"] = "raised"
                                tr["same_class"] = type(x) is ValueError
                                tr["args_equal"] = same(list(x.args), list(mapped(ser, ("kept", si))))
                                tr["attrs_equal"] = same({k: v for k, v in vars(x).items() if k != "_pyroTraceback"}, {"code": si})
                                tb = getattr(x, "_pyroTraceback", None)
                                tr["has_traceback"] = bool(tb) and all(isinstance(y, str) for y in tb)
                                tr["tb_own"] = (not tr["has_traceback"]) or any("raise_kept_again" in line for line in tb)
                                tr["is_pyro_error"] = isinstance(x, errors.PyroError)
                                tr["names_class"] = "ValueError" in str(x)
                                tr["names_message"] = "kept" in str(x)
                                tr["caught"] = type(x).__name__ + ": " + str(x)[:80]
                            try:
                                tr["next_ok"] = p.ok(7) == 7
                            except (S.Hang, S.SchedAbort):
                                raise
                            except Exception:
                                tr["next_ok"] = False
                            p._pyroRelease()
                        except S.Hang:
                            tr["outcome"] = "hang"
                        finally:
                            done[0] += 1
                    return body
                for i in (1, 2):
                    sc.spawn("c%d" % i, client(i), trace=False)
                try:
                    sc.yield_point(lambda: done[0] == 2)
                    sc.quiesce()
                except S.Hang:
                    for tr in recs.values():
                        tr["outcome"] = "hang"
                drv.shutdown()
                d.close()
            res, sc = memnet.run(main, chooser=chooser, trace_filter=tfilter, max_steps=200000)
            if res.get("hang"):
                for tr in recs.values():
                    tr["outcome"] = "hang"
            return [recs.get(1), recs.get(2)]
        seen = set()
        for ch, pair in S.explore(once, max_preemptions=2, limit=ctx.pick(40, 400), rng=rng, random_runs=ctx.pick(10, 100)):
            for tr in pair:
                if tr is None:
                    raise util.MachineryError("a client of the shared-instance pass never started")
                key = json.dumps(tr, sort_keys=True)
                if key not in seen:
                    seen.add(key)
                    out.append(tr)
    return out


def run(ctx):
    memnet.install()
    from Pyro5 import serializers
    ctx.rule = ("cases = (argument shape x attribute shape x call kind from Gen_Exc: 280) crossed with every Exception subclass of the library's "
                "whitelist (all cases for three representative classes, a rotating subset for each of the others), a class unknown to the "
                "receiver, and the four serializers; distinct_nontrivial = distinct (class, args, attrs, call kind, serializer)")
    ctx.assumptions = ["argument and attribute values are drawn from the lossless core (plus one tuple-valued attribute, compared modulo the "
                       "serializer's tuple mapping, and the bytes arguments UnicodeDecodeError needs)",
                       "exception classes whose constructor does not accept the generated argument tuple are skipped for that tuple"]
    tlc.mc(ctx, "ExcTransport", cfg="MC_ExcTransport.cfg")
    cases = tlc.gen(ctx, "Gen_Exc", cfg="Gen_Exc.cfg")
    if len(cases) != 280:
        raise util.MachineryError("expected 280 cases")
    table = exception_classes()
    table["harness.props.c07.AppError"] = AppError
    rng = random.Random(ctx.seed + 7)
    sers = sorted(serializers.serializers)
    full = {"ValueError", "FileNotFoundError", "Pyro5.errors.NamingError", "KeyError", "harness.props.c07.AppError"}
    jobs = []
    skipped = 0
    per_class = ctx.pick(6, 40)
    for ci, (name, cls) in enumerate(sorted(table.items())):
        kind = "unknown_to_receiver" if cls is AppError else ("pyro" if cls.__module__ == "Pyro5.errors" else "builtin")
        idxs = range(len(cases)) if name in full else [(ci * 7 + k * 37) % len(cases) for k in range(per_class)]
        for n, i in enumerate(idxs):
            c = cases[i]
            args = ARGS[c["args"]]
            try:
                inst = cls(*SPECIAL_ARGS.get(name, args))
            except Exception:
                skipped += 1
                continue
            if name in ("StopIteration", "StopAsyncIteration") and c["ck"] in ("batch", "stream"):
                continue        # PEP 479: a StopIteration cannot pass through the generators that deliver batch results and stream items
            for si, ser in enumerate(sers):
                if name == "UnicodeDecodeError" and ser in ("json", "serpent"):
                    continue        # needs a bytes argument, which is outside the lossless domain of these serializers
                if name in full and ctx.quick and (i + si) % 4:
                    continue
                if name not in full and (n + si) % 2 and ctx.quick:
                    continue
                spec = {"cls": name, "args": args, "attrs": ATTRS[c["attrs"]], "unser": c["attrs"] == "unserialisable"}
                if c["attrs"] == "tuple_value":
                    spec = dict(spec, attrs={"pair": [1, "b"]}, tuple_attr="pair")
                carriable = not spec["unser"]
                jobs.append({"ser": ser, "ck": c["ck"], "spec": spec, "kind": kind, "carriable": carriable, "a": c["args"], "t": c["attrs"],
                             "raised_args": list(inst.args)})
    for si, ser in enumerate(sers):
        for name in ("ValueError", "Pyro5.errors.NamingError", "KeyError"):
            kind = "pyro" if name.startswith("Pyro5") else "builtin"
            jobs.append({"ser": ser, "ck": "reraise", "spec": {"cls": name, "args": ["kept", si], "attrs": {"code": si}, "unser": False}, "kind": kind,
                         "carriable": True, "a": "str_int", "t": "one_int", "raised_args": ["kept", si]})
        # custom attributes with names the library uses itself on its own errors
        for ck in ("call", "getattr", "stream", "batch"):
            jobs.append({"ser": ser, "ck": ck, "spec": {"cls": "ValueError", "args": ["named like the library's own"], "unser": False,
                                                         "attrs": {"pyroMsg": "mine", "partialData": "mine too", "code": si}},
                         "kind": "builtin", "carriable": True, "a": "one_str", "t": "library_names", "raised_args": ["named like the library's own"]})
        # a proxy that is told to retry: the errors it retries on are raised by the remote method itself here
        for name in ("Pyro5.errors.TimeoutError", "Pyro5.errors.ConnectionClosedError", "Pyro5.errors.CommunicationError", "ValueError"):
            for retries in (1, 2):
                jobs.append({"ser": ser, "ck": "call", "spec": {"cls": name, "args": ["retried", retries], "attrs": {"code": retries}, "unser": False},
                             "kind": "pyro" if name.startswith("Pyro5") else "builtin", "carriable": True, "a": "str_int", "t": "one_int",
                             "raised_args": ["retried", retries], "retries": retries})
        for name in ("ValueError", "Pyro5.errors.NamingError", "KeyError"):
            kind = "pyro" if name.startswith("Pyro5") else "builtin"
            # an error whose reply is larger than the daemon is allowed to send (MAX_MESSAGE_SIZE is lowered for these)
            for ck in ("call", "getattr", "stream"):
                jobs.append({"ser": ser, "ck": ck, "spec": {"cls": name, "args": ["x"], "big": 200000, "attrs": {}, "unser": False}, "kind": "oversize",
                             "carriable": True, "a": "huge", "t": "none", "raised_args": ["x"], "max_message_size": 65536})
    traces = run_jobs(jobs, table)
    shared = run_shared_instance(ctx, table, rng)
    ctx.extra["shared_instance_distinct_outcomes"] = len(shared)
    traces += shared
    for j in jobs:
        ctx.count(json.dumps([j["spec"]["cls"], j["a"], j["t"], j["ck"], j["ser"]]))
    for i in (0, len(traces) // 2, len(traces) - 1):
        ctx.sample(traces[i])
    verdicts, _ = tlc.validate(ctx, "Trace_Exc", traces, cfg="Trace_Exc.cfg", batch=10000)
    for tr, v in zip(traces, verdicts):
        if v:
            detail = {"C07.ArgsDiffer": "args=" + tr["argshape"], "C07.AttributesDiffer": "attrs=" + tr["attrshape"]}.get(v, "cls=" + tr["cls"])
            ctx.violation("%s [ser=%s ck=%s %s]" % (v, tr["ser"], tr["ck"], detail), tr)
    ctx.extra["exception_classes"] = len(table)
    ctx.extra["constructor_mismatches_skipped"] = skipped


def replay(ctx, path):
    print("C07 replay: rerun the check with the same VERIF_SEED (cases are regenerated deterministically)")
    return 0
