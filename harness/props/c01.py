"""C01 - values cross the wire unchanged, identically for arguments and results.

MC    : Serial.tla (abstract values, the per-serializer type mapping Map; Idempotent, CoreLossless, NamedMappings).
Gen   : Gen_Serial.tla prints the complete abstract value space (leaf kinds, containers over them, depth 2).
Drive : every abstract value is concretised (seeded witnesses incl. boundary integers, non-finite floats, unicode of all planes,
        payloads around the compression threshold) and sent (a) through dumpsCall/loadsCall and dumps/loads of each serializer,
        (b) through a real Proxy/Daemon call over the in-memory transport as positional, keyword and nested argument, result,
        batch result and streamed item, with compression on and off.
Trace : Trace_Serial.tla decides per case (monitor).
"""
import datetime
import decimal
import json
import math
import random
import uuid

from .. import memnet, tlc, util
from .. import sched as S

UNHASHABLE = {"list", "set", "dictstr", "dictint", "bytearray"}


def witnesses(rng):
    hi = "".join(chr(rng.choice([rng.randrange(0x21, 0x7f), rng.randrange(0xa1, 0x7ff), rng.randrange(0x4e00, 0x9fff), rng.randrange(0x1f300, 0x1f6ff)]))
                 for _ in range(140))
    return {
        "none": [None], "bool": [True, False], "int": [0, 1, -1, 2 ** 31, 2 ** 63 - 1, -2 ** 63, 255, 65536],
        "bigint": [2 ** 63, 2 ** 64, -(2 ** 63) - 1, -(2 ** 64) - 1, 2 ** 200 + 12345, 10 ** 40],
        "float": [0.0, -1.5, 3.141592653589793, 1e308, 5e-324, -0.0, 1e-7],
        "inf": [float("inf"), float("-inf")], "nan": [float("nan")],
        "str": ["", "a", "héllo wörld", "\U0001F600 mixed 中文 Ж", "x" * 150, hi, "line\nbreak\ttab\x00nul", "퟿�"],
        "bytes": [b"", b"\x00\xff", bytes(rng.randrange(256) for _ in range(130)), b"a" * 150],
        "bytearray": [bytearray(b""), bytearray(b"xyz\x00"), bytearray(rng.randrange(256) for _ in range(120))],
        "complex": [1 + 2j, complex(0.0, -1e300), 0j], "uuid": [uuid.UUID(int=5), uuid.UUID(int=2 ** 127 + 9)],
        "decimal": [decimal.Decimal("1.50"), decimal.Decimal("-0.000000001"), decimal.Decimal("1E+30")],
        "date": [datetime.date(2020, 1, 2), datetime.date(1999, 12, 31)],
        "datetime": [datetime.datetime(2020, 1, 2, 3, 4, 5), datetime.datetime(2001, 9, 9, 1, 46, 40, 123456)],
    }


def concretise(a, W, rng, n):
    """abstract value (json record k, c) -> python value, or None if it cannot exist (unhashable member of a set)"""
    k = a["k"]
    if not a["c"] and k in W:
        lst = W[k]
        return lst[(n + rng.randrange(len(lst))) % len(lst)], True
    kids = []
    for i, c in enumerate(a["c"]):
        v, ok = concretise(c, W, rng, n + i + 1)
        if not ok:
            return None, False
        kids.append((c["k"], v))
    if k in ("set", "frozenset"):
        if any(ck in UNHASHABLE or ck in ("list", "set", "dictstr", "dictint") for ck, _ in kids):
            return None, False
        vals = [v for _, v in kids]
        if any(isinstance(v, float) and math.isnan(v) for v in vals) and len(vals) > 1:
            return None, False
        try:
            r = set(vals) if k == "set" else frozenset(vals)
        except TypeError:
            return None, False
        if len(r) != len(vals):
            return None, False          # two witnesses that compare equal (0 and 0.0): not the value the abstract case means
        return r, True
    if k == "list":
        return [v for _, v in kids], True
    if k == "tuple":
        return tuple(v for _, v in kids), True
    if k == "dictstr":
        return {"key%d" % i: v for i, (_, v) in enumerate(kids)}, True
    if k == "dictint":
        return {i + 1: v for i, (_, v) in enumerate(kids)}, True
    raise util.MachineryError("kind " + k)


def shape(v):
    if v is None:
        return {"k": "none", "c": []}
    if isinstance(v, bool):
        return {"k": "bool", "c": []}
    if isinstance(v, int):
        return {"k": "bigint" if v >= 2 ** 63 or v < -2 ** 63 else "int", "c": []}
    if isinstance(v, float):
        return {"k": "nan" if math.isnan(v) else ("inf" if math.isinf(v) else "float"), "c": []}
    for t, k in ((str, "str"), (bytes, "bytes"), (bytearray, "bytearray"), (complex, "complex"), (uuid.UUID, "uuid"), (decimal.Decimal, "decimal"),
                 (datetime.datetime, "datetime"), (datetime.date, "date")):
        if type(v) is t:
            return {"k": k, "c": []}
    if type(v) is dict:
        if set(v) == {"data", "encoding"} and v.get("encoding") == "base64" and isinstance(v.get("data"), str):
            return {"k": "b64dict", "c": []}
        ks = "dictstr" if all(isinstance(x, str) for x in v) else ("dictint" if all(isinstance(x, int) for x in v) else "dictother")
        return {"k": ks, "c": uniq([shape(x) for x in v.values()])}
    for t, k in ((list, "list"), (tuple, "tuple"), (set, "set"), (frozenset, "frozenset")):
        if type(v) is t:
            return {"k": k, "c": uniq([shape(x) for x in v])}
    return {"k": "other:" + type(v).__name__, "c": []}


def norm_sent(a):
    """an empty dict has no key type: the abstract dictint without members is the same value as the empty dictstr"""
    if a["k"] == "dictint" and not a["c"]:
        return {"k": "dictstr", "c": []}
    return {"k": a["k"], "c": [norm_sent(x) for x in a["c"]]}


def uniq(lst):
    out, seen = [], set()
    for x in lst:
        j = json.dumps(x, sort_keys=True)
        if j not in seen:
            seen.add(j)
            out.append(x)
    return out


def same(a, b):
    """type-exact deep equality with nan == nan"""
    if type(a) is not type(b):
        return False
    if isinstance(a, float):
        return (math.isnan(a) and math.isnan(b)) or (a == b and math.copysign(1, a) == math.copysign(1, b))
    if isinstance(a, (list, tuple)):
        return len(a) == len(b) and all(same(x, y) for x, y in zip(a, b))
    if isinstance(a, dict):
        return set(a) == set(b) and all(same(a[k], b[k]) for k in a)
    if isinstance(a, (set, frozenset)):
        return len(a) == len(b) and all(any(same(x, y) for y in b) for x in a)
    return a == b


def pos(name, fn):
    try:
        v = fn()
        return {"name": name, "out": "ok", "shape": shape(v)}, v, True
    except (S.Hang, S.SchedAbort):
        raise
    except Exception as x:
        return {"name": name, "out": "err", "shape": {"k": "err", "c": []}, "exc": type(x).__name__}, None, False


def serializer_case(ser, sername, a, v):
    tr = {"ser": sername, "v": norm_sent(a), "comp": False, "level": "serializer", "hang": False, "pos": [], "bsame": True, "ssame": True}
    seen = {}

    def call():
        o, m, va, kw = ser.loadsCall(ser.dumpsCall("obj", "meth", [v], {"k": v}))
        return va, kw
    p, got, ok = pos("call", call)
    if ok:
        va, kw = got
        tr["pos"] += [{"name": "positional", "out": "ok", "shape": shape(va[0])}, {"name": "keyword", "out": "ok", "shape": shape(kw["k"])}]
        seen = {"positional": va[0], "keyword": kw["k"]}
    else:
        tr["pos"] += [dict(p, name=n) for n in ("positional", "keyword")]
    p, res, okr = pos("result", lambda: ser.loads(ser.dumps(v)))
    tr["pos"].append(p)
    tr["sym"] = (ok == okr) and (not ok or all(same(x, res) for x in seen.values()))
    tr["idem"] = True
    tr["exact"] = True
    if okr:
        p2, res2, ok2 = pos("again", lambda: ser.loads(ser.dumps(res)))
        tr["idem"] = ok2 and same(res2, res)
        tr["exact"] = same(res, v) and all(same(x, v) for x in seen.values())
    return tr


def _reset_type_replacements(serializers, types):
    """take the harness's type replacements out again (the library has no call for it: the tables are reached by their names)"""
    import serpent
    for t in types:
        for cls in (serializers.JsonSerializer, serializers.MsgpackSerializer, serializers.SerializerBase):
            for attr in ("_JsonSerializer__type_replacements", "_MsgpackSerializer__type_replacements", "_type_replacements"):
                table = getattr(cls, attr, None)
                if isinstance(table, dict):
                    table.pop(t, None)
        try:
            serpent.unregister_class(t)
        except Exception:
            pass


def make_echo(record):
    import Pyro5.api as P

    class Echo(object):
        @P.expose
        def echo(self, a, nest=None, k=None, pad=None):
            record["seen"] = (a, nest, k)
            return a

        @P.expose
        def stream(self, a):
            record["seen_stream"] = a
            return iter([a])

        # result-only positions: the value is handed to the object in-process, so that only the way back is exercised
        @P.expose
        def give(self):
            return record["orig"]

        @P.expose
        def stream_give(self):
            return iter([record["orig"]])
    return Echo


def network_cases(jobs):
    """jobs: (sername, abstract, value, comp, pad) -> traces"""
    import Pyro5.api as P
    from Pyro5 import config
    config.SERVERTYPE = "multiplex"
    config.COMMTIMEOUT = 0.0
    config.ITER_STREAMING = True
    traces = []

    def main():
        sc = S.CUR
        record = {}
        from Pyro5 import callcontext
        ann = [0]

        class AnnotatingDaemon(P.Daemon):
            def annotations(self):
                return {"NETW": b"from the daemon"} if ann[0] & 2 else {}
        d = AnnotatingDaemon(host="127.0.0.1")
        uri = d.register(make_echo(record)(), "echo")
        drv = memnet.ServerDriver(d)
        proxies = {}
        for jobno, (sername, a, v, comp, pad) in enumerate(jobs):
            sc.set_budget(30000)
            # messages travel bare, with an annotation of the client's, with one of the daemon's, or with both
            ann[0] = jobno % 4
            callcontext.current_context.annotations = {"CLNT": b"from the client"} if ann[0] & 1 else {}
            config.COMPRESSION = comp
            config.SERPENT_BYTES_REPR = sername == "serpentb"
            tr = {"ser": sername, "v": norm_sent(a), "comp": comp, "level": "network", "hang": False, "pos": [], "sym": True, "idem": True, "exact": True,
                  "bsame": True, "ssame": True}
            try:
                p = proxies.get(sername)
                if p is None or p._pyroConnection is None:
                    p = P.Proxy(uri)
                    p._pyroSerializer = "serpent" if sername == "serpentb" else sername
                    if sername in ("json", "marshal", "serpentb"):
                        import copy as _copy
                        p = _copy.copy(p)          # a copy of a proxy talks the way the original was told to
                    proxies[sername] = p
                    p._pyroBind()
                record.clear()
                pr, got, ok = pos("result", lambda: p.echo(v, k=v, pad=pad))
                seen = record.get("seen")
                if seen is not None:
                    tr["pos"] += [{"name": "positional", "out": "ok", "shape": shape(seen[0])}, {"name": "keyword", "out": "ok", "shape": shape(seen[2])}]
                else:
                    tr["pos"] += [dict(pr, name=n, out="err") for n in ("positional", "keyword")]
                # the value one container level down inside an argument: a call of its own (a serializer may convert less there)
                record.clear()
                pn, _, okn = pos("nested", lambda: p.echo(None, nest={"n": [v]}))
                seen_n = record.get("seen")
                nested_val = seen_n[1]["n"][0] if seen_n is not None else None
                tr["pos"].append({"name": "nested", "out": "ok", "shape": shape(nested_val)} if seen_n is not None else dict(pn, name="nested", out="err"))
                tr["pos"].append(pr if ok or seen is None else pr)
                if seen is not None and not ok:
                    pass        # arguments arrived but the result could not travel back: PosCheck decides
                if ok and seen is not None:
                    tr["sym"] = all(same(x, got) for x in (seen[0], seen[2])) and (seen_n is None or same(nested_val, got))
                    tr["exact"] = same(got, v) and same(seen[0], v)
                    # batch result and streamed item
                    record["orig"] = v

                    def batch():
                        b = P.BatchProxy(p)
                        b.give()
                        return list(b())[0]
                    pb, gb, okb = pos("batch", batch)
                    tr["pos"].append(pb)

                    def stream():
                        return list(p.stream_give())[0]
                    ps, gs, oks = pos("stream", stream)
                    tr["pos"].append(ps)
                    tr["bsame"] = bool(okb and same(gb, got))
                    tr["ssame"] = bool(oks and same(gs, got))
                    p2, g2, ok2 = pos("again", lambda: p.echo(got))
                    tr["idem"] = ok2 and same(g2, got)
                elif ok != (seen is not None):
                    tr["sym"] = False
            except S.Hang:
                tr["hang"] = True
                proxies.pop(sername, None)
            traces.append(tr)
        config.COMPRESSION = False
        config.SERPENT_BYTES_REPR = False
        callcontext.current_context.annotations = {}
        for p in proxies.values():
            try:
                p._pyroRelease()
            except Exception:
                pass
        drv.shutdown()
        d.close()
    memnet.run(main, max_steps=100000000)
    if len(traces) < len(jobs):
        raise util.MachineryError("session ended early (%d of %d)" % (len(traces), len(jobs)))
    return traces


class Yielder(object):
    """an application object whose conversion to a dict gives way to other threads (any conversion hook may)"""
    def __init__(self, n):
        self.n = n


def concurrent_cases(rounds):
    """two threads serialise and deserialise at the same time, switching inside the serializer's conversion hook; each must
    get its own value back (a serializer must not share encoding state between threads)"""
    from Pyro5 import serializers

    def to_dict(o):
        S.CUR.yield_point()
        return {"__class__": "harness.Yielder", "n": o.n}
    serializers.SerializerBase.register_class_to_dict(Yielder, to_dict)
    serializers.SerializerBase.register_dict_to_class("harness.Yielder", lambda cn, d: ("yielder", d["n"]))
    traces = []

    def main():
        sc = S.CUR
        results = {}

        def worker(name, tag):
            def body():
                for r in range(rounds):
                    for sername, ser in sorted(serializers.serializers.items()):
                        payload = [tag * 3, r, {"k": [tag, r * 1000 + len(tag)]}]
                        ok_exact = False
                        out = "ok"
                        try:
                            back = ser.loads(ser.dumps([Yielder(r), payload, Yielder(-r)]))
                            ok_exact = isinstance(back, (list, tuple)) and len(back) == 3 and same(back[1], payload)
                            o, m, va, kw = ser.loadsCall(ser.dumpsCall("obj", "meth", [Yielder(r), payload], {"k": payload}))
                            ok_exact = ok_exact and same(va[1], payload) and same(kw["k"], payload)
                        except (S.Hang, S.SchedAbort):
                            raise
                        except Exception:
                            out = "err"
                        results.setdefault(name, []).append((sername, out, ok_exact))
            return body
        sc.spawn("serA", worker("A", "alpha"))
        sc.spawn("serB", worker("B", "bravo-bravo"))
        sc.yield_point(lambda: all(len(results.get(n, [])) == rounds * len(serializers.serializers) for n in ("A", "B")))
        core = {"k": "list", "c": [{"k": "str", "c": []}, {"k": "int", "c": []}, {"k": "dictstr", "c": [{"k": "list", "c": [{"k": "str", "c": []}, {"k": "int", "c": []}]}]}]}
        for name in ("A", "B"):
            for sername, out, ok_exact in results[name]:
                traces.append({"ser": sername, "v": core, "comp": False, "level": "concurrent", "hang": False,
                               "pos": [{"name": "result", "out": out, "shape": core if out == "ok" else {"k": "err", "c": []}}],
                               "sym": True, "idem": True, "exact": ok_exact, "bsame": True, "ssame": True})
    import random as _r
    try:
        memnet.run(main, chooser=S.RandomChooser(_r.Random(rounds)), max_steps=20000000)
    finally:
        serializers.SerializerBase.unregister_class_to_dict(Yielder)
        serializers.SerializerBase.unregister_dict_to_class("harness.Yielder")
    if len(traces) < rounds * 8:
        raise util.MachineryError("concurrent serialisation pass incomplete (%d)" % len(traces))
    return traces


def run(ctx):
    memnet.install()
    from Pyro5 import serializers
    ctx.rule = ("cases = (abstract value from Gen_Serial: 15 leaf kinds, 6 container kinds over them, depth 2; 2325 values) x seeded concrete "
                "witnesses x 4 serializers, at serializer level (dumpsCall/loadsCall vs dumps/loads) for all of them and through a real "
                "Proxy/Daemon call (positional, keyword, nested, result, batch result, streamed item; compression on/off; padded payloads "
                "around and beyond the compression threshold) for a sample; distinct_nontrivial = distinct (value, serializer, level, "
                "compression) cases whose value is not a bare core leaf")
    ctx.assumptions = ["leaf witnesses are seeded tables (boundary integers, non-finite floats, unicode from all planes, payload sizes); a "
                       "defect that depends on one particular code point or length inside a correctly handled class can be missed",
                       "the per-serializer mapping table in Serial.tla beyond the mappings the statement names was taken from the result path "
                       "of the pinned code and acts as a regression oracle"]
    tlc.mc(ctx, "Serial", cfg="MC_Serial.cfg")
    values = tlc.gen(ctx, "Gen_Serial", cfg="Gen_Serial.cfg")
    if len(values) != 2325:
        raise util.MachineryError("expected 2325 abstract values, got %d" % len(values))
    rng = random.Random(ctx.seed + 1)
    W = witnesses(rng)
    traces = []
    concrete = []
    for i, a in enumerate(values):
        for n in range(ctx.pick(1, 4)):
            v, ok = concretise(a, W, rng, i + n)
            if ok:
                concrete.append((a, v))
    from Pyro5 import config
    for a, v in concrete:
        for sername, ser in sorted(serializers.serializers.items()):
            traces.append(serializer_case(ser, sername, a, v))
        # the serpent serializer once more with bytes written as literals (SERPENT_BYTES_REPR)
        config.SERPENT_BYTES_REPR = True
        try:
            traces.append(serializer_case(serializers.serializers["serpent"], "serpentb", a, v))
        finally:
            config.SERPENT_BYTES_REPR = False
    rng.shuffle(concrete)
    # extra keyword argument that brings the request just over the compression threshold with text that does not compress
    # (short high-entropy strings), next to no padding, repetitive padding and long non-ASCII padding
    noise = "abcdefghijklmnopqrstuvwxyzABCDEFGHIJKLMNOPQRSTUVWXYZ0123456789!#$%&()*+,-./:;<=>?@[]^_{|}~"
    pads = [None, "pad " * 40, "".join(chr(rng.randrange(0x100, 0x2fff)) for _ in range(130))] + \
           ["".join(rng.choice(noise) for _ in range(n)) for n in (20, 40, 60, 80, 100, 140, 200)]
    jobs = []
    for i, (a, v) in enumerate(concrete[:ctx.pick(260, 2000)]):
        for k, sername in enumerate(sorted(serializers.serializers)):
            if ctx.quick and k != i % 4 and a["k"] not in ("bigint", "complex", "date", "datetime", "bytes"):
                continue
            jobs.append((sername, a, v, bool((i // 2 + k) % 2), pads[(i + k // 2) % len(pads)]))
        if "bytes" in json.dumps(a) or i % 8 == 0:
            jobs.append(("serpentb", a, v, bool(i % 2), pads[i % len(pads)]))
    traces += network_cases(jobs)
    traces += concurrent_cases(ctx.pick(40, 400))
    # what the application tells one serializer about a type of its own is that serializer's business: the others map as before
    for only in ("json", "msgpack", "serpent"):
        serializers.serializers[only].register_type_replacement(uuid.UUID, lambda u: u.int)
        try:
            sub = [(a, v) for a, v in concrete if "uuid" in json.dumps(a)][:ctx.pick(40, 300)]
            for a, v in sub:
                for sername, ser in sorted(serializers.serializers.items()):
                    if sername != only:
                        tr = serializer_case(ser, sername, a, v)
                        tr["level"] = "other-serializer-customised"
                        traces.append(tr)
        finally:
            _reset_type_replacements(serializers, (uuid.UUID,))
    for tr in traces:
        bare = not tr["v"]["c"] and tr["v"]["k"] in ("none", "bool", "int", "float", "str")
        ctx.count(None if bare else json.dumps([tr["ser"], tr["v"], tr["level"], tr["comp"]], sort_keys=True))
    for i in (10, len(traces) // 2, len(traces) - 1):
        ctx.sample(traces[i])
    verdicts, _ = tlc.validate(ctx, "Trace_Serial", traces, cfg="Trace_Serial.cfg", batch=6000)
    for tr, v in zip(traces, verdicts):
        if v:
            ctx.violation("%s [ser=%s kind=%s level=%s]" % (v, tr["ser"], tr["v"]["k"] + ("(" + ",".join(sorted(c["k"] for c in tr["v"]["c"])) + ")" if tr["v"]["c"] else ""),
                                                            tr["level"]), tr)
    ctx.extra["network_cases"] = len(jobs)
    ctx.extra["serializer_level_cases"] = len(traces) - len(jobs)


def replay(ctx, path):
    print("C01 replay: rerun the check with the same VERIF_SEED (cases are regenerated deterministically)")
    return 0
