"""C08 - nothing is invoked on a connection before an accepted handshake.

MC    : Daemon.tla (connection state machine; NoExecBeforeReady and the other connection invariants).
Gen   : Gen_Hs.tla enumerates (first message class) x (validator behaviour) x (messages pipelined behind the first one) and
        states per scenario whether the handshake must be accepted / a connect-failure with the reason is required.
Drive : a raw client writes the whole pipeline into a real daemon (both server types, all serializers) before the server
        runs, then more requests afterwards; every execution of a registered object's method is logged with its connection.
Trace : Trace_Daemon.tla (clauses C08.*).
"""
import json
import random

from .. import daemonlab as L
from .. import memnet, tlc, util
from .. import sched as S

GEN_CFG = """INIT Init
NEXT Next
CONSTANTS MaxPipe = %d
CHECK_DEADLOCK FALSE
"""
MC_CFG = """SPECIFICATION Spec
CONSTANTS Conns = {1, 2}
  Resources = {1, 2}
  Sample = {%s}
  MaxSteps = %d
INVARIANT NoExecBeforeReady
INVARIANT CleanOnce
INVARIANT ResourcesOnce
INVARIANT OpenUntouched
INVARIANT LoopAlive
INVARIANT Accounting
CHECK_DEADLOCK FALSE
"""
SAMPLES = ['"connect_valid", "invoke_first", "connect_unknown_object", "invoke_ok", "invoke_track", "invoke_untrack", "unknown_serializer", "garbage"',
           '"connect_valid", "connect_validator_raises", "truncated_then_close", "invoke_raises", "oneway_ok", "bad_annotations", "close", "reset"']


def make_target(lab):
    P = lab.P

    class Target(object):
        def mark(self, tok):
            lab.log.append({"e": "Exec", "c": lab.conn_of_context(), "obj": "target", "m": "mark", "tok": tok})
            return tok

        @P.oneway
        def omark(self, tok):
            lab.log.append({"e": "Exec", "c": lab.conn_of_context(), "obj": "target", "m": "omark", "tok": tok})

        @property
        def attr(self):
            lab.log.append({"e": "Exec", "c": lab.conn_of_context(), "obj": "target", "m": "attr"})
            return 1
    return P.expose(Target)


def first_bytes(cls, ser, rng):
    from Pyro5 import protocol, serializers
    s = serializers.serializers[ser]
    seq = rng.choice([0, 0, 1, 7, 65535])
    valid = L.connect_msg("target", "hello", ser, seq=seq)
    inv = L.invoke_msg("target", "mark", [99], ser=ser, seq=seq)
    if cls == "connect_valid":
        return valid
    if cls == "connect_unknown_object":
        # no object is registered under any of these: a plain unknown name, near misses of a registered one, and values that are
        # falsy or not even text
        oid = rng.choice(["nonexistent-object", "", None, 0, False, [], "Target", "target ", "target\x00", " target", 5, ["target"],
                          {"object": "target"}, "Pyro.daemon", "nonexistent-object",
                          # ids that used to be registered, and were connected to, earlier in the daemon's life: a weakly registered
                          # object that has been collected since, an object that was unregistered
                          "gone-weak", "gone-unreg", "gone-weak", "gone-unreg"])
        return L.connect_msg(oid, "hello", ser, seq=seq)
    if cls == "connect_bad_payload":
        variants = [s.dumps(["not", "a", "dict"]), s.dumps({"object": "target"}), s.dumps("hello"), b"\xff\xfe\x00garbage-payload",
                    s.dumps({"handshake": "hello"})]
        return L.build(protocol.MSG_CONNECT, 0, 0, s.serializer_id, variants[rng.randrange(len(variants))])
    if cls == "connect_unknown_serializer":
        return L.patch(valid, 7, "!B", rng.choice([0, 5, 99, 255]))
    types = {"type_invoke": protocol.MSG_INVOKE, "type_result": protocol.MSG_RESULT, "type_ping": protocol.MSG_PING,
             "type_connectok": protocol.MSG_CONNECTOK, "type_connectfail": protocol.MSG_CONNECTFAIL, "type_zero": 0,
             "type_unknown": rng.choice([7, 77, 255])}
    if cls in types:
        # a message of another type, carrying either a call or a perfectly valid handshake payload
        data = L.patch(inv if rng.random() < 0.5 else valid, 6, "!B", types[cls])
        if rng.random() < 0.35:
            # ... written with a serializer the daemon does not have (the library's own ping message names number 42)
            data = L.patch(data, 7, "!B", rng.choice([42, 0, 99, 255]))
        return data
    if cls == "stalled_partial":
        return valid[:rng.choice([1, 5, 7, 20, 39, 41, len(valid) - 1])]
    if cls == "type_partial":
        whole = L.patch(inv, 6, "!B", rng.choice([protocol.MSG_INVOKE, protocol.MSG_PING, protocol.MSG_RESULT]))
        return whole[:rng.choice([40, 41, len(whole) - 1, (40 + len(whole)) // 2])]
    if cls == "garbage":
        return bytes(rng.randrange(256) for _ in range(rng.choice([40, 60, 200])))
    if cls == "short_foreign":
        return rng.choice([b"GET / HTTP/1.1\r\n", b"PYRO\x00\x2f", b"PYRO\x00\x2f" + bytes(18), bytes(rng.randrange(256) for _ in range(39)),
                           b"SSH-2.0-OpenSSH_9.2\r\n", b"\x16\x03\x01\x02\x00\x01\x00"])
    if cls == "bad_version":
        return L.patch(valid, 4, "!H", rng.choice([0, 501, 503, 65535]))
    if cls == "bad_magic":
        return L.patch(valid, 38, "!H", rng.choice([0, 0x4dc4, 0xffff]))
    if cls == "oversized":
        return L.patch(valid, 12, "!I", rng.choice([0x7fffffff, 0xffffffff]))
    if cls == "truncated":
        return valid[:rng.choice([3, 6, 20, 39, 45, len(valid) - 1])]
    if cls == "empty":
        return b""
    raise util.MachineryError("first class " + cls)


def pipe_bytes(item, ser, seq):
    from Pyro5 import protocol
    if item == "invoke_target":
        return L.invoke_msg("target", "mark", [seq], ser=ser, seq=seq)
    if item == "invoke_daemon":
        return L.invoke_msg("Pyro.Daemon", "ping", [], ser=ser, seq=seq)
    if item == "oneway_target":
        return L.invoke_msg("target", "omark", [seq], ser=ser, seq=seq, flags=protocol.FLAGS_ONEWAY)
    if item == "batch_target":
        return L.invoke_msg("target", "<batch>", [("mark", (seq,), {})], ser=ser, seq=seq, flags=protocol.FLAGS_BATCH)
    if item == "getattr_target":
        return L.invoke_msg("target", "__getattr__", ["attr"], ser=ser, seq=seq)
    raise util.MachineryError("pipe item " + item)


def classify_first(replies, ser):
    from Pyro5 import protocol, serializers
    if not replies:
        return "none", False
    r = replies[0]
    if r["type"] == protocol.MSG_CONNECTOK:
        return "ok", False
    if r["type"] == protocol.MSG_CONNECTFAIL:
        try:
            text = serializers.serializers_by_id[r["ser"]].loads(r["data"])
        except Exception:
            text = ""
        return "fail", text
    if r["type"] == protocol.MSG_RESULT:
        return "result", False
    return "other", False


def run_scenarios(scens, servertype, timeout, seed, validator_install="class"):
    rng = random.Random(seed)
    traces = []

    def main():
        sc = S.CUR
        lab = L.Lab(servertype=servertype, commtimeout=timeout, validator_install=validator_install)
        lab.daemon.register(make_target(lab)(), "target")
        # two ids that were registered and in use once, and are not any more
        import gc
        was = lab.validator
        lab.validator = "accept"
        tmp_weak, tmp_unreg = make_target(lab)(), make_target(lab)()
        lab.daemon.register(tmp_weak, "gone-weak", weak=True)
        lab.daemon.register(tmp_unreg, "gone-unreg")
        for oid in ("gone-weak", "gone-unreg"):
            with lab.P.Proxy(lab.daemon.uriFor(oid)) as px:
                px._pyroBind()
            sc.quiesce()
        lab.daemon.unregister("gone-unreg")
        del tmp_weak, tmp_unreg
        gc.collect()
        if {"gone-weak", "gone-unreg"} & set(lab.daemon.objectsById):
            raise util.MachineryError("the formerly registered objects are still registered")
        lab.validator = was
        for scen in scens:
            ser = scen["ser"]
            lab.base = len(lab.net.socks)
            lab.log = []
            sc.set_budget(4000)
            lab.validator = scen["validator"]
            # (an answer of the validator that does not fit into a message: the limit is lowered while that validator is in place)
            lab.config.MAX_MESSAGE_SIZE = 100000 if scen["validator"] == "return:huge" else 1073741824
            rc = lab.raw()
            lab.log.append({"e": "First", "c": rc.cid, "accept": scen["accept"], "mustreason": scen["mustreason"]})
            data = first_bytes(scen["first"], ser, rng)
            for i, it in enumerate(scen["pipe"] if scen["first"] not in ("type_partial", "stalled_partial") else []):
                data += pipe_bytes(it, ser, 10 + i)
            rc.send(data)
            if scen["first"] in ("truncated", "empty"):
                rc.close()          # a message cut short by a disconnect
            if scen["first"] == "stalled_partial":
                sc.sleep(timeout + 1.0)         # silence: the daemon's own timeout must end its wait, and it must say so
            if scen["first"] == "type_partial":
                import socket as _socket
                rc.sock.shutdown(_socket.SHUT_WR)       # nothing more will come; the peer still listens
            hang = False
            try:
                sc.quiesce()
                if not (scen["first"] == "short_foreign" and not scen["pipe"]) and scen["first"] not in ("type_partial", "stalled_partial"):
                    # whatever the peer sends next (if it can still send) must not be executed either
                    # (a peer that has sent less than a header of something else just waits: it must be turned away as it is)
                    rc.send(pipe_bytes("invoke_target", ser, 50) + pipe_bytes("invoke_daemon", ser, 51))
                    sc.quiesce()
            except S.Hang:
                hang = True
            replies = rc.drain()
            first, text = classify_first(replies, ser)
            reason = bool(text)
            if scen["validator"].startswith("raise:") and "Empty" not in scen["validator"] and scen["first"] in ("connect_valid", "connect_unknown_object") and text is not False:
                reason = "token-7731" in str(text)      # the validator's own message must be in the failure text
            tr = list(lab.log)
            tr.append({"e": "Snap", "c": rc.cid, "srvclosed": rc.server_closed(), "first": first, "reason": bool(reason),
                       "mustreason": scen["mustreason"], "checkfirst": True, "alive_sessions": 0,
                       "nreplies": len(replies), "text": str(text)[:60] if text else ""})
            rc.close()
            try:
                sc.quiesce()
            except S.Hang:
                hang = True
            tr.append({"e": "Ended", "c": rc.cid})
            tr.append({"e": "End", "slots": lab.server_connections(), "open": 0, "loop_alive": lab.driver.crashed is None,
                       "witness_ok": True, "fresh_ok": True, "hang": hang})
            traces.append(tr[:400] + tr[-2:] if len(tr) > 402 else tr)
            if hang or lab.driver.crashed is not None:
                # start over with a new daemon so that later scenarios are still meaningful
                lab.close()
                lab = L.Lab(servertype=servertype, commtimeout=timeout)
                lab.daemon.register(make_target(lab)(), "target")
        lab.close()
    res, sc = memnet.run(main, max_steps=5000000)
    if len(traces) < len(scens):
        raise util.MachineryError("scheduler session ended early (%d of %d scenarios)" % (len(traces), len(scens)))
    return traces


def run_proxy_peers(servertype):
    """the peer is a real Proxy: what it is told when its connection is refused - by the validator, for an unknown object, for
    lack of a free worker - must carry the daemon's reason, whichever serializer the proxy uses (the daemon answers in a
    serializer of its own choice when it refuses before it has read the proxy's)"""
    traces, metas = [], []

    def main():
        sc = S.CUR
        from Pyro5 import errors
        for full in ((False, True) if servertype == "thread" else (False,)):
            lab = L.Lab(servertype=servertype, poolsize=2 if full else 6)
            lab.daemon.register(make_target(lab)(), "target")
            P = lab.P
            holders = []
            if full:
                for _ in range(2):
                    h = P.Proxy(lab.daemon.uriFor("target"))
                    h._pyroBind()
                    holders.append(h)
                sc.quiesce()
            for ser in ("serpent", "json", "marshal", "msgpack"):
                for why in (("pool",) if full else ("raise:ValueError", "raise:SecurityError", "raise:KeyError", "unknown")):
                    lab.base = len(lab.net.socks)
                    lab.log = []
                    sc.set_budget(4000)
                    lab.validator = why if why.startswith("raise:") else "accept"
                    token = {"pool": "no free workers", "unknown": "unknown object"}.get(why, "token-7731")
                    uri = lab.daemon.uriFor("target") if why != "unknown" else str(lab.daemon.uriFor("target")).replace("target", "nonexistent")
                    p = P.Proxy(uri)
                    p._pyroSerializer = ser
                    first, reason, hang = "ok", False, False
                    try:
                        p._pyroBind()
                    except S.Hang:
                        hang = True
                    except errors.CommunicationError as x:
                        first = "fail"
                        reason = token in str(x)
                    except Exception as x:
                        first = "other:" + type(x).__name__
                    lab.log.insert(0, {"e": "First", "c": 1, "accept": False, "mustreason": True})
                    try:
                        sc.quiesce()
                    except S.Hang:
                        hang = True
                    srv = lab.net.socks[lab.base][1] if len(lab.net.socks) > lab.base else None
                    tr = [e for e in lab.log if e["e"] != "Validate"]
                    tr.append({"e": "Snap", "c": 1, "srvclosed": bool(srv is not None and srv.closed), "first": first if first in ("ok", "fail") else "other",
                               "reason": bool(reason), "mustreason": True, "checkfirst": True, "alive_sessions": 0, "text": first})
                    tr.append({"e": "Ended", "c": 1})
                    tr.append({"e": "End", "slots": lab.server_connections() - len(holders), "open": 0, "loop_alive": lab.driver.crashed is None,
                               "witness_ok": True, "fresh_ok": True, "hang": hang})
                    traces.append(tr)
                    metas.append({"first": "proxy_peer:" + why, "validator": lab.validator, "server": servertype, "ser": ser, "accept": False,
                                  "pipe": [], "proxy_peer": True})
                    try:
                        p._pyroRelease()
                    except Exception:
                        pass
            for h in holders:
                h._pyroRelease()
            sc.quiesce()
            lab.close()
    memnet.run(main, max_steps=2000000)
    return traces, metas


def run(ctx):
    memnet.install()
    ctx.rule = ("cases = (first message class x validator behaviour x pipelined messages from Gen_Hs) x serializer x server type x "
                "(with/without COMMTIMEOUT); distinct_nontrivial = distinct scenarios whose handshake must be refused")
    ctx.assumptions = ["the whole pipeline is in the server's socket buffer before the server looks at the first message",
                       "a validator raising BaseException subclasses that are not Exception (KeyboardInterrupt, SystemExit) is outside the statement"]
    tlc.mc(ctx, "Daemon", cfg_text=MC_CFG % (SAMPLES[0], ctx.pick(8, 9)))
    tlc.mc(ctx, "Daemon", cfg_text=MC_CFG % (SAMPLES[1], ctx.pick(8, 9)))
    scens = tlc.gen(ctx, "Gen_Hs", cfg_text=GEN_CFG % ctx.pick(1, 2))
    if len(scens) < 1000:
        raise util.MachineryError("too few handshake scenarios")
    sers = ["serpent", "json", "marshal", "msgpack"]
    rng = random.Random(ctx.seed + 8)
    jobs = {"multiplex": [], "thread": []}
    for i, s in enumerate(scens):
        for k, ser in enumerate(sers):
            if ctx.quick and k not in (i % 4, (i + 1 + i // 4) % 4):
                continue
            for st in ("multiplex", "thread"):
                if ctx.quick and len(s["pipe"]) == 1 and not s["accept"] and st == ("thread" if i % 2 else "multiplex") and s["first"] not in ("connect_valid",):
                    continue
                jobs[st].append(dict(s, ser=ser, server=st))
    traces, metas = [], []
    for st in ("multiplex", "thread"):
        for timeout in (0.0, 3.0):
            if timeout == 0.0:
                js = [j for j in jobs[st] if j["first"] != "stalled_partial"]
            elif ctx.quick:
                js = [j for j in jobs[st] if j["first"] == "stalled_partial"]
            else:
                js = [j for n, j in enumerate(jobs[st]) if n % 5 == 0 or j["first"] == "stalled_partial"]
            traces += run_scenarios(js, st, timeout, ctx.seed)
            metas += [dict(j, timeout=timeout) for j in js]
        # the validator installed on the daemon object after construction (the class keeps the default that accepts everybody)
        js = [j for j in jobs[st] if j["first"].startswith("connect") and j["first"] != "stalled_partial"][::ctx.pick(3, 1)]
        traces += run_scenarios(js, st, 0.0, ctx.seed, validator_install="instance")
        metas += [dict(j, timeout=0.0, install="instance") for j in js]
    for st in ("multiplex", "thread"):
        t2, m2 = run_proxy_peers(st)
        if len(t2) < 16:
            raise util.MachineryError("the proxy-peer pass ended early")
        traces += t2
        metas += m2
    for m in metas:
        ctx.count(json.dumps(m, sort_keys=True) if not m["accept"] else None)
    for i in (0, len(traces) // 2, len(traces) - 1):
        ctx.sample({"scenario": metas[i], "trace": traces[i]})
    verdicts, _ = tlc.validate(ctx, "Trace_Daemon", traces, cfg="Trace_Daemon.cfg", batch=6000)
    n_exec_ok = sum(1 for tr, m in zip(traces, metas) if m["accept"] and any(e["e"] == "Exec" for e in tr))
    n_pipelined_refused = sum(1 for m in metas if not m["accept"] and m["pipe"])
    for tr, m, v in zip(traces, metas, verdicts):
        v08 = v.split("|")[0]
        if tr[-1].get("hang"):
            v08 = v08 or "C08.Hang"
        if v08:
            ctx.violation("%s [first=%s validator=%s server=%s]" % (v08, m["first"], m["validator"] if m["first"].startswith("connect") else "-", m["server"] + (" instance-validator" if m.get("install") else "")),
                          {"scenario": m, "trace": tr})
    if not ctx.violations and (n_exec_ok < 20 or n_pipelined_refused < 100):
        raise util.MachineryError("vacuity: accepted-with-exec=%d refused-with-pipeline=%d" % (n_exec_ok, n_pipelined_refused))
    ctx.extra["accepted_scenarios_with_executions"] = n_exec_ok
    ctx.extra["refused_scenarios_with_pipelined_requests"] = n_pipelined_refused


def replay(ctx, path):
    memnet.install()
    rep = json.load(open(path))
    bad = 0
    for case in rep["cases"]:
        m = case["scenario"]
        tr = run_scenarios([m], m["server"], m.get("timeout", 0.0), ctx.seed, validator_install=m.get("install", "class"))[0]
        v, _ = tlc.validate(ctx, "Trace_Daemon", [tr], cfg="Trace_Daemon.cfg")
        print("replay:", {k: m[k] for k in ("first", "validator", "pipe", "ser", "server")}, "->", v[0].split("|")[0] or "accepted")
        for e in tr:
            print("   ", e)
        bad += bool(v[0].split("|")[0])
    if bad:
        print("VIOLATION property=%s replay=%s" % (ctx.prop, path))
    return 1 if bad else 0
