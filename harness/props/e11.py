"""E11 (extra, beyond the listed properties) - what a proxy carries with it when it is copied or travels through a call.

MC    : ProxyState.tla (KeepsTarget, TravelForgetsLocal, CopyKeepsAll).
Gen   : Gen_ProxyState.tla: route (copy, argument, result, nested in a container either way) x class (Proxy, an unknown subclass) x
        connected or not (20 cases), crossed with the four serializers.
Drive : a real Proxy with every setting changed from its default is copied, or sent to / fetched from a real daemon over the
        in-memory transport (the receiving side's configured defaults differ from the library's); the proxy at the other side is
        examined there (settings, class, connection, owner) and a call is made through it.
Trace : Trace_ProxyState.tla (monitor).
"""
import copy
import json

from .. import memnet, tlc, util
from .. import sched as S

SETTINGS = ("uri", "methods", "attrs", "oneway", "handshake", "serializer", "timeout", "retries", "rawwire")


def describe(p, orig, config):
    """the settings of proxy p relative to the original's own values and the process defaults"""
    def rel(own, dflt, got, off=None):
        if got == own:
            return "own"
        if off is not None and got == off:
            return "off"
        if got == dflt:
            return "default"
        return "other"
    return {"uri": rel(orig["uri"], None, str(p._pyroUri)),
            "methods": rel(orig["methods"], [], sorted(p._pyroMethods)),
            "attrs": rel(orig["attrs"], [], sorted(p._pyroAttrs)),
            "oneway": rel(orig["oneway"], [], sorted(p._pyroOneway)),
            "handshake": rel(orig["handshake"], "hello", p._pyroHandshake),
            "serializer": rel(orig["serializer"], None, p._pyroSerializer),
            "timeout": rel(orig["timeout"], config.COMMTIMEOUT, p._pyroTimeout),
            "retries": rel(orig["retries"], config.MAX_RETRIES, p._pyroMaxRetries),
            # (switched on in the original only when it is copied: "own" means on, like the original)
            "rawwire": "own" if (orig["rawwire"] and p._pyroRawWireResponse is True) else ("off" if p._pyroRawWireResponse is False else "other")}


def run_cases(cases, servertype):
    import Pyro5.api as P
    from Pyro5 import config, errors
    from Pyro5.client import Proxy
    traces = []

    class ShopProxy(Proxy):
        """a subclass the other side has never heard of"""

    def main():
        sc = S.CUR
        config.SERVERTYPE = servertype
        config.COMMTIMEOUT = 11.0        # the process defaults differ from the library's, and from what the original has
        config.MAX_RETRIES = 2
        box = {}

        @P.expose
        class Desk(object):
            def who(self):
                return "desk"

            @P.oneway
            def ping(self):
                pass

            @property
            def size(self):
                return 3

            def take(self, item):
                p = item["p"][0] if isinstance(item, dict) else item
                box["got"] = p
                rec = {"class": type(p).__name__, "connected": p._pyroConnection is not None, "settings": describe(p, box["orig"], config)}
                try:
                    rec["reaches"] = p.who() == "desk"
                    rec["owned"] = True
                except errors.PyroError as x:
                    rec["reaches"] = False
                    rec["owned"] = "owner" not in str(x)
                p._pyroRelease()
                return rec

            def give(self, nested):
                p = box["orig_proxy_copy"]
                return {"p": [p]} if nested else p
        d = P.Daemon(host="127.0.0.1")
        carrier_uri = d.register(Desk(), "desk")
        drv = memnet.ServerDriver(d)
        # the proxies that travel are for an object in a second daemon (the receiving method makes a call through the proxy it got)
        d2 = P.Daemon(host="127.0.0.1")
        uri = d2.register(Desk(), "desk")
        drv2 = memnet.ServerDriver(d2)
        for case in cases:
            sc.set_budget(30000)
            route, klass, connected, ser = case["route"], case["class"], case["connected"], case["ser"]
            tr = dict(case, hang=False, arrived=False, after={k: "other" for k in SETTINGS}, class_after="", connected_after=False,
                      owned_by_receiver=True, reaches=False, original_intact=True)
            p = (ShopProxy if klass == "subclass" else P.Proxy)(uri)
            p._pyroHandshake = {"shop": [1, 2]}
            p._pyroSerializer = "json" if ser != "json" else "msgpack"
            p._pyroTimeout = 7.5
            p._pyroMaxRetries = 5
            p._pyroRawWireResponse = False
            p._pyroGetMetadata()
            p._pyroRelease()
            if connected:
                p._pyroBind()
            p._pyroRawWireResponse = route == "copy"       # (a wire-level proxy cannot make the calls below; it is only ever copied)
            orig = {"uri": str(p._pyroUri), "methods": sorted(p._pyroMethods), "attrs": sorted(p._pyroAttrs), "oneway": sorted(p._pyroOneway),
                    "handshake": p._pyroHandshake, "serializer": p._pyroSerializer, "timeout": 7.5, "retries": 5, "rawwire": p._pyroRawWireResponse}
            box["orig"] = orig
            conn0 = p._pyroConnection
            carrier = P.Proxy(carrier_uri)
            carrier._pyroSerializer = ser
            before = describe(p, orig, config)
            try:
                if route == "copy":
                    q = copy.copy(p)
                    tr["arrived"] = True
                    tr["after"] = describe(q, orig, config)
                    tr["class_after"] = "subclass" if type(q) is ShopProxy else ("plain" if type(q) is P.Proxy else "other")
                    tr["connected_after"] = q._pyroConnection is not None
                    q._pyroRawWireResponse = False
                    tr["reaches"] = q.who() == "desk"
                    q._pyroRelease()
                elif route in ("arg", "nested_arg"):
                    try:
                        rec = carrier.take({"p": [p]} if route == "nested_arg" else p)
                        tr["arrived"] = True
                        tr["after"] = rec["settings"]
                        tr["class_after"] = "plain" if rec["class"] == "Proxy" else ("subclass" if rec["class"] == "ShopProxy" else "other")
                        tr["connected_after"] = rec["connected"]
                        tr["owned_by_receiver"] = bool(rec["owned"])
                        tr["reaches"] = rec["reaches"]
                    except (S.Hang, S.SchedAbort):
                        raise
                    except Exception as x:
                        tr["detail"] = "%s: %s" % (type(x).__name__, str(x)[:80])
                else:
                    box["orig_proxy_copy"] = p
                    try:
                        got = carrier.give(route == "nested_result")
                        q = got["p"][0] if isinstance(got, dict) else got
                        tr["arrived"] = isinstance(q, Proxy)
                        if tr["arrived"]:
                            tr["after"] = describe(q, orig, config)
                            tr["class_after"] = "plain" if type(q) is P.Proxy else ("subclass" if type(q) is ShopProxy else "other")
                            tr["connected_after"] = q._pyroConnection is not None
                            tr["reaches"] = q.who() == "desk"
                            q._pyroRelease()
                    except (S.Hang, S.SchedAbort):
                        raise
                    except Exception as x:
                        tr["detail"] = "%s: %s" % (type(x).__name__, str(x)[:80])
                tr["original_intact"] = (p._pyroConnection is conn0 and describe(p, orig, config) == before
                                         and (not connected or p._pyroConnection is not None))
            except S.Hang:
                tr["hang"] = True
            for x in (p, carrier):
                try:
                    x._pyroRelease()
                except Exception:
                    pass
            sc.quiesce()
            traces.append(tr)
        drv.shutdown()
        d.close()
        drv2.shutdown()
        d2.close()
        config.COMMTIMEOUT = 0.0
        config.MAX_RETRIES = 0
    memnet.run(main, max_steps=20000000)
    from Pyro5 import config as _c
    _c.COMMTIMEOUT = 0.0
    _c.MAX_RETRIES = 0
    if len(traces) < len(cases):
        raise util.MachineryError("session ended early (%d of %d)" % (len(traces), len(cases)))
    return traces


def run(ctx):
    memnet.install()
    ctx.rule = ("cases = route (copy, argument, result, nested either way) x class of the proxy (Proxy, unknown subclass) x connected or not "
                "x serializer x server type; distinct_nontrivial = all of them")
    ctx.assumptions = ["the original has every setting changed from its default, and the process defaults (COMMTIMEOUT, MAX_RETRIES) differ from "
                       "both the library's and the original's, so that 'own', 'default' and 'off' can be told apart"]
    tlc.mc(ctx, "ProxyState", cfg="MC_ProxyState.cfg")
    cases = tlc.gen(ctx, "Gen_ProxyState", cfg="Gen_ProxyState.cfg")
    if len(cases) != 20:
        raise util.MachineryError("expected 20 cases, got %d" % len(cases))
    jobs = [dict(c, ser=ser) for c in cases for ser in ("serpent", "json", "marshal", "msgpack")]
    traces = []
    for st in ("multiplex", "thread"):
        got = run_cases(jobs, st)
        for tr in got:
            tr["server"] = st
        traces += got
    for tr in traces:
        ctx.count(json.dumps([tr["route"], tr["class"], tr["connected"], tr["ser"], tr["server"]]))
    ctx.evaluations = len(traces)
    for i in (0, len(traces) // 2, len(traces) - 1):
        ctx.sample(traces[i])
    verdicts, _ = tlc.validate(ctx, "Trace_ProxyState", traces, cfg="Trace_ProxyState.cfg")
    for tr, v in zip(traces, verdicts):
        if v:
            ctx.violation("%s [route=%s class=%s connected=%s ser=%s server=%s]" % (v, tr["route"], tr["class"], tr["connected"], tr["ser"], tr["server"]), tr)


def replay(ctx, path):
    print("E11 replay: rerun the check (all cases are enumerated)")
    return 0
