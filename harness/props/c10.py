"""C10 - a remote iterator delivers exactly the server's items, once, in order; the server forgets streams when it should.

MC    : Streams.tla (stream table with owner / creation / linger times; Prefix, ForgottenStaysGone, NoExpiredAfterHousekeeping).
Gen   : Gen_Streams.tla: scripts of open / next / close / disconnect / reconnect / housekeep / tick steps of two proxies.
Drive : a real daemon (thread server with explicit housekeeping; multiplex server, whose event loop runs housekeeping after
        every batch of events) and real Proxy / stream iterators over the in-memory transport with a virtual clock; all
        settings of ITER_STREAMING, ITER_STREAM_LIFETIME, ITER_STREAM_LINGER.
Trace : Trace_Streams.tla replays the run through the operators of Streams.tla (monitor).
"""
import json
import random

from .. import memnet, tlc, util
from .c03 import FaultLayer
from .. import sched as S

STRADDLE_CFG = """INIT SInit
NEXT SNext
CONSTANTS MaxLen = 1
  Lifetime = %d
  Linger = %d
CHECK_DEADLOCK FALSE
"""
GEN_CFG = """INIT Init
NEXT Next
CONSTANTS MaxLen = %d
  Lifetime = 0
  Linger = 0
CHECK_DEADLOCK FALSE
"""
MC_CFG = """SPECIFICATION Spec
CONSTANTS StreamIds = {1, 2}
  Conns = {1, 2}
  Lifetime = %d
  Linger = %d
  MaxTime = %d
  MaxLen = 2
INVARIANT Prefix
PROPERTY ForgottenStaysGone
PROPERTY NoExpiredAfterHousekeeping
PROPERTY NoItemPastDeadline
CHECK_DEADLOCK FALSE
"""


GATES = {}
KEEP = [True]       # the source object keeps what it has handed out (two scripts in three); otherwise a forgotten stream is really gone


def make_target():
    import Pyro5.api as P

    class Source(object):
        def __init__(self):
            self.handed_out = []          # the object keeps what it has handed out (to report progress, say)

        @P.expose
        def boom(self):
            streams = list(self.handed_out)     # (they are in reach of whatever looks at this frame)
            newest = streams[-1] if streams else None
            raise ValueError("another method of the object fails; it knows of %d streams, the newest is %s" % (len(streams), type(newest).__name__))

        @P.expose
        def gen(self, i, n, raise_at):
            def g():
                for j in range(1, n + 1):
                    if j == raise_at:
                        raise ValueError("generator failed")
                    yield i * 100 + j
                if raise_at == n + 1:
                    raise ValueError("generator failed at the end")
            it = g()
            self.handed_out = (self.handed_out[-5:] + [it]) if KEEP[0] else []
            self.newest = it if KEEP[0] else None
            return it

        @P.expose
        def slowgen(self, i, n, gate):
            """produces its second item only when the harness opens the gate (a fetch that stays in flight)"""
            def g():
                for j in range(1, n + 1):
                    if j == 2:
                        S.CUR.yield_point(lambda: GATES.get(gate, True))
                    yield i * 100 + j
            return g()

        @P.expose
        def lst(self, i, n):
            it = iter([i * 100 + j for j in range(1, n + 1)])
            self.handed_out = (self.handed_out[-5:] + [it]) if KEEP[0] else []
            self.newest = it if KEEP[0] else None
            return it

        @P.expose
        def ping(self):
            return 1
    return Source


def run_scripts(scripts, servertype, settings, unit=1):
    """unit: how many time units of the scripts and of the recorded traces make one second (10: tenths of a second)"""
    import Pyro5.api as P
    from Pyro5 import config, errors
    lifetime, linger, streaming = settings
    config.SERVERTYPE = servertype
    config.THREADPOOL_SIZE = 8
    config.THREADPOOL_SIZE_MIN = 1
    config.COMMTIMEOUT = 0.0
    config.ITER_STREAMING = streaming
    config.ITER_STREAM_LIFETIME = float(lifetime)
    config.ITER_STREAM_LINGER = float(linger)
    config.DETAILED_TRACEBACK = bool(linger)       # (with some of the settings error replies carry detailed tracebacks)
    traces = []
    implicit_hk = servertype == "multiplex"

    def main():
        sc = S.CUR
        sc.now = 1000.0
        class Guarded(P.Daemon):
            """lets in only who says the word (every proxy of these scripts does; so must whatever the library connects on its own)"""
            def validateHandshake(self, conn, data):
                if data != {"word": "let me in"}:
                    raise errors.SecurityError("this daemon wants the word")
                return "welcome"
        d = Guarded(host="127.0.0.1")
        uri = d.register(make_target()(), "src")
        drv = memnet.ServerDriver(d)
        import uuid
        from Pyro5 import callcontext
        for script in scripts:
            sc.set_budget(30000)
            d.streaming_responses.clear()
            KEEP[0] = len(traces) % 3 != 2
            # every other script's client marks all its calls with one correlation id of its own choosing
            callcontext.current_context.correlation_id = uuid.uuid4() if len(traces) % 2 else None
            tr = [{"e": "cfg", "lifetime": lifetime * unit, "linger": linger * unit, "streaming": streaming, "server": servertype}]
            proxies = {}
            conn = {}          # proxy -> connection incarnation (0 = not connected)
            ninc = [0]
            broken = {}        # proxy -> its connection was cut by the environment and it has not noticed yet
            its = {}           # stream index -> [iterator, proxy number, done]
            nstream = [0]

            def now():
                return int(round(sc.now * unit))

            def hk():
                if implicit_hk:
                    tr.append({"e": "Housekeep", "now": now(), "failed": drv.crashed is not None})

            def connect(p):
                if p not in proxies:
                    proxies[p] = P.Proxy(uri)
                    proxies[p]._pyroHandshake = {"word": "let me in"}
                    # (every other script's proxies are told to retry failed calls; a fetch is not something to be repeated)
                    proxies[p]._pyroMaxRetries = 2 if len(traces) % 2 else 0
                if proxies[p]._pyroConnection is None:
                    proxies[p]._pyroReconnect(tries=1)
                    ninc[0] += 1
                    conn[p] = ninc[0]
                    hk()

            def disconnect(p):
                if broken.get(p):
                    broken[p] = False
                    conn[p] = 0
                    proxies[p]._pyroRelease()
                    sc.quiesce()
                    return
                if p in proxies and proxies[p]._pyroConnection is not None:
                    proxies[p]._pyroRelease()
                    sc.quiesce()
                    tr.append({"e": "Disconnect", "c": conn[p], "now": now()})
                    conn[p] = 0
                    hk()
            try:
                for step in script:
                    a = step["a"]
                    if a in ("open", "close") and broken.get(step["p"] if a == "open" else its.get(step["i"], (None, 0, True))[1]):
                        # only a fetch is made to run into the cut connection; before anything else the client gets rid of it
                        disconnect(step["p"] if a == "open" else its[step["i"]][1])
                    if a == "open":
                        p = step["p"]
                        connect(p)
                        nstream[0] += 1
                        i = nstream[0]
                        src = step["src"]
                        try:
                            if src["raiseAt"] == 0 and i % 2 == 0:
                                it = proxies[p].lst(i, src["len"])
                            else:
                                it = proxies[p].gen(i, src["len"], src["raiseAt"])
                            ok = hasattr(it, "streamId")
                        except (S.Hang, S.SchedAbort):
                            raise
                        except Exception:
                            it, ok = None, False
                        its[i] = [it, p, not ok]
                        tr.append({"e": "Open", "i": i, "c": conn[p], "len": src["len"], "raiseAt": src["raiseAt"], "now": now(), "ok": ok})
                        hk()
                    elif a == "fail":
                        p = step["p"]
                        if broken.get(p):
                            disconnect(p)
                        connect(p)
                        try:
                            proxies[p].boom()
                        except (S.Hang, S.SchedAbort):
                            raise
                        except Exception:
                            pass
                        hk()
                    elif a == "break":
                        p = step["p"]
                        if p in proxies and proxies[p]._pyroConnection is not None and not broken.get(p):
                            proxies[p]._pyroConnection.sock.cut()      # the path is cut: the server notices at once, the client at its next request
                            sc.quiesce()
                            tr.append({"e": "Disconnect", "c": conn[p], "now": now()})
                            broken[p] = True
                            hk()
                    elif a == "losenext":
                        it, p, done = its.get(step["i"], (None, 0, True))
                        if done or it is None or proxies[p]._pyroConnection is None or broken.get(p):
                            continue
                        i = step["i"]
                        layer = FaultLayer()
                        memnet.NET.hook = layer
                        layer.arm("lose")
                        try:
                            next(it)
                            out = "item"
                        except StopIteration:
                            out = "stop"
                        except (S.Hang, S.SchedAbort):
                            raise
                        except errors.CommunicationError:
                            out = "commerror"
                        except Exception:
                            out = "other"
                        finally:
                            layer.disarm()
                            memnet.NET.hook = None
                        tr.append({"e": "LostNext", "i": i, "c": conn[p], "out": out, "now": now()})
                        hk()
                        if proxies[p]._pyroConnection is None:
                            # the client has dropped its connection because of the error
                            sc.quiesce()
                            tr.append({"e": "Disconnect", "c": conn[p], "now": now()})
                            conn[p] = 0
                            hk()
                    elif a == "next":
                        it, p, done = its.get(step["i"], (None, 0, True))
                        if done or it is None or proxies[p]._pyroConnection is None:
                            continue            # the client side refuses by itself: nothing reaches the server
                        i = step["i"]
                        if broken.get(p):
                            # the request cannot reach the server: the fetch must fail with a communication error, not end the stream
                            try:
                                next(it)
                                out = "item"
                            except StopIteration:
                                out = "stop"
                            except (S.Hang, S.SchedAbort):
                                raise
                            except errors.CommunicationError:
                                out = "commerror"
                            except Exception:
                                out = "other"
                            broken[p] = False
                            conn[p] = 0
                            if proxies[p]._pyroConnection is not None:
                                proxies[p]._pyroRelease()
                            tr.append({"e": "BrokenNext", "i": i, "out": out, "now": now()})
                            continue
                        try:
                            v = next(it)
                            out, item = "item", (v - i * 100 if isinstance(v, int) and v // 100 == i else 999)
                        except StopIteration:
                            out, item = "stop", 0
                            its[i][2] = True
                        except ValueError:
                            out, item = "raise", 0
                            its[i][2] = True
                        except (S.Hang, S.SchedAbort):
                            raise
                        except errors.CommunicationError:
                            out, item = "other", 0
                        except errors.PyroError:
                            out, item = "gone", 0
                            its[i][2] = True
                        except Exception:
                            out, item = "other", 0
                        tr.append({"e": "Next", "i": i, "c": conn[p], "out": out, "item": item, "now": now()})
                        hk()
                    elif a == "close":
                        it, p, done = its.get(step["i"], (None, 0, True))
                        if done or it is None:
                            continue
                        sent = proxies[p]._pyroConnection is not None
                        try:
                            it.close()
                            sc.quiesce()
                        except (S.Hang, S.SchedAbort):
                            raise
                        except Exception:
                            pass
                        its[step["i"]][2] = True
                        if sent:
                            tr.append({"e": "Close", "i": step["i"]})
                            hk()
                    elif a == "disconnect":
                        disconnect(step["p"])
                    elif a == "reconnect":
                        disconnect(step["p"])
                        connect(step["p"])
                    elif a == "housekeep":
                        try:
                            d._housekeeping()
                            tr.append({"e": "Housekeep", "now": now(), "failed": False})
                        except (S.Hang, S.SchedAbort):
                            raise
                        except Exception as x:
                            tr.append({"e": "Housekeep", "now": now(), "failed": True, "exc": type(x).__name__})
                    elif a == "tick":
                        sc.sleep(float(step["dt"]) / unit)
                sc.quiesce()
                tr.append({"e": "End", "size": len(d.streaming_responses)})
            except S.Hang:
                tr.append({"e": "Next", "i": 1, "c": 0, "out": "hang", "item": 0, "now": 0})
            # leave: client iterators must not send anything from their finalisers
            for it, p, done in its.values():
                if it is not None:
                    util.detach_iterator(it)
            for p in proxies.values():
                try:
                    p._pyroRelease()
                except Exception:
                    pass
            try:
                sc.quiesce()
            except S.Hang:
                pass
            traces.append(tr)
        callcontext.current_context.correlation_id = None
        drv.shutdown()
        d.close()
    memnet.run(main, max_steps=50000000)
    config.DETAILED_TRACEBACK = False
    if len(traces) < len(scripts):
        raise util.MachineryError("session ended early (%d of %d)" % (len(traces), len(scripts)))
    return traces


def run_orphans(settings, servertype):
    """the application keeps only the iterator: the proxy that made the call is referred to by nothing else (a helper function
    that returns the stream, `for x in Proxy(uri).numbers()`).  The stream must still deliver everything."""
    import gc
    import Pyro5.api as P
    from Pyro5 import config, errors
    lifetime, linger, streaming = settings
    config.SERVERTYPE = servertype
    config.THREADPOOL_SIZE = 8
    config.THREADPOOL_SIZE_MIN = 1
    config.COMMTIMEOUT = 0.0
    config.ITER_STREAMING = True
    config.ITER_STREAM_LIFETIME = float(lifetime)
    config.ITER_STREAM_LINGER = float(linger)
    traces = []

    def main():
        sc = S.CUR
        sc.now = 1000.0
        d = P.Daemon(host="127.0.0.1")
        uri = d.register(make_target()(), "src")
        drv = memnet.ServerDriver(d)
        for i, how in enumerate(("gen", "lst", "gen")):
            sc.set_budget(30000)
            d.streaming_responses.clear()
            tr = [{"e": "cfg", "lifetime": lifetime, "linger": linger, "streaming": True, "server": servertype}]

            def open_stream():
                p = P.Proxy(uri)
                return p.gen(1, 3, 0) if how == "gen" else p.lst(1, 3)
            try:
                it = open_stream()
                gc.collect()
                tr.append({"e": "Open", "i": 1, "c": 1, "len": 3, "raiseAt": 0, "now": int(sc.now), "ok": hasattr(it, "streamId")})
                for _ in range(4):
                    if i == 2:
                        gc.collect()
                    try:
                        v = next(it)
                        tr.append({"e": "Next", "i": 1, "c": 1, "out": "item", "item": v - 100 if isinstance(v, int) else 999, "now": int(sc.now)})
                    except StopIteration:
                        tr.append({"e": "Next", "i": 1, "c": 1, "out": "stop", "item": 0, "now": int(sc.now)})
                        break
                    except (S.Hang, S.SchedAbort):
                        raise
                    except errors.PyroError:
                        tr.append({"e": "Next", "i": 1, "c": 1, "out": "gone", "item": 0, "now": int(sc.now)})
                        break
                    except Exception:
                        tr.append({"e": "Next", "i": 1, "c": 1, "out": "other", "item": 0, "now": int(sc.now)})
                        break
                sc.quiesce()
                tr.append({"e": "End", "size": len(d.streaming_responses)})
                if getattr(it, "proxy", None) is not None:
                    try:
                        it.proxy._pyroRelease()
                    except Exception:
                        pass
                    util.detach_iterator(it)
                del it
                gc.collect()
                sc.quiesce()
            except S.Hang:
                tr.append({"e": "Next", "i": 1, "c": 0, "out": "hang", "item": 0, "now": 0})
            traces.append(tr)
        drv.shutdown()
        d.close()
    memnet.run(main, max_steps=5000000)
    if len(traces) < 3:
        raise util.MachineryError("orphan-iterator session ended early (%d of 3)" % len(traces))
    return traces


def run_overlap(variants, settings):
    """a fetch is in flight on one connection (thread server) while the stream is closed over another connection, or expires,
    or the daemon does its housekeeping; afterwards the stream must be gone for everybody.  Same trace format as run_scripts;
    the Close / Housekeep event is placed before or after the overlapped fetch according to what that fetch returned (either
    order is a legal linearisation)."""
    import Pyro5.api as P
    from Pyro5 import config, errors
    lifetime, linger, streaming = settings
    config.SERVERTYPE = "thread"
    config.THREADPOOL_SIZE = 8
    config.THREADPOOL_SIZE_MIN = 1
    config.COMMTIMEOUT = 0.0
    config.ITER_STREAMING = True
    config.ITER_STREAM_LIFETIME = float(lifetime)
    config.ITER_STREAM_LINGER = float(linger)
    traces = []

    def main():
        sc = S.CUR
        sc.now = 1000.0
        d = P.Daemon(host="127.0.0.1")
        uri = d.register(make_target()(), "src")
        drv = memnet.ServerDriver(d)
        for vi, how in enumerate(variants):
            sc.set_budget(30000)
            d.streaming_responses.clear()
            gate = "g%d" % vi
            GATES[gate] = False
            tr = [{"e": "cfg", "lifetime": lifetime, "linger": linger, "streaming": True, "server": "thread"}]

            def now():
                return int(sc.now)

            def fetch(it, i, c):
                try:
                    v = next(it)
                    return {"e": "Next", "i": i, "c": c, "out": "item", "item": v - i * 100, "now": now()}
                except StopIteration:
                    return {"e": "Next", "i": i, "c": c, "out": "stop", "item": 0, "now": now()}
                except (S.Hang, S.SchedAbort):
                    raise
                except errors.CommunicationError:
                    return {"e": "Next", "i": i, "c": c, "out": "other", "item": 0, "now": now()}
                except errors.PyroError:
                    return {"e": "Next", "i": i, "c": c, "out": "gone", "item": 0, "now": now()}
                except Exception:
                    return {"e": "Next", "i": i, "c": c, "out": "other", "item": 0, "now": now()}
            p1 = p2 = None
            try:
                p1 = P.Proxy(uri)
                p2 = P.Proxy("PYRO:Pyro.Daemon@" + d.locationStr)
                p2._pyroBind()
                it = p1.slowgen(1, 3, gate)
                tr.append({"e": "Open", "i": 1, "c": 1, "len": 3, "raiseAt": 0, "now": now(), "ok": hasattr(it, "streamId")})
                tr.append(fetch(it, 1, 1))
                box = {}

                def overlapped():
                    p1._pyroClaimOwnership()
                    t0 = now()
                    ev = fetch(it, 1, 1)
                    if ev["out"] == "item":
                        ev["now"] = t0        # the daemon took the request up when it arrived; the item was merely slow in coming
                    box["ev"] = ev
                sc.spawn(sc.fresh_name("fetcher"), overlapped)
                sc.quiesce()                      # the fetch is in flight now, parked inside the generator
                if how == "close_other_conn":
                    p2.close_stream(it.streamId)
                    mid = {"e": "Close", "i": 1}
                elif how == "expire":
                    sc.sleep(float(lifetime) + 1.0)
                    d._housekeeping()
                    mid = {"e": "Housekeep", "now": now(), "failed": False}
                else:
                    d._housekeeping()
                    mid = {"e": "Housekeep", "now": now(), "failed": False}
                GATES[gate] = True
                sc.yield_point(lambda: "ev" in box)
                sc.quiesce()
                p1._pyroClaimOwnership()
                # a fetch that still delivered its item happened before the close / expiry; one that failed, after it
                tr += [box["ev"], mid] if box["ev"]["out"] == "item" else [mid, box["ev"]]
                tr.append(fetch(it, 1, 1))
                tr.append(fetch(it, 1, 1))
                util.detach_iterator(it)
                sc.quiesce()
                tr.append({"e": "End", "size": len(d.streaming_responses)})
            except S.Hang:
                tr.append({"e": "Next", "i": 1, "c": 0, "out": "hang", "item": 0, "now": 0})
            for p in (p1, p2):
                try:
                    if p is not None:
                        p._pyroRelease()
                except Exception:
                    pass
            try:
                sc.quiesce()
            except S.Hang:
                pass
            traces.append(tr)
        drv.shutdown()
        d.close()
    res, sched = memnet.run(main, max_steps=5000000)
    if len(traces) < len(variants):
        raise util.MachineryError("overlap session ended early (%d of %d) %r" % (len(traces), len(variants), sched.errors[:2]))
    return traces


def run(ctx):
    memnet.install()
    ctx.rule = ("cases = (script of open/next/close/disconnect/reconnect/housekeep/tick steps from Gen_Streams) x (lifetime, linger, streaming) "
                "settings x server type; distinct_nontrivial = distinct (script, settings, server) with at least one disconnect, close or "
                "housekeeping step after a stream was opened")
    ctx.assumptions = ["time inside Pyro5.server is the scheduler's virtual clock; the periodic housekeeper thread is replaced by explicit "
                       "housekeeping steps (thread server) or follows every batch of events (multiplex server, as in the code)",
                       "a client whose proxy is not connected refuses next() locally; such steps are not sent"]
    tlc.mc(ctx, "Streams", cfg_text=MC_CFG % (3, 2, ctx.pick(4, 5)), timeout=1800)
    tlc.mc(ctx, "Streams", cfg_text=MC_CFG % (0, 0, 2))
    s3 = tlc.gen(ctx, "Gen_Streams", cfg_text=GEN_CFG % 3)
    walks = tlc.gen(ctx, "Gen_Streams", cfg_text=GEN_CFG % 12, workers=1,
                    extra=("-simulate", "num=%d" % ctx.pick(350, 5000), "-depth", "14", "-seed", str(ctx.seed + 10)))
    if len(s3) < 3000 or len(walks) < 300:
        raise util.MachineryError("script generation incomplete")
    rng = random.Random(ctx.seed + 10)
    rng.shuffle(s3)
    scripts = s3[:ctx.pick(250, 4000)] + walks
    settings = [(0, 0, True), (0, 4, True), (8, 0, True), (8, 4, True), (0, 4, False)]
    traces, metas = [], []
    for st in ("thread", "multiplex"):
        for k, sett in enumerate(settings):
            js = [s for i, s in enumerate(scripts) if not ctx.quick or (i + k + (st == "multiplex")) % 3 == 0]
            if not sett[2]:
                js = js[:40]
            traces += run_scripts(js, st, sett)
            metas += [{"script": s, "settings": sett, "server": st} for s in js]
    # housekeeping shortly before and shortly after a deadline (time in tenths of a second)
    for sett in ((0, 4, True), (8, 0, True), (8, 4, True)):
        sts = tlc.gen(ctx, "Gen_Streams", cfg_text=STRADDLE_CFG % (sett[0], sett[1]))
        if len(sts) < 8:
            raise util.MachineryError("straddle scripts incomplete")
        for st in ("thread", "multiplex"):
            traces += run_scripts(sts, st, sett, unit=10)
            metas += [{"script": s, "settings": sett, "server": st, "unit": 10} for s in sts]
    # a fetch in flight while the stream is closed over another connection / expires / housekeeping runs (thread server)
    for sett, variants in (((0, 0, True), ["close_other_conn", "housekeep"]), ((0, 4, True), ["close_other_conn", "housekeep"]),
                           ((8, 4, True), ["close_other_conn", "expire", "housekeep"]), ((8, 0, True), ["expire", "close_other_conn"])):
        otr = run_overlap(variants, sett)
        traces += otr
        metas += [{"script": [{"a": "overlap:" + v}], "settings": sett, "server": "thread", "overlap": v} for v in variants]
    # the proxy that made the call is kept by nobody but the iterator
    for st in ("thread", "multiplex"):
        otr = run_orphans((0, 0, True), st)
        traces += otr
        metas += [{"script": [{"a": "orphan-iterator"}], "settings": (0, 0, True), "server": st} for _ in otr]
    for m in metas:
        acts = [s["a"] for s in m["script"]]
        nontriv = "open" in acts and any(a in ("disconnect", "reconnect", "close", "housekeep") for a in acts[acts.index("open"):])
        ctx.count(json.dumps(m, sort_keys=True) if nontriv else None)
    for i in (3, len(traces) // 2, len(traces) - 1):
        ctx.sample({"scenario": metas[i], "trace": traces[i]})
    verdicts, _ = tlc.validate(ctx, "Trace_Streams", traces, cfg="Trace_Streams.cfg", batch=5000)
    outs = {}
    for tr in traces:
        for e in tr:
            if e["e"] == "Next":
                outs[e["out"]] = outs.get(e["out"], 0) + 1
            elif e["e"] == "LostNext":
                outs["lost"] = outs.get("lost", 0) + 1
    for tr, m, v in zip(traces, metas, verdicts):
        if v:
            ctx.violation("%s [lifetime=%s linger=%s server=%s]" % (v, m["settings"][0], m["settings"][1], m["server"]), {"scenario": m, "trace": tr})
    if not ctx.violations and not all(outs.get(k, 0) > 10 for k in ("item", "stop", "raise", "gone", "lost")):
        raise util.MachineryError("vacuity: fetch outcomes seen %s" % outs)
    ctx.extra["fetch_outcomes"] = outs


def replay(ctx, path):
    memnet.install()
    rep = json.load(open(path))
    bad = 0
    for case in rep["cases"]:
        m = case["scenario"]
        tr = run_overlap([m["overlap"]], tuple(m["settings"]))[0] if m.get("overlap") else run_scripts([m["script"]], m["server"], tuple(m["settings"]), unit=m.get("unit", 1))[0]
        v, _ = tlc.validate(ctx, "Trace_Streams", [tr], cfg="Trace_Streams.cfg")
        print("replay:", m["settings"], m["server"], "->", v[0] or "accepted")
        for e in tr:
            print("   ", e)
        bad += bool(v[0])
    if bad:
        print("VIOLATION property=%s replay=%s" % (ctx.prop, path))
    return 1 if bad else 0
