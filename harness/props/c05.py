"""C05 - no client input can stop the daemon or disturb other clients.

MC    : Daemon.tla (LoopAlive, Accounting, OpenUntouched under arbitrary client items).
Gen   : Gen_Hostile.tla enumerates attack scripts: two attackers sending hostile items (before or after a handshake),
        attacker disconnects, witness calls and fresh connections, interleaved in every order up to a length.
Drive : real daemon of both server types, with and without COMMTIMEOUT, and a thread server whose pool is exhausted (the accept
        loop then reads the newcomer's first message itself); hostile items are structure-aware mutations of valid INVOKE and
        CONNECT messages built with the real SendingMessage (every header field at its boundary values in rotation, negative
        chunk lengths, truncations followed by close, reset or - under COMMTIMEOUT - silence); the witness is a real Proxy
        connected all along.
Trace : Trace_Daemon.tla (clauses C05.*).
"""
import json
import random
import threading

from .. import daemonlab as L
from .. import memnet, tlc, util
from .. import sched as S
from . import c08

GEN_CFG = """INIT Init
NEXT Next
CONSTANTS MaxLen = %d
CHECK_DEADLOCK FALSE
"""


class StrRaises(Exception):
    def __str__(self):
        raise RuntimeError("str() of this exception fails")

    __repr__ = __str__


class StrOnlyRaises(Exception):
    """cannot be turned into text, but can be shown with repr()"""
    def __str__(self):
        raise RuntimeError("str() of this exception fails")


def make_target(lab):
    P = lab.P

    class Target(object):
        def echo(self, x):
            return x

        def gen(self, n):
            # (any iterator may be a streamed result: a generator, the iterator of a list, a map object)
            return rotate("genkind", [lambda: (i for i in range(n)), lambda: iter(list(range(n))), lambda: map(int, range(n))])()

        def boom(self, kind):
            if kind == "plain":
                raise ValueError("plain failure")
            if kind == "unser":
                x = KeyError("unserializable attribute")
                x.lock = threading.Lock()
                x.fn = lambda: 1
                raise x
            if kind == "syntax":
                x = SyntaxError("the source the method looked at is broken")
                x.text = 5           # (not text: what formats the traceback stumbles over it)
                x.lineno = "three"
                raise x
            if kind == "strraise":
                raise rotate("strclass", [StrRaises, StrOnlyRaises, StrOnlyRaises])("boom")
            raise ZeroDivisionError(kind)

        @P.callback
        def cboom(self, kind):
            # a method marked as a callback: what it raises is also raised in the thread that serves the request
            return self.boom(kind)

        @P.oneway
        def oboom(self, kind):
            raise ValueError("oneway failure")

        def _secret(self):
            lab.log.append({"e": "Exec", "c": lab.conn_of_context(), "obj": "target", "m": "_secret"})
            return "secret"

        def fail(self, name):
            # a method of the application may raise any Exception subclass - also one of Pyro's own error classes
            raise own_error(name)
    for name in OWN_ERRORS:
        def getter(self, name=name):
            raise own_error(name)

        def setter(self, value, name=name):
            raise own_error(name)
        setattr(Target, "status_" + name, property(getter, setter))
    return P.expose(Target)


OWN_ERRORS = ["TimeoutError", "ConnectionClosedError", "ProtocolError", "SecurityError", "CommunicationError", "SerializeError",
              "KeyError"]


def own_error(name):
    from Pyro5 import errors
    return getattr(errors, name, None)("raised by the application") if hasattr(errors, name) else KeyError("raised by the application")


def raising_call(w, keep=False):
    """a well-behaved client calls something whose own code raises: that exception - class and text - is the correct reply to the
    call (a proxy drops its own connection when what it is given is one of Pyro's communication errors, so whether the
    connection is still there afterwards says nothing about the daemon)"""
    how = rotate("wraise_how", ["method", "getter", "setter", "getter"])
    # keep: the client cannot afford to lose its connection (the pool is exhausted, it would not get in again), so the error
    # is not one that makes a proxy drop its connection by itself
    name = rotate("wraise_keep", ["SecurityError", "KeyError"]) if keep else rotate("wraise_name", OWN_ERRORS)
    try:
        if how == "method":
            w.fail(name)
        elif how == "getter":
            getattr(w, "status_" + name)
        else:
            setattr(w, "status_" + name, 1)
    except (S.Hang, S.SchedAbort):
        raise
    except Exception as x:
        return type(x).__name__ == name and "raised by the application" in str(x)
    return False


ROT = {}
BLACKHOLE = [9]      # port of a listener that accepts connections and never says anything


def rotate(key, values):
    """boundary values are used in rotation, so that each of them is certain to be tried"""
    ROT[key] = ROT.get(key, -1) + 1
    return values[ROT[key] % len(values)]


HEADER_FIELDS = [(4, "!H"), (6, "!B"), (7, "!B"), (8, "!H"), (10, "!H"), (12, "!I"), (16, "!I"), (36, "!H"), (38, "!H")]


def boundary(fmt):
    bits = {"!B": 8, "!H": 16, "!I": 32}[fmt]
    top = (1 << bits) - 1
    return [0, 1, top, top - 1, 1 << (bits - 1), (1 << (bits - 1)) - 1, top - 7, top - 15]


def hostile_bytes(item, ser, rng, seq, base="invoke"):
    """base: the valid message the structural mutations start from (an INVOKE, or the CONNECT that opens a connection)"""
    from Pyro5 import protocol, serializers
    s = serializers.serializers[ser]
    ann = {"ABCD": b"xyz", "EFGH": b""}
    mtype = protocol.MSG_INVOKE if base == "invoke" else protocol.MSG_CONNECT
    if base == "invoke":
        req = L.invoke_msg("target", "echo", [1], ser=ser, seq=seq, annotations=ann)
    else:
        req = L.build(protocol.MSG_CONNECT, 0, seq, s.serializer_id, s.dumps({"handshake": "hello", "object": "target"}), annotations=ann)
    hdr = 40
    annsize = sum(8 + len(v) for v in ann.values())

    def inv(obj, m, args=(), flags=0, kwargs=None):
        return L.invoke_msg(obj, m, list(args), kwargs, flags=flags, ser=ser, seq=seq)
    close = False
    if item == "garbage":
        n = rng.choice([1, 7, 40, 41, 200, 12, 39])
        data = bytes(rng.randrange(256) for _ in range(n))
        close = n < 40           # less than a header: a partial message, so it ends with a disconnect
        if n in (12, 39):
            # ... or it does not: something that is plainly not this protocol (the first bytes say so) and shorter than a header,
            # from a peer that then just waits - it is turned away as it is, nobody waits for the rest of a header
            data = rng.choice([b"GET / HTTP/1.0\r\n\r\n", b"SSH-2.0-OpenSSH_9.2\r\n"])[:n] + bytes(max(0, n - 18))
            data = data[:n]
            close = False
    elif item == "bad_version":
        data = L.patch(req, 4, "!H", rng.choice([0, 501, 503, 0xffff]))
    elif item == "bad_magic":
        data = L.patch(req, 38, "!H", rng.choice([0, 0x4dc4, 0xffff]))
    elif item == "oversized":
        data = L.patch(req, 12, "!I", rng.choice([0xfffffff0, 0x7fffffff, 0x40000001]))
    elif item == "datalen_short":
        # the declared payload is shorter than what follows; the surplus plus padding is read as the next (bogus) header
        data = L.patch(req, 12, "!I", max(0, len(req) - hdr - annsize - rng.choice([1, 2, 9]))) + b"\x00" * 40
    elif item == "ann_overrun":
        data = L.patch(req, 44, "!I", rng.choice([4, 100, 0xffffffff]))
    elif item == "ann_negative":
        # chunk lengths that are negative when read as signed, in particular -8: the parser must not go backwards or stand still
        data = L.patch(req, 44, "!I", rotate("annneg", [0xfffffff8, 0xffffffff, 0xfffffff0, 0x80000000, 0xfffffffc, 0xfffffff7, 0xfffffff9]))
    elif item == "hdr_boundary":
        off, fmt = rotate("hdrfield", HEADER_FIELDS)
        data = L.patch(req, off, fmt, rotate("hdrval%d" % off, boundary(fmt)))
        if off == 12 or off == 16:
            data += b"\x00" * 40      # a length field that is too small leaves a surplus that is read as the next header
    elif item in ("trunc_reset", "stall_partial"):
        data = req[:rotate(item, [1, 5, 6, 20, 39, 40, 41, 40 + annsize - 1, 40 + annsize, 40 + annsize + 1, len(req) - 1])]
        close = "reset" if item == "trunc_reset" else "stall"
    elif item == "reset_idle":
        data = b""
        close = "reset"
    elif item == "valid_then_reset":
        data = req
        close = "reset_after"
    elif item == "stream_abandon":
        data = inv("target", "gen", [4])
        close = "abandon"
    elif item == "ann_badid":
        data = req[:40] + b"\xff\xfe\xfd\xfc" + req[44:]
    elif item == "ann_len_mismatch":
        d = rng.choice([-3, -1, 1, 5])
        data = L.patch(L.patch(req, 16, "!I", annsize + d), 12, "!I", len(req) - hdr - annsize - d)
    elif item == "unknown_serializer":
        data = L.patch(req, 7, "!B", rng.choice([0, 5, 99, 255]))
    elif item == "unknown_msgtype":
        data = L.patch(req, 6, "!B", rng.choice([0, 2, 3, 5, 7, 99, 255]))
    elif item == "undecodable_payload":
        junk = bytes(rng.randrange(256) for _ in range(30))
        if ser == "marshal":
            # (random bytes can start like a marshal container with a length of 2**31: decoding that keeps the interpreter busy
            # for minutes inside one C call - a property of the marshal module, not of the daemon, and it would make this check
            # depend on the speed of the machine; an unknown type code is refused at once)
            junk = b"\x01" + junk[1:]
        data = L.build(mtype, rng.choice([0, protocol.FLAGS_COMPRESSED]), seq, s.serializer_id, junk)
        if data[8:10] != b"\x00\x02" and rng.random() < 0.5:
            data = L.patch(data, 8, "!H", protocol.FLAGS_COMPRESSED)       # claims to be compressed, is not
    elif item == "payload_trailing":
        first = s.dumpsCall("target", "echo", ["first"], {})
        second = s.dumpsCall("target", "echo", ["SMUGGLED"], {})
        data = L.build(mtype, 0, seq, s.serializer_id, bytes(first) + bytes(second))
    elif item == "payload_proxy_shape":
        # (the location named in the proxy is one where somebody listens who never answers: whoever contacts it is kept waiting)
        px = {"__class__": "Pyro5.client.Proxy", "state": ["PYRO:obj@127.0.0.1:%d" % BLACKHOLE[0], [], [], [], "hello", None]}
        which = rotate("proxyshape", [0, 1, 2, 3, 4, 4])
        if which == 4:
            # a proxy (or a uri) as an ordinary argument, whose uri text is long and almost - not quite - well formed: telling that
            # it is not must not take for ever
            text = rotate("hardtext", ["PYRO:echo@[" + "a" * 100 + "!]:1", "PYRO:echo@[" + "1:" * 60 + "]:x", "PYRONAME:" + "n" * 3000 + "@" + "h" * 3000 + ":",
                                       "PYROMETA:" + ",".join(["t"] * 500) + "@[::" + ":" * 80 + "]", "PYRO:" + "o" * 5000 + "@" + "[" * 50 + "]" * 50 + ":1"])
            hard = rotate("hardkind", [{"__class__": "Pyro5.client.Proxy", "state": [text, [], [], [], "hello", None]},
                                       {"__class__": "Pyro5.core.URI", "state": ["PYRO", "o", None, text, 1]}])
            data = inv("target", "echo", [hard]) if base != "connect" else L.build(mtype, 0, seq, s.serializer_id,
                                                                                      s.dumps({"handshake": hard, "object": "target"}))
            return data, close
        if base == "connect":
            payload = s.dumps([px, {"handshake": px, "object": "target"}, {"handshake": "hello", "object": px}, px][which])
        elif ser == "serpent":
            payload = s.dumps([("target", "echo", px, {}), ("target", "echo", [1], px), px, ("target", px, [1], {})][which])
        elif ser == "json":
            payload = s.dumps([{"object": "target", "method": "echo", "params": px, "kwargs": {}},
                               {"object": "target", "method": "echo", "params": [1], "kwargs": px}, px,
                               {"object": "target", "method": px, "params": [1], "kwargs": {}}][which])
        else:
            payload = s.dumps([["target", "echo", px, {}], ["target", "echo", [1], px], px, ["target", px, [1], {}]][which])
        data = L.build(mtype, 0, seq, s.serializer_id, payload)
    elif item == "payload_wrong_shape":
        data = L.build(mtype, 0, seq, s.serializer_id, s.dumps(rng.choice([42, "text", [1, 2], {"a": 1}, None])))
    elif item.startswith("trunc_"):
        lo, hi = {"trunc_prefix_close": (1, 5), "trunc_header_close": (6, 39), "trunc_ann_close": (40, 40 + annsize - 1),
                  "trunc_payload_close": (40 + annsize, len(req) - 1)}[item]
        data = req[:rng.randint(lo, hi)]
        close = True
    elif item == "unknown_object":
        data = inv("no-such-object", "echo", [1])
    elif item == "unknown_member":
        if rotate("unknownkind", [0, 1, 0, 2]) == 0:
            data = inv("target", rng.choice(["nothing", "echo.__class__", "", "é"]), [1])
        else:
            # an attribute request whose "name" is not text but a proxy (for a place where nobody listens): whatever looks at the
            # name must not look *into* it
            import Pyro5.api as _P
            px = _P.Proxy("PYRO:nobody@127.0.0.1:%d" % BLACKHOLE[0])     # (somebody accepts there and never says a word)
            data = inv("target", "__getattr__" if ROT["unknownkind"] % 4 == 1 else "__setattr__", [px] if ROT["unknownkind"] % 4 == 1 else [px, 1])
    elif item == "private_member":
        data = inv("target", rng.choice(["_secret", "__init__", "__class__", "__dict__"]), [])
    elif item == "raises_plain":
        data = inv("target", rotate("boomplain", ["boom", "cboom"]), ["plain"])
    elif item == "raises_unserializable":
        data = inv("target", "boom", ["unser"])
    elif item == "raises_str_raises":
        data = inv("target", rotate("boomstr", ["cboom", "boom", "cboom"]), [rotate("strkind", ["strraise", "syntax", "strraise"])])
    elif item == "raises_in_oneway":
        data = inv("target", "oboom", ["x"], flags=protocol.FLAGS_ONEWAY)
    elif item == "raises_in_batch":
        data = inv("target", "<batch>", [("echo", (1,), {}), ("boom", ("plain",), {}), ("echo", (2,), {})], flags=protocol.FLAGS_BATCH)
    elif item == "security_payload":
        data = L.build(protocol.MSG_INVOKE, 0, seq, s.serializer_id,
                       s.dumpsCall("target", "echo", [{"__class__": "builtins.__import__", "x": 1}], {}))
    elif item == "huge_batch_shape":
        data = inv("target", "<batch>", [1, 2, 3], flags=protocol.FLAGS_BATCH)
    else:
        raise util.MachineryError("hostile item " + item)
    return data, close


SPIN_ENOUGH = 3


class Attacker:
    def __init__(self):
        self.rc = None
        self.seq = 0


def run_scripts(scripts, servertype, timeout, seed, full=False):
    """full: thread server whose pool is exhausted by the witness and a second well-behaved client, so that every further
    connection is refused by the accept loop itself, which reads the newcomer's first message inline"""
    rng = random.Random(seed)
    traces = []

    def fresh_lab():
        lab = L.Lab(servertype=servertype, commtimeout=timeout, poolsize=2 if full else 8)
        lab.daemon.register(make_target(lab)(), "target")
        hole = lab.net.create_socket(bind=("127.0.0.1", 0))
        lab.blackhole = hole
        BLACKHOLE[0] = hole.addr[1]
        # streamed results: with a communication timeout configured they also get a lifetime and a linger period
        lab.config.ITER_STREAM_LIFETIME = 1.0 if timeout else 0.0
        lab.config.ITER_STREAM_LINGER = 0.5 if timeout else 0.0
        return lab

    nscript = [0]

    def main():
        sc = S.CUR
        lab = fresh_lab()
        P = lab.P
        for script, ser in scripts:
            if getattr(sc, "spins", 0) >= SPIN_ENOUGH:
                # serving threads that never come back have been seen (and reported) several times in this session; every further
                # one costs the watchdog's full waiting time, and nothing new would be learnt
                break
            lab.base = len(lab.net.socks)
            lab.log = []
            sc.set_budget(6000)
            util.set_marker("C05 script %s server=%s ser=%s" % ([("pre:" if st.get("pre") else "") + st.get("item", st["a"]) for st in script], servertype, ser))
            hang = False
            broken = False
            witness_ok = fresh_ok = True
            # the application's disconnect hook fails in every third script (both servers log that and go on)
            nscript[0] += 1
            lab.hook_raises = nscript[0] % 3 == 2
            lab.config.LOGWIRE = nscript[0] % 2 == 1     # (every other script with wire-level logging switched on)
            att = {1: Attacker(), 2: Attacker()}
            stalled = []
            w = blocker = None
            tok = [100]

            def wcall():
                tok[0] += 1
                try:
                    return w.echo(tok[0]) == tok[0] and raising_call(w, keep=full) and w.echo([tok[0], "x"]) == [tok[0], "x"]
                except (S.Hang, S.SchedAbort):
                    raise
                except Exception:
                    return False

            def fresh():
                try:
                    with P.Proxy(lab.daemon.uriFor("target")) as q:
                        q._pyroSerializer = ser
                        r = q.echo("fresh")
                    sc.quiesce()
                    return r == "fresh"
                except (S.Hang, S.SchedAbort):
                    raise
                except Exception:
                    return False

            def stay_active(duration):
                """let virtual time pass while the well-behaved clients keep talking (an idle connection would itself time out)"""
                nonlocal witness_ok
                t = 0.0
                while t < duration:
                    sc.sleep(1.0)
                    t += 1.0
                    witness_ok = wcall() and witness_ok
                    if blocker is not None:
                        try:
                            blocker.echo(0)
                        except (S.Hang, S.SchedAbort):
                            raise
                        except Exception:
                            witness_ok = False

            def drop(a):
                if a.rc is not None:
                    a.rc.close()
                    a.rc = None
            try:
                w = P.Proxy(lab.daemon.uriFor("target"))
                w._pyroSerializer = ser
                w._pyroBind()
                lab.log.append({"e": "First", "c": 1, "accept": True, "mustreason": False})
                if full:
                    blocker = P.Proxy(lab.daemon.uriFor("target"))
                    blocker._pyroSerializer = ser
                    blocker._pyroBind()
                    lab.log.append({"e": "First", "c": 2, "accept": True, "mustreason": False})
                    sc.quiesce()
                    if lab.server_connections() != 2:
                        raise util.MachineryError("the worker pool is not exhausted (%d busy)" % lab.server_connections())
                for step in script:
                    a = step["a"]
                    if a == "attack" and full:
                        # the pool is exhausted: whatever arrives first on a new connection is read by the accept loop
                        at = att[step["who"]]
                        at.rc = lab.raw()
                        at.seq = 1
                        lab.log.append({"e": "First", "c": at.rc.cid, "accept": False, "mustreason": False})
                        data, close = hostile_bytes(step["item"], ser, rng, at.seq, base="connect" if step["pre"] else "invoke")
                        at.rc.send(data)
                        if close == "reset_after":
                            at.rc.sock.peer.reset_after_drain = True     # the bytes stay readable; every answer fails
                        elif close == "reset":
                            at.rc.abort()
                        elif close == "abandon":
                            at.rc.close()
                        elif close == "stall" and timeout:
                            stay_active(timeout + 1.0)       # silence: the server's own timeout must end the read
                            stalled.append(at.rc)            # ... and the silent peer stays connected until the end of the script
                            lab.log.append({"e": "Ended", "c": at.rc.cid})
                            at.rc = None
                            continue
                        elif close:
                            at.rc.close()
                        sc.quiesce()
                        lab.log.append({"e": "Ended", "c": at.rc.cid})
                        drop(at)
                        sc.quiesce()
                    elif a == "fresh" and full:
                        fresh()         # refused for lack of workers; it must not hang or hurt anybody
                    elif a == "attack":
                        at = att[step["who"]]
                        if at.rc is not None and at.rc.server_closed():
                            drop(at)
                        newconn = at.rc is None
                        if newconn:
                            at.rc = lab.raw()
                            at.seq = 0
                            if not step["pre"]:
                                lab.log.append({"e": "First", "c": at.rc.cid, "accept": True, "mustreason": False})
                                at.rc.send(L.connect_msg("target", "hello", ser))
                                sc.quiesce()
                            else:
                                lab.log.append({"e": "First", "c": at.rc.cid, "accept": False, "mustreason": False})
                        at.seq += 1
                        data, close = hostile_bytes(step["item"], ser, rng, at.seq,
                                                    base="connect" if newconn and step["pre"] and rng.random() < 0.5 else "invoke")
                        at.rc.send(data)
                        if close == "stall" and timeout:
                            stay_active(timeout + 1.0)       # silence: the server's own timeout must end the read
                        elif close:
                            if close == "reset_after":
                                at.rc.sock.peer.reset_after_drain = True
                                sc.quiesce()
                                at.rc.close()
                            elif close == "reset":
                                at.rc.abort()
                            elif close == "abandon":
                                sc.quiesce()                 # the stream exists on the server now
                                at.rc.close()
                                sc.quiesce()
                                sc.sleep(1.6)                # ... and outlives both its lifetime and its linger period before
                                stay_active(1.0)             # the daemon does its housekeeping again
                            else:
                                at.rc.close()
                            lab.log.append({"e": "Ended", "c": at.rc.cid})
                            at.rc = None
                        sc.quiesce()
                        if at.rc is not None and at.rc.server_closed():
                            lab.log.append({"e": "Ended", "c": at.rc.cid})
                    elif a in ("aclose1", "aclose2"):
                        at = att[1 if a == "aclose1" else 2]
                        if at.rc is not None:
                            lab.log.append({"e": "Ended", "c": at.rc.cid})
                            drop(at)
                            sc.quiesce()
                    elif a == "wcall":
                        witness_ok = wcall() and witness_ok
                    elif a == "fresh":
                        fresh_ok = fresh() and fresh_ok
                if stalled:
                    # a worker becomes free while the silent peers are still connected: a new client must get in
                    lab.log.append({"e": "Ended", "c": 2})
                    blocker._pyroRelease()
                    blocker = None
                    sc.quiesce()
                    fresh_ok = fresh() and fresh_ok
                    for rc in stalled:
                        rc.close()
                    sc.quiesce()
                # afterwards: attackers leave, the witness still gets its own answers, new clients are accepted
                for at in att.values():
                    if at.rc is not None:
                        lab.log.append({"e": "Ended", "c": at.rc.cid})
                        drop(at)
                sc.quiesce()
                if blocker is not None:
                    lab.log.append({"e": "Ended", "c": 2})
                    blocker._pyroRelease()
                    blocker = None
                    sc.quiesce()
                if timeout:
                    sc.sleep(0.5)
                witness_ok = wcall() and witness_ok
                fresh_ok = fresh() and fresh_ok
                sc.quiesce()
                lab.log.append({"e": "Snap", "c": 1, "srvclosed": w._pyroConnection is None or w._pyroConnection.sock.peer.closed,
                                "first": "ok", "reason": False, "mustreason": False, "checkfirst": False, "alive_sessions": 0})
            except S.Hang:
                hang = True
            except (S.SchedAbort, util.MachineryError):
                raise
            except Exception as x:
                # a well-behaved client could not even connect, or one of its steps failed in a way the script does not expect
                # (what an earlier script left behind in the daemon shows here): that client was disturbed
                witness_ok = False
                lab.log.append({"e": "Note", "what": "%s: %s" % (type(x).__name__, str(x)[:120])})
                hang = hang or False
                broken = True
            lab.log.append({"e": "End", "slots": lab.server_connections(), "open": 1, "loop_alive": lab.driver.crashed is None,
                            "witness_ok": bool(witness_ok), "fresh_ok": bool(fresh_ok), "hang": hang,
                            "crash": repr(lab.driver.crashed)[:100] if lab.driver.crashed is not None else ""})
            traces.append([e for e in lab.log if e["e"] not in ("Hook", "Validate")][:300])
            try:
                if w is not None:
                    w._pyroRelease()
                if blocker is not None:
                    blocker._pyroRelease()
                for at in att.values():
                    drop(at)
                sc.quiesce()
            except S.Hang:
                hang = True
            if hang or broken or lab.driver.crashed is not None or lab.server_connections() != 0:
                lab.close()
                lab = fresh_lab()
        lab.close()
    res, sc = memnet.run(main, max_steps=20000000)
    if len(traces) < len(scripts) and getattr(sc, "spins", 0) < SPIN_ENOUGH:
        raise util.MachineryError("scheduler session ended early (%d of %d scripts)" % (len(traces), len(scripts)))
    return traces


def run(ctx):
    memnet.install()
    ctx.rule = ("cases = attack script (interleaving of hostile items from two attackers, their disconnects, witness calls and fresh "
                "connections; items = structure-aware mutations of valid messages) x serializer x server type x COMMTIMEOUT on/off; "
                "distinct_nontrivial = distinct (script, serializer, server, timeout)")
    ctx.assumptions = ["without COMMTIMEOUT a truncated message is always followed by a disconnect or reset (a silent stall blocks the "
                       "single-threaded multiplex server by design and is outside the statement); with COMMTIMEOUT set, silent stalls are "
                       "generated and the server's own timeout must end them",
                       "an injected SpinDetected (a server thread that ran 20 s of real time without reaching a blocking operation) counts as "
                       "that thread being stopped or stranded",
                       "nothing is required of what the attacker itself receives"]
    tlc.mc(ctx, "Daemon", cfg_text=c08.MC_CFG % (c08.SAMPLES[0], ctx.pick(8, 9)))
    tlc.mc(ctx, "Daemon", cfg_text=c08.MC_CFG % (c08.SAMPLES[1], ctx.pick(8, 9)))
    s1 = tlc.gen(ctx, "Gen_Hostile", cfg_text=GEN_CFG % 1)
    s2 = tlc.gen(ctx, "Gen_Hostile", cfg_text=GEN_CFG % 2)
    if len(s1) != 144 or len(s2) < 10000:
        raise util.MachineryError("attack script generation incomplete")
    walks = tlc.gen(ctx, "Gen_Hostile", cfg_text=GEN_CFG % 5, workers=1,
                    extra=("-simulate", "num=%d" % ctx.pick(500, 6000), "-depth", "7", "-seed", str(ctx.seed + 5)))
    rng = random.Random(ctx.seed + 5)
    rng.shuffle(s2)
    scripts = s1 + s2[:ctx.pick(500, 6000)] + walks
    sers = ["serpent", "json", "marshal", "msgpack"]
    traces, metas = [], []
    for st in ("multiplex", "thread"):
        for tmo in (0.0, 3.0):
            js = [(s, sers[(i + (st == "thread") + (tmo > 0)) % 4]) for i, s in enumerate(scripts)
                  if not ctx.quick or (i + (st == "thread") * 2 + (tmo > 0)) % 4 in (0, 1) or i < 132]
            if ctx.quick and tmo:
                js = js[:len(s1)] + js[len(s1)::3]      # every single-item script in every configuration
            got = run_scripts(js, st, tmo, ctx.seed)
            traces += got
            metas += [{"script": s, "ser": ser, "server": st, "timeout": tmo} for s, ser in js][:len(got)]
    # the thread server with an exhausted pool: the accept loop itself reads the first message of every refused connection
    def attacks(s):
        return any(st["a"] == "attack" for st in s)
    full_scripts = [s for s in s1 if attacks(s)] + [s for s in scripts[len(s1):] if attacks(s)][::ctx.pick(8, 2)]
    for tmo in (0.0, 3.0):
        js = [(s, sers[(i + (tmo > 0)) % 4]) for i, s in enumerate(full_scripts)]
        got = run_scripts(js, "thread", tmo, ctx.seed, full=True)
        traces += got
        metas += [{"script": s, "ser": ser, "server": "thread", "timeout": tmo, "full": True} for s, ser in js][:len(got)]
    # thread-pool server: a connection (a garbage-sending one, or a well-behaved one) ends and the next client arrives while the
    # worker is handing itself back; the worker is held back after each of its steps in turn
    for hostile in (True, False):
        for tr, m in L.handover_traces(ctx, hostile=hostile):
            traces.append(tr)
            metas.append(dict(m, script=[{"a": "attack", "pre": True, "item": "garbage" if hostile else "none"}], ser="serpent", server="thread",
                              timeout=0.0, handover=True))
    for m in metas:
        ctx.count(json.dumps(m, sort_keys=True))
    for i in (0, len(traces) // 2, len(traces) - 1):
        ctx.sample({"scenario": metas[i], "trace": traces[i]})
    verdicts, _ = tlc.validate(ctx, "Trace_Daemon", traces, cfg="Trace_Daemon.cfg", batch=5000)
    for tr, m, v in zip(traces, metas, verdicts):
        v05 = v.split("|")[2]
        if v05:
            items = sorted({("pre:" if s["pre"] else "") + s["item"] for s in m["script"] if s["a"] == "attack"})
            ctx.violation("%s [server=%s%s timeout=%s items=%s]" % (v05, m["server"], " pool-exhausted" if m.get("full") else "",
                                                                  "on" if m["timeout"] else "off", ",".join(items)[:80]),
                          {"scenario": m, "trace": tr})


def replay(ctx, path):
    memnet.install()
    rep = json.load(open(path))
    bad = 0
    for case in rep["cases"]:
        m = case["scenario"]
        if m.get("handover"):
            print("replay of hand-over schedules: rerun the check (the schedules are re-explored)")
            bad += 1
            continue
        tr = run_scripts([(m["script"], m["ser"])], m["server"], m["timeout"], ctx.seed, full=m.get("full", False))[0]
        v, _ = tlc.validate(ctx, "Trace_Daemon", [tr], cfg="Trace_Daemon.cfg")
        print("replay:", m["script"], m["ser"], m["server"], "->", v[0].split("|")[2] or "accepted")
        for e in tr:
            print("   ", e)
        bad += bool(v[0].split("|")[2])
    if bad:
        print("VIOLATION property=%s replay=%s" % (ctx.prop, path))
    return 1 if bad else 0
