"""E03 (extra, beyond the listed properties) - name resolution: what a PYRO / PYRONAME / PYROMETA uri resolves to.

MC    : Resolve.tla (AtMostOneByName, NoFallback) over every set of up to two registrations x every query.
Gen   : Gen_Resolve.tla emits those cases with the set of targets the model allows.
Drive : two real name servers (the default one and one at an explicit location) and two real target daemons over the
        in-memory transport, under the virtual clock; registrations appear at their times; Pyro5.core.resolve and a Proxy made
        from the same uri are exercised.
Trace : Trace_Resolve.tla (monitor) recomputes what is allowed from the recorded registrations and query.
"""
import json
import random

from .. import memnet, tlc, util
from .. import sched as S

CONSTS = """CONSTANTS Names = {"n1", "n2"}
  Tags = {"t1", "t2"}
  Targets = {"A", "B"}
"""
NS_PORTS = {"default": 9090, "other": 9191}
UNIX_NS = "e03-nameserver.sock"


def uri_text(q, target_loc, flavour=0):
    """flavour: the other name server is reached over tcp (0) or over a Unix socket (1)"""
    where = "" if q["where"] == "default" else ("@127.0.0.1:%d" % NS_PORTS["other"] if flavour == 0 else "@./u:" + UNIX_NS)
    if q["kind"] == "PYRO":
        return "PYRO:obj@" + target_loc[q["target"]]
    if q["kind"] == "PYRONAME":
        return "PYRONAME:" + q["name"] + where
    return "PYROMETA:" + ",".join(sorted(q["tags"])) + where


def run_cases(cases):
    import Pyro5.api as P
    from Pyro5 import config, core, errors, nameserver
    nameserver.time = S.VTime
    config.SERVERTYPE = "multiplex"
    config.NS_HOST = "127.0.0.1"
    config.NS_PORT = NS_PORTS["default"]
    config.NS_AUTOCLEAN = 0.0
    config.COMMTIMEOUT = 0.0
    traces = []

    def main():
        sc = S.CUR
        targets, drivers, target_loc = {}, [], {}
        for t in ("A", "B"):
            d = P.Daemon(host="127.0.0.1")

            @P.expose
            class Target(object):
                def __init__(self, t):
                    self.t = t

                def who(self):
                    return self.t
            d.register(Target(t), "obj")
            targets[t] = d
            target_loc[t] = d.locationStr
            drivers.append(memnet.ServerDriver(d))
        nsd = {}
        for w, port in NS_PORTS.items():
            nsd[w] = nameserver.NameServerDaemon(host="127.0.0.1", port=port)
            drivers.append(memnet.ServerDriver(nsd[w]))
        nsd["other_unix"] = nameserver.NameServerDaemon(unixsocket=UNIX_NS)
        drivers.append(memnet.ServerDriver(nsd["other_unix"]))
        flavour = [0]

        def ns_of(w):
            return nsd["other_unix"] if (w == "other" and flavour[0] == 1) else nsd[w]
        loc_target = {v: k for k, v in target_loc.items()}

        def arrange(regs):
            """empty both name servers, put the registrations that exist from the start, start a thread for the later ones"""
            for w in nsd:
                ns = nsd[w].nameserver
                for name in list(ns.list()):
                    if name != core.NAMESERVER_NAME:
                        ns.remove(name)
            late = [r for r in regs if r["at"] > 0]
            for r in regs:
                if r["at"] == 0:
                    ns_of(r["ns"]).nameserver.register(r["name"], "PYRO:obj@" + target_loc[r["target"]], metadata=set(r["tags"]))
            done = [not late]
            if late:
                def later():
                    t0 = sc.now
                    for r in sorted(late, key=lambda r: r["at"]):
                        sc.sleep(max(0.0, t0 + r["at"] - sc.now))
                        ns_of(r["ns"]).nameserver.register(r["name"], "PYRO:obj@" + target_loc[r["target"]], metadata=set(r["tags"]))
                    done[0] = True
                sc.spawn(sc.fresh_name("late"), later)
            return done

        def classify(fn):
            try:
                res = fn()
            except (S.Hang, S.SchedAbort):
                raise
            except errors.NamingError:
                return "NamingError", ""
            except Exception as x:
                return "error:" + type(x).__name__, ""
            return res

        for case_no, case in enumerate(cases):
            sc.set_budget(400000)
            q = case["q"]
            flavour[0] = case_no % 2
            text = uri_text(q, target_loc, flavour[0])
            rec = {"regs": case["regs"], "q": q, "uri": text, "out": "", "target": "", "proxy_out": "", "proxy_target": ""}
            try:
                # (1) the resolve function
                done = arrange(case["regs"])
                config.NS_LOOKUP_DELAY = 0.0

                def via_resolve():
                    r = core.resolve(text, delay_time=q["delay"]) if q["delay"] else core.resolve(text)
                    if isinstance(r, core.URI) and r.protocol == "PYRO" and r.object == "obj" and r.location in loc_target:
                        return "target", loc_target[r.location]
                    return "other", repr(r)[:60]
                rec["out"], rec["target"] = classify(via_resolve)
                sc.yield_point(lambda: done[0])
                sc.quiesce()
                # (2) a proxy made from the same uri (the waiting time is a configuration item there)
                done = arrange(case["regs"])
                config.NS_LOOKUP_DELAY = float(q["delay"])

                def via_proxy():
                    with P.Proxy(text) as p:
                        who = p.who()
                    return ("target", who) if who in ("A", "B") else ("other", repr(who)[:60])
                rec["proxy_out"], rec["proxy_target"] = classify(via_proxy)
                config.NS_LOOKUP_DELAY = 0.0
                sc.yield_point(lambda: done[0])
                sc.quiesce()
            except S.Hang:
                rec["out"] = "hang"
            traces.append(rec)
        for dv in drivers:
            dv.shutdown()
        for d in list(targets.values()) + list(nsd.values()):
            d.close()
    memnet.run(main, max_steps=400000000)
    if len(traces) < len(cases):
        raise util.MachineryError("session ended early (%d of %d)" % (len(traces), len(cases)))
    return traces


def run(ctx):
    memnet.install()
    ctx.rule = ("cases = (set of up to two registrations: name server, name, target, tags, present from the start or appearing after 2 s) x "
                "(query: PYRO, PYRONAME or PYROMETA uri, default or explicit name server location, waiting time 0 or 3 s), each through "
                "core.resolve and through a Proxy; distinct_nontrivial = distinct cases in which a registration decides the outcome")
    ctx.assumptions = ["both name servers are running; the default one is found through NS_HOST/NS_PORT (no broadcast lookup)",
                       "virtual clock: the registration thread and the waiting resolver are scheduled deterministically"]
    tlc.mc(ctx, "Resolve", cfg="MC_Resolve.cfg")
    cases = tlc.gen(ctx, "Gen_Resolve", cfg="Gen_Resolve.cfg")
    if len(cases) < 20000:
        raise util.MachineryError("case generation incomplete (%d)" % len(cases))
    rng = random.Random(ctx.seed + 303)
    rng.shuffle(cases)
    # cases in which somebody waits for a registration that appears later are the rare ones: keep them all in front
    waiting = [c for c in cases if c["q"]["delay"] and any(r["at"] for r in c["regs"])]
    rest = [c for c in cases if not (c["q"]["delay"] and any(r["at"] for r in c["regs"]))]
    cases = waiting[:ctx.pick(400, 100000)] + rest[:ctx.pick(900, 100000)]
    traces = run_cases(cases)
    for c in cases:
        ctx.count(json.dumps(c, sort_keys=True) if c["allowed"] else None)
    ctx.sample({"case": traces[0]})
    ctx.sample({"case": traces[-1]})
    verdicts, _ = tlc.validate(ctx, "Trace_Resolve", traces, cfg="Trace_Resolve.cfg", batch=4000)
    for c, tr, v in zip(cases, traces, verdicts):
        if v:
            q = c["q"]
            ctx.violation("%s [kind=%s where=%s delay=%s late=%s]" % (v, q["kind"], q["where"], q["delay"], any(r["at"] for r in c["regs"])),
                          {"case": c, "trace": tr})


def replay(ctx, path):
    memnet.install()
    rep = json.load(open(path))
    bad = 0
    for case in rep["cases"]:
        tr = run_cases([case["case"]])[0]
        v, _ = tlc.validate(ctx, "Trace_Resolve", [tr], cfg="Trace_Resolve.cfg")
        print("replay:", tr["uri"], tr["out"], tr["target"], tr["proxy_out"], tr["proxy_target"], "->", v[0] or "accepted")
        bad += bool(v[0])
    if bad:
        print("VIOLATION property=%s replay=%s" % (ctx.prop, path))
    return 1 if bad else 0
