"""C12 - per-call context never leaks between calls or clients.

MC    : Context.tla (thread-local response annotations and call context; AnnOwn, CtxOwn).
Gen   : Gen_Ctx.tla enumerates histories of requests from two clients (annotation-setting, raising, oneway, batch, ping,
        attribute access, stream result, unknown member, reconnect).
Drive : raw clients (so that every reply is seen with its annotations) against a real daemon: multiplex (one thread serves
        everybody), thread pool of size 1 (the worker is reused by the next connection) and of size 3; plus a Proxy pass for
        the client-side clause.  Methods snapshot the call context they see.
Trace : Trace_Ctx.tla (monitor).
"""
import json
import random
import uuid

from .. import daemonlab as L
from .. import memnet, tlc, util
from .. import sched as S

GEN_CFG = """INIT Init
NEXT Next
CONSTANTS MaxLen = %d
CHECK_DEADLOCK FALSE
"""
MC_CFG = """SPECIFICATION Spec
CONSTANTS Clients = {1, 2}
  Threads = {%s}
  MaxReq = %d
  ClearAtStart = TRUE
INVARIANT AnnOwn
INVARIANT CtxOwn
CHECK_DEADLOCK FALSE
"""
SLOW = {"setann": "slow_setann", "setann_inplace": "slow_inplace", "plain": "slow_plain", "oneway_setann": "oneway_slow",
        "oneway_inplace": "oneway_slow_inplace"}
INNER = {"uri": None}       # an object in a second daemon that methods of the target call
SETS = {"nested_setann", "slow_setann", "slow_inplace", "oneway_slow", "oneway_slow_inplace", "setann", "setann_inplace", "setann_raise", "batch_setann", "batch_raise", "getattr_setann", "stream_setann", "oneway_setann", "oneway_inplace"}


def akey(tok):
    return "A%03d" % tok


def make_target(lab):
    P = lab.P
    from Pyro5 import protocol
    cc = lab.current_context

    def snap(tok=None):
        ann = [int(k[1:]) for k in cc.annotations if k.startswith("R")]
        rtok = ann[0] if len(ann) == 1 else -1
        if tok is None:
            tok = rtok
        if not ann and not [k for k in cc.annotations if k.startswith("H")]:
            rtok = tok          # a request without annotations: nothing to see is what it must see
        elif not ann:
            rtok = -1           # ... but it sees what somebody else left behind
        conn = cc.client
        c = lab.conn_of_sock(conn.sock) if conn is not None else 0
        # the peer address the method can read is that of its own connection (or unknown), never somebody else's
        if conn is not None and cc.client_sock_addr is not None and tuple(cc.client_sock_addr) != tuple(getattr(conn.sock, "raddr", cc.client_sock_addr)):
            c = -1
        sk = getattr(conn, "sock", None)
        if conn is not None and cc.client_sock_addr is None and sk is not None \
                and not (getattr(sk, "closed", False) or getattr(sk, "reset", False) or getattr(sk, "reset_after_drain", False)):
            c = -1          # "unknown" is what a connection that is gone gives; this one is alive
        corr = cc.correlation_id.int if cc.correlation_id is not None and cc.correlation_id.int < 100000 else -1
        lab.log.append({"e": "Exec", "tok": tok, "c": c, "seq": cc.seq, "reqann": rtok, "corr": corr, "ser": cc.serializer_id,
                        "oneway": bool(cc.msg_flags & protocol.FLAGS_ONEWAY)})
        return tok

    class Target(object):
        def setann(self, tok):
            snap(tok)
            cc.response_annotations = {akey(tok): b"v"}
            return tok

        def setann_inplace(self, tok):
            snap(tok)
            cc.response_annotations[akey(tok)] = b"v"
            return tok

        def setann_raise(self, tok):
            snap(tok)
            cc.response_annotations = {akey(tok): b"v"}
            raise ValueError(tok)

        def plain(self, tok):
            snap(tok)
            return tok

        def nested_setann(self, tok):
            # sets its own annotation, then - before it returns - calls an object of another daemon, whose method sets one too
            # (for the reply to *that* call)
            snap(tok)
            cc.response_annotations = {akey(tok): b"v"}
            with P.Proxy(INNER["uri"]) as q:
                q.mark(tok + 500)
            return tok

        def mutate_reqann(self, tok):
            snap(tok)
            cc.annotations["H%03d" % tok] = b"hop"       # e.g. a hop marker added before calling on
            return tok

        @P.oneway
        def oplain(self, tok):
            snap(tok)

        def boom(self, tok):
            snap(tok)
            raise KeyError(tok)

        @P.oneway
        def osetann(self, tok):
            snap(tok)
            cc.response_annotations = {akey(tok): b"v"}

        @P.oneway
        def osetann_inplace(self, tok):
            snap(tok)
            cc.response_annotations[akey(tok)] = b"v"

        @property
        def prop(self):
            tok = snap(None)
            cc.response_annotations = {akey(tok): b"v"}
            return tok

        def stream(self, tok):
            snap(tok)
            cc.response_annotations = {akey(tok): b"v"}
            return iter([1, 2, 3])

        # variants that give way to other threads in the middle (concurrent pass): the context must still be their own afterwards
        def slow_setann(self, tok):
            snap(tok)
            S.CUR.yield_point()
            cc.response_annotations = {akey(tok): b"v"}
            S.CUR.yield_point()
            snap(tok)
            return tok

        def slow_inplace(self, tok):
            snap(tok)
            S.CUR.yield_point()
            cc.response_annotations[akey(tok)] = b"v"
            S.CUR.yield_point()
            snap(tok)
            return tok

        def slow_plain(self, tok):
            snap(tok)
            S.CUR.yield_point()
            S.CUR.yield_point()
            snap(tok)
            return tok

        @P.oneway
        def oslow_setann(self, tok):
            snap(tok)
            S.CUR.yield_point()
            cc.response_annotations = {akey(tok): b"v"}
            S.CUR.yield_point()
            snap(tok)

        @P.oneway
        def oslow_inplace(self, tok):
            snap(tok)
            S.CUR.yield_point()
            cc.response_annotations[akey(tok)] = b"v"
            S.CUR.yield_point()
            snap(tok)
    return P.expose(Target)


def has_corr(tok):
    return tok % 3 != 2        # every third request travels without a correlation id: the daemon must give it a fresh one


def request_bytes(kind, tok, seq, ser):
    from Pyro5 import protocol
    from Pyro5.callcontext import current_context
    ann = {"R%03d" % tok: b"r"}
    saved = current_context.correlation_id
    current_context.correlation_id = uuid.UUID(int=tok) if has_corr(tok) else None
    try:
        def inv(m, args, flags=0):
            from Pyro5 import serializers
            s = serializers.serializers[ser]
            return bytes(protocol.SendingMessage(protocol.MSG_INVOKE, flags, seq, s.serializer_id,
                                                 s.dumpsCall("target", m, list(args), {}), annotations=ann).data)
        if kind == "mutate_reqann":
            if tok % 2:
                ann.clear()         # every other time the request itself carries no annotations
            return inv(kind, [tok])
        if kind in ("setann", "setann_inplace", "setann_raise", "plain", "slow_setann", "slow_inplace", "slow_plain", "nested_setann"):
            return inv(kind, [tok])
        if kind == "plain_noann":
            ann.clear()
            return inv("plain", [tok])
        if kind == "oneway_then_reset":
            return inv("oplain", [tok], protocol.FLAGS_ONEWAY)
        if kind == "oneway_slow":
            return inv("oslow_setann", [tok], protocol.FLAGS_ONEWAY)
        if kind == "oneway_slow_inplace":
            return inv("oslow_inplace", [tok], protocol.FLAGS_ONEWAY)
        if kind == "raise":
            return inv("boom", [tok])
        if kind == "oneway_setann":
            return inv("osetann", [tok], protocol.FLAGS_ONEWAY)
        if kind == "oneway_inplace":
            return inv("osetann_inplace", [tok], protocol.FLAGS_ONEWAY)
        if kind == "batch_setann":
            return inv("<batch>", [("plain", (tok,), {}), ("setann", (tok,), {})], protocol.FLAGS_BATCH)
        if kind == "batch_raise":
            return inv("<batch>", [("setann", (tok,), {}), ("boom", (tok,), {})], protocol.FLAGS_BATCH)
        if kind == "getattr_setann":
            return inv("__getattr__", ["prop"])
        if kind == "stream_setann":
            return inv("stream", [tok])
        if kind == "unknown_member":
            return inv("no_such_member", [tok])
        if kind == "ping":
            return bytes(protocol.SendingMessage(protocol.MSG_PING, 0, seq, 42, b"ping", annotations=ann).data)
        raise util.MachineryError("kind " + kind)
    finally:
        current_context.correlation_id = saved


def tokens_of(ann):
    return sorted(int(k[1:]) for k in ann if k.startswith("A") and k[1:].isdigit())


def run_scripts(scripts, mode, seed, concurrent=False):
    """mode: multiplex | thread1 (pool of one worker, one client connected at a time) | thread3
    concurrent: consecutive requests of different clients are sent together, the methods give way to other threads in the
    middle, and the scheduler picks the next thread at random (seeded)"""
    from Pyro5 import protocol, serializers
    traces = []
    servertype = "multiplex" if mode == "multiplex" else "thread"

    def main():
        sc = S.CUR
        inner = None
        if any(st["kind"] == "nested_setann" for script, _ in scripts for st in script):
            # a second daemon (thread-pool server) with an object whose method sets a response annotation for its own reply
            import Pyro5.api as P2
            from Pyro5 import config as _config
            from Pyro5.callcontext import current_context as _cc
            _config.SERVERTYPE = "thread"

            class Inner(object):
                def mark(self, tok):
                    _cc.response_annotations = {akey(tok): b"v"}
                    return tok
            d2 = P2.Daemon(host="127.0.0.1")
            INNER["uri"] = d2.register(P2.expose(Inner)(), "inner")
            inner = (d2, memnet.ServerDriver(d2))
        lab = L.Lab(servertype=servertype, poolsize=1 if mode == "thread1" else 3)
        lab.daemon_annotations = {"DDDD": b"d"}
        lab.annotations_stored = True       # the daemon's hook returns the same dict object every time
        lab.daemon.register(make_target(lab)(), "target")
        for script, ser in scripts:
            lab.base = len(lab.net.socks)
            lab.log = []
            sc.set_budget(6000)
            lab.config.LOGWIRE = len(traces) % 2 == 1    # (every other history with wire-level logging switched on)
            ser_id = serializers.serializers[ser].serializer_id
            clients = {}
            seqs = {1: 0, 2: 0}
            tok = 0
            hang = False

            def collect(c):
                rc = clients.get(c)
                if rc is None:
                    return
                for r in rc.drain():
                    kind = {protocol.MSG_CONNECTOK: "connect", protocol.MSG_CONNECTFAIL: "connect", protocol.MSG_RESULT: "result",
                            protocol.MSG_PING: "ping"}.get(r["type"], "other")
                    lab.log.append({"e": "Reply", "c": rc.cid, "seq": r["seq"], "kind": kind, "anns": tokens_of(r["ann"])})
                rc.replies = []

            def connect(c):
                if mode == "thread1":
                    for o in list(clients):
                        if o != c:
                            collect(o)
                            clients.pop(o).close()
                            sc.quiesce()
                rc = lab.raw()
                clients[c] = rc
                seqs[c] = 0
                rc.send(L.connect_msg("target", "hello", ser, seq=0))
                sc.quiesce()
                collect(c)
            try:
                pending = None
                steps = list(script)
                if concurrent:
                    steps = [dict(st, kind=SLOW.get(st["kind"], st["kind"])) for st in steps]
                for si, step in enumerate(steps):
                    c, kind = step["c"], step["kind"]
                    if kind == "reconnect":
                        if c in clients:
                            collect(c)
                            clients.pop(c).close()
                            sc.quiesce()
                        connect(c)
                        continue
                    if c not in clients or clients[c].server_closed():
                        clients.pop(c, None)
                        connect(c)
                    tok += 1
                    seqs[c] += 1
                    rc = clients[c]
                    lab.log.append({"e": "Req", "c": rc.cid, "tok": tok, "seq": seqs[c], "sets": kind in SETS, "kind": kind, "ser": ser_id,
                                    "oneway": kind.startswith("oneway"), "corr": tok if has_corr(tok) else -1})
                    rc.send(request_bytes(kind, tok, seqs[c], ser))
                    if kind == "oneway_then_reset":
                        # the request is in the daemon's buffer, then the connection is reset: the bytes stay readable, the peer is gone
                        rc.sock.peer.reset_after_drain = True
                        sc.quiesce()
                        collect(c)
                        clients.pop(c).close()
                        sc.quiesce()
                        continue
                    nxt = steps[si + 1] if si + 1 < len(steps) else None
                    if concurrent and pending is None and nxt is not None and nxt["c"] != c and nxt["kind"] != "reconnect" \
                            and nxt["c"] in clients and not clients[nxt["c"]].server_closed():
                        pending = c         # the next client's request goes out before this one has been answered
                        continue
                    sc.quiesce()
                    collect(c)
                    if pending is not None:
                        collect(pending)
                        pending = None
                # one more plain request and a ping per client: nothing may ride on them
                for c in list(clients):
                    for kind in ("plain", "ping"):
                        tok += 1
                        seqs[c] += 1
                        rc = clients[c]
                        lab.log.append({"e": "Req", "c": rc.cid, "tok": tok, "seq": seqs[c], "sets": False, "kind": kind, "ser": ser_id, "oneway": False,
                                        "corr": tok if has_corr(tok) else -1})
                        rc.send(request_bytes(kind, tok, seqs[c], ser))
                        sc.quiesce()
                        collect(c)
                # and a brand new client's handshake
                connect(3)
            except S.Hang:
                hang = True
            tr = list(lab.log)[:300]
            if hang:
                tr.append({"e": "Hang"})
            traces.append(tr)
            for rc in clients.values():
                rc.close()
            try:
                sc.quiesce()
            except S.Hang:
                hang = True
            if hang or lab.driver.crashed is not None:
                lab.close()
                lab = L.Lab(servertype=servertype, poolsize=1 if mode == "thread1" else 3)
                lab.daemon_annotations = {"DDDD": b"d"}
                lab.annotations_stored = True
                lab.daemon.register(make_target(lab)(), "target")
        lab.close()
        if inner is not None:
            inner[1].shutdown()
            inner[0].close()
    if concurrent:
        res, sc = memnet.run(main, chooser=S.RandomChooser(random.Random(seed * 7919 + 12)), max_steps=40000000)
    else:
        res, sc = memnet.run(main, max_steps=20000000)
    if len(traces) < len(scripts):
        raise util.MachineryError("scheduler session ended early (%d of %d)" % (len(traces), len(scripts)))
    return traces


def run_proxy_scripts(scripts):
    """client-side clause: two real proxies in one thread; after each call the client-side response annotations are read"""
    traces = []

    def main():
        sc = S.CUR
        lab = L.Lab(servertype="multiplex")
        lab.daemon.register(make_target(lab)(), "target")
        lab.handshake_annotation = True
        P = lab.P
        cc = lab.current_context
        for script_no, (script, ser) in enumerate(scripts):
            lab.log = []
            sc.set_budget(6000)
            proxies = {}
            held = {}
            tok = 0
            tr = []
            try:
                for step in script:
                    c, kind = step["c"], step["kind"]
                    if kind == "reconnect":
                        if c in proxies:
                            proxies[c]._pyroRelease()       # the next call connects again by itself (the proxy knows the metadata already)
                        continue
                    if kind in ("getattr_setann", "unknown_member", "setann_inplace", "oneway_inplace", "ping",
                                "plain_noann", "mutate_reqann", "oneway_then_reset"):
                        continue
                    if c not in proxies:
                        proxies[c] = P.Proxy(lab.daemon.uriFor("target"))
                        proxies[c]._pyroSerializer = ser
                        if script_no % 2:
                            proxies[c]._pyroBind()          # otherwise the first call connects by itself
                    p = proxies[c]
                    tok += 1
                    cc.annotations = {"R%03d" % tok: b"r"}
                    cc.correlation_id = uuid.UUID(int=tok)
                    try:
                        if kind == "setann":
                            p.setann(tok)
                        elif kind == "setann_raise":
                            p.setann_raise(tok)
                        elif kind == "plain":
                            p.plain(tok)
                        elif kind == "stream_setann":
                            # the streamed result is kept, unread, in the variable that takes the result of this client's next call
                            held[c] = p.stream(tok)
                            continue
                        elif kind == "raise":
                            p.boom(tok)
                        elif kind == "oneway_setann":
                            p.osetann(tok)
                            sc.quiesce()
                        elif kind in ("batch_setann", "batch_raise"):
                            b = P.BatchProxy(p)
                            b.plain(tok)
                            b.setann(tok)
                            if kind == "batch_raise":
                                b.boom(tok)
                            list(b())
                    except (S.Hang, S.SchedAbort):
                        raise
                    except Exception:
                        pass
                    held.pop(c, None)       # (`x = p.call()`: what x held before - an unread streamed result - is dropped now)
                    tr.append({"e": "Saw", "tok": tok, "anns": tokens_of(cc.response_annotations), "hs": "HSHK" in cc.response_annotations})
            except S.Hang:
                tr.append({"e": "Hang"})
            except (S.SchedAbort, util.MachineryError):
                raise
            except Exception as x:
                # (a proxy that cannot even connect: nothing to observe on the client side in this script)
                tr.append({"e": "Note", "what": "%s: %s" % (type(x).__name__, str(x)[:100])})
            cc.annotations = {}
            cc.correlation_id = None
            for p in proxies.values():
                p._pyroRelease()
            sc.quiesce()
            traces.append(tr)
        lab.close()
    memnet.run(main, max_steps=20000000)
    if len(traces) < len(scripts):
        raise util.MachineryError("proxy session ended early")
    return traces


def run(ctx):
    memnet.install()
    ctx.rule = ("cases = (history of requests from two clients, from Gen_Ctx) x server mode (multiplex / thread pool of 1 / of 3) x serializer, "
                "plus a Proxy pass for the client-side clause; distinct_nontrivial = distinct (history, mode, serializer) in which at "
                "least one method sets a response annotation")
    ctx.assumptions = ["annotation keys encode the request token; raw clients see every reply with all its annotations",
                       "in the sequential passes server threads run to quiescence between client steps; the concurrent pass overlaps the requests of "
                       "two clients with methods that yield in the middle under a seeded random thread choice (switches at blocking "
                       "operations and at those yields, not at every source line)"]
    tlc.mc(ctx, "Context", cfg_text=MC_CFG % ("1", 5))
    tlc.mc(ctx, "Context", cfg_text=MC_CFG % ("1, 2", ctx.pick(4, 5)))
    s1 = tlc.gen(ctx, "Gen_Ctx", cfg_text=GEN_CFG % 1)
    s2 = tlc.gen(ctx, "Gen_Ctx", cfg_text=GEN_CFG % 2)
    s3 = tlc.gen(ctx, "Gen_Ctx", cfg_text=GEN_CFG % 3)
    if len(s2) != 34 * 34 or len(s3) != 34 ** 3:
        raise util.MachineryError("history generation incomplete")
    rng = random.Random(ctx.seed + 12)
    rng.shuffle(s3)
    scripts = s1 + s2 + s3[:ctx.pick(600, 8000)]
    if not ctx.quick:
        scripts += tlc.gen(ctx, "Gen_Ctx", cfg_text=GEN_CFG % 6, workers=1, extra=("-simulate", "num=2000", "-depth", "8", "-seed", str(ctx.seed)))
    sers = ["serpent", "json", "marshal", "msgpack"]
    traces, metas = [], []
    for mi, mode in enumerate(("multiplex", "thread1", "thread3")):
        js = [(s, sers[(i + mi) % 4]) for i, s in enumerate(scripts) if not ctx.quick or mode != "thread3" or i % 3 == 0]
        traces += run_scripts(js, mode, ctx.seed)
        metas += [{"script": s, "ser": ser, "mode": mode} for s, ser in js]
    # concurrent pass: overlapping requests of two clients, methods that give way in the middle, random thread choice
    conc = [s for s in scripts if len({st["c"] for st in s}) > 1][:ctx.pick(500, 6000)]
    for mi, mode in enumerate(("multiplex", "thread3")):
        js = [(s, sers[(i + mi) % 4]) for i, s in enumerate(conc)]
        traces += run_scripts(js, mode, ctx.seed, concurrent=True)
        metas += [{"script": s, "ser": ser, "mode": mode, "concurrent": True} for s, ser in js]
    # a method that makes a Pyro call of its own before it returns (its own family of runs: what it shows is a known finding)
    for mode in ("multiplex", "thread1", "thread3"):
        js = [([{"c": 1, "kind": "nested_setann"}], ser) for ser in sers]
        traces += run_scripts(js, mode, ctx.seed)
        metas += [{"script": s, "ser": ser, "mode": mode, "nested": True} for s, ser in js]
    pj = [(s, sers[i % 4]) for i, s in enumerate(scripts)]
    traces += run_proxy_scripts(pj)
    metas += [{"script": s, "ser": ser, "mode": "proxy"} for s, ser in pj]
    for m in metas:
        ctx.count(json.dumps(m, sort_keys=True) if any(st["kind"] in SETS for st in m["script"]) else None)
    for i in (5, len(traces) // 2, len(traces) - 1):
        ctx.sample({"scenario": metas[i], "trace": traces[i]})
    verdicts, _ = tlc.validate(ctx, "Trace_Ctx", traces, cfg="Trace_Ctx.cfg", batch=5000)
    nann = sum(1 for tr in traces for e in tr if e["e"] == "Reply" and e["anns"])
    for tr, m, v in zip(traces, metas, verdicts):
        if any(e["e"] == "Hang" for e in tr):
            v = v or "C12.Hang"
        if v:
            kinds = [s["kind"] for s in m["script"]]
            ctx.violation("%s [mode=%s%s%s]" % (v, m["mode"], " concurrent" if m.get("concurrent") else "", " nested-call" if m.get("nested") else ""),
                          {"scenario": m, "kinds": kinds, "trace": tr})
    if not ctx.violations and nann < 100:
        raise util.MachineryError("vacuity: only %d replies carried a method annotation" % nann)
    ctx.extra["replies_with_method_annotation"] = nann


def replay(ctx, path):
    memnet.install()
    rep = json.load(open(path))
    bad = 0
    for case in rep["cases"]:
        m = case["scenario"]
        if m["mode"] == "proxy":
            tr = run_proxy_scripts([(m["script"], m["ser"])])[0]
        else:
            tr = run_scripts([(m["script"], m["ser"])], m["mode"], ctx.seed, concurrent=m.get("concurrent", False))[0]
        v, _ = tlc.validate(ctx, "Trace_Ctx", [tr], cfg="Trace_Ctx.cfg")
        print("replay:", [(s["c"], s["kind"]) for s in m["script"]], m["mode"], "->", v[0] or "accepted")
        for e in tr:
            print("   ", e)
        bad += bool(v[0])
    if bad:
        print("VIOLATION property=%s replay=%s" % (ctx.prop, path))
    return 1 if bad else 0
