"""E08 (extra, beyond the listed properties) - configuration items set from the environment.

MC    : Config.tla (EveryItemSettable, Ignored).
Gen   : Gen_Config.tla: item kind x text class x environment in use or not (126 cases).
Drive : every configuration item of the kind (all items of the real Configuration, classified by the type of their default) with
        every concrete text of the class, through Configuration.reset() with a patched os.environ.
Trace : Trace_Config.tla (monitor).
"""
import json
import os

from .. import tlc, util

TEXTS = {"true_word": ["yes", "ON", "True", "tRuE"], "false_word": ["no", "OFF", "False"], "decimal": ["1", "0"], "padded_decimal": [" 42 "],
         "negative": ["-3"], "fraction": ["1.5", "2e3"], "word": ["abc", "maybe"], "empty": [""], "commas": ["a, b ,c", "x,y"]}


def expected_value(kind, text):
    if kind == "switch":
        return text.lower() in ("1", "yes", "on", "true")
    if kind == "int":
        return int(text)
    if kind == "float":
        return float(text)
    if kind == "list":
        return [v.strip() for v in text.split(",")]
    return text


def run(ctx):
    from Pyro5 import configure
    ctx.rule = ("cases = (item kind: switch, int, float, text, list, item without a default value, a name that is no item) x (class of the "
                "variable's text) x (environment in use or not), each with every real configuration item of the kind and every concrete text "
                "of the class; distinct_nontrivial = distinct (item, text) with the environment in use")
    ctx.assumptions = ["os.environ is patched in-process around Configuration.reset(); the process's own PYRO_ variables are removed first"]
    tlc.mc(ctx, "Config", cfg="MC_Config.cfg")
    cases = tlc.gen(ctx, "Gen_Config", cfg="Gen_Config.cfg")
    if len(cases) != 126:
        raise util.MachineryError("expected 126 cases, got %d" % len(cases))
    base = configure.Configuration.__new__(configure.Configuration)
    saved = {k: v for k, v in os.environ.items() if k.startswith("PYRO_")}
    for k in saved:
        del os.environ[k]
    try:
        base.reset(False)
        kinds = {"switch": [], "int": [], "float": [], "text": [], "list": [], "nodefault": [], "nosuchitem": ["NO_SUCH_ITEM", "HOSTT"]}
        for item in base.__slots__:
            v = getattr(base, item)
            kind = {bool: "switch", int: "int", float: "float", str: "text", list: "list", type(None): "nodefault"}.get(type(v))
            if kind is None:
                raise util.MachineryError("configuration item %s has a default of type %s the model does not know" % (item, type(v).__name__))
            kinds[kind].append(item)
        ctx.extra["items_per_kind"] = {k: len(v) for k, v in kinds.items()}
        if not all(kinds.values()):
            raise util.MachineryError("an item kind of the model has no configuration item: %s" % ctx.extra["items_per_kind"])
        traces = []
        for c in cases:
            for item in kinds[c["k"]]:
                for text in TEXTS[c["t"]]:
                    os.environ["PYRO_" + item] = text
                    cfg = configure.Configuration.__new__(configure.Configuration)
                    out, detail, agree = "value", "", True
                    try:
                        cfg.reset(c["useenv"])
                        if c["k"] == "nosuchitem":
                            out = "default"
                        else:
                            got, dflt = getattr(cfg, item), getattr(base, item)
                            if not c["useenv"]:
                                out = "default" if got == dflt and type(got) is type(dflt) else "wrong_value"
                            else:
                                want = expected_value(c["k"], text)
                                if got == want and type(got) is type(want) or (got != got and want != want):
                                    out = "value"
                                elif got == dflt and type(got) is type(dflt):
                                    out = "default"
                                else:
                                    out = "wrong_value"
                            detail = repr(got)
                            agree = cfg.copy().as_dict() == cfg.as_dict() and cfg.as_dict().get(item) == got and set(cfg.as_dict()) == set(cfg.__slots__)
                    except ValueError as x:
                        out, detail = "ValueError", str(x)[:80]
                    except Exception as x:
                        out, detail = "other_exception", "%s: %s" % (type(x).__name__, str(x)[:80])
                    finally:
                        del os.environ["PYRO_" + item]
                    traces.append({"k": c["k"], "t": c["t"], "useenv": c["useenv"], "item": item, "text": text, "out": out, "detail": detail,
                                   "views_agree": bool(agree)})
                    ctx.count(json.dumps([item, text]) if c["useenv"] else None)
    finally:
        os.environ.update(saved)
    ctx.evaluations = len(traces)
    ctx.sample({"case": traces[0]})
    ctx.sample({"case": traces[-1]})
    verdicts, _ = tlc.validate(ctx, "Trace_Config", traces, cfg="Trace_Config.cfg", batch=5000)
    for tr, v in zip(traces, verdicts):
        if v:
            ctx.violation("%s [kind=%s text=%s useenv=%s item=%s]" % (v, tr["k"], tr["t"], tr["useenv"], tr["item"]), tr)


def replay(ctx, path):
    print("E08 replay: rerun the check (all cases are enumerated)")
    return 0
