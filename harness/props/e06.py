"""E06 (extra, beyond the listed properties) - what a client sees through a proxy: the client half of member access.

MC    : ProxyView.tla (RefusedLocally, LookingIsFree) over name kind x operation x proxy state.
Gen   : Gen_ProxyView.tla emits the 120 cases.
Drive : a real Proxy against a real daemon over the in-memory transport; the target counts the requests that reach it; every case
        with every serializer and both server types.
Trace : Trace_ProxyView.tla (monitor) compares outcome, requests that reached the target, and connectedness with the model.
"""
import json

from .. import memnet, tlc, util
from .. import sched as S

NAMES = {"method": "meth", "oneway": "ow", "attr_rw": "attr", "attr_ro": "ro", "unexposed": "hidden", "private": "_priv",
         "missing": "no_such_member", "local": "_pyroMaxRetries"}


def run_cases(cases, servertype):
    import Pyro5.api as P
    from Pyro5 import config
    config.SERVERTYPE = servertype
    config.COMMTIMEOUT = 0.0
    traces = []

    def main():
        sc = S.CUR
        hits = []

        @P.expose
        class Target(object):
            def __init__(self):
                self._a = 5

            def meth(self, x=1):
                hits.append("meth")
                return x + 1

            @P.oneway
            def ow(self, x=1):
                hits.append("ow")

            @property
            def attr(self):
                hits.append("attr.get")
                return self._a

            @attr.setter
            def attr(self, v):
                hits.append("attr.set")
                self._a = v

            @property
            def ro(self):
                hits.append("ro.get")
                return 7

        def hidden(self):
            hits.append("hidden")
        Target.hidden = hidden              # added after @expose: not exposed
        Target._priv = lambda self: hits.append("_priv")
        d = P.Daemon(host="127.0.0.1")
        tgt = Target()
        uri = d.register(tgt, "obj")
        drv = memnet.ServerDriver(d)
        sers = ["serpent", "json", "marshal", "msgpack"]
        for ci, case in enumerate(cases):
            sc.set_budget(100000)
            k, op, s = case["k"], case["op"], case["s"]
            name = NAMES[k]
            p = P.Proxy(uri)
            p._pyroSerializer = sers[ci % 4]
            if s != "fresh":
                p._pyroBind()
                sc.quiesce()
                if s == "released":
                    p._pyroRelease()
                    sc.quiesce()
            del hits[:]
            seq0 = p._pyroSeq           # the proxy numbers the requests it sends (the handshake is not one)
            tgt._a = 5
            out = "other"
            try:
                if op == "get":
                    v = getattr(p, name)
                    out = "callable" if callable(v) and not isinstance(v, int) else "value"
                elif op == "set":
                    setattr(p, name, 3)
                    out = "ok"
                elif op == "call":
                    v = getattr(p, name)
                    if not callable(v):
                        out = "notcallable"
                    else:
                        r = v(1)
                        out = "none" if r is None else ("result" if r == 2 else "other")
                elif op == "hasattr":
                    out = "yes" if hasattr(p, name) else "no"
                elif op == "indir":
                    out = "yes" if name in dir(p) else "no"
            except (S.Hang, S.SchedAbort):
                raise
            except AttributeError:
                out = "AttributeError"
            except Exception as x:
                out = "other:" + type(x).__name__
            sc.quiesce()
            traces.append({"k": k, "op": op, "s": s, "out": out.split(":")[0], "requests": p._pyroSeq - seq0, "hits": list(hits),
                           "connected": p._pyroConnection is not None, "written": tgt._a == 3, "ser": sers[ci % 4], "server": servertype,
                           "detail": out})
            p._pyroRelease()
            sc.quiesce()
        drv.shutdown()
        d.close()
    memnet.run(main, max_steps=100000000)
    if len(traces) < len(cases):
        raise util.MachineryError("session ended early (%d of %d)" % (len(traces), len(cases)))
    return traces


def run(ctx):
    memnet.install()
    ctx.rule = ("cases = name kind (method, oneway method, read-write / read-only attribute, unexposed, private, missing, the proxy's own setting) x "
                "operation (get, set, call, hasattr, in dir()) x proxy state (never connected, connected, released) x serializer x server type; "
                "distinct_nontrivial = distinct cases about a name that is not exposed")
    ctx.assumptions = ["requests are counted by the proxy's own sequence number (the handshake is not a request); what reached the target object "
                       "is logged by the target"]
    tlc.mc(ctx, "ProxyView", cfg="MC_ProxyView.cfg")
    cases = tlc.gen(ctx, "Gen_ProxyView", cfg="Gen_ProxyView.cfg")
    if len(cases) != 120:
        raise util.MachineryError("expected 120 cases, got %d" % len(cases))
    cases.sort(key=lambda c: json.dumps(c, sort_keys=True))
    total = 0
    for servertype in ("multiplex", "thread"):
        for shift in range(4 if not ctx.quick else 2):
            cs = cases[shift:] + cases[:shift]          # (the serializer follows the position: every case meets every serializer)
            traces = run_cases(cs, servertype)
            total += len(cs)
            for c in cs:
                ctx.count(json.dumps([servertype, shift, c], sort_keys=True) if c["k"] in ("unexposed", "private", "missing") else None)
            ctx.sample({"case": traces[shift * 7 % len(traces)]})
            verdicts, _ = tlc.validate(ctx, "Trace_ProxyView", traces, cfg="Trace_ProxyView.cfg")
            for tr, v in zip(traces, verdicts):
                if v:
                    ctx.violation("%s [k=%s op=%s state=%s server=%s]" % (v, tr["k"], tr["op"], tr["s"], servertype), tr)
    ctx.evaluations = total


def replay(ctx, path):
    print("E06 replay: rerun the check (the 120 cases are enumerated completely)")
    return 0
