"""C16 - daemon registry: an id reaches exactly its object, for as long as registered.

MC    : Registry.tla (register / unregister by id or object / force / weak + garbage collection; design invariants).
Gen   : Gen_Registry.tla walks the model and interleaves observations (call, listing, return-object, uriFor).
Drive : a fresh real daemon per history over the in-memory transport; objects log which of them served a call; returned
        objects are classified as proxy (and called through) or value; serpent, json, msgpack (marshal: no auto-proxy).
Trace : Trace_Registry.tla replays the history through the model's operators (monitor).
"""
import gc
import json
import random

from .. import memnet, tlc, util
from .. import sched as S

GEN_CFG = """INIT GInit
NEXT GNext
CONSTANTS MaxLen = %d
CHECK_DEADLOCK FALSE
"""
IDMAP = {"x": "objx", "y": "objy", "daemon": "Pyro.Daemon", "nosuch": "no-such-id", "sp": "obj with blank", "at": "obj@at"}
BAD_IDS = ("sp", "at")


class Thing(object):
    """the worst-behaved kind of application object: empty as a container, equal to every other Thing"""
    def __init__(self, k):
        self.k = k

    def __len__(self):
        return 0

    def __eq__(self, other):
        return isinstance(other, Thing)

    def __hash__(self):
        return 7


class Slotted(object):
    """cannot carry the registry's attributes"""
    __slots__ = ("k",)

    def __init__(self, k):
        self.k = k


class ThingCopy(object):
    """what a Thing becomes when it travels by value"""
    def __init__(self, k):
        self.k = k


SERS = ["serpent", "json", "msgpack", "marshal"]
_setup_done = False


def setup():
    global _setup_done
    import Pyro5.api as P
    from Pyro5 import serializers
    if _setup_done:
        return
    _setup_done = True

    def whoami(self):
        return self.k
    Thing.whoami = P.expose(whoami)
    serializers.SerializerBase.register_dict_to_class("harness.props.c16.Thing", lambda cn, d: ThingCopy(d.get("k")))


def run_histories(jobs):
    import Pyro5.api as P
    from Pyro5 import config, errors
    setup()
    config.SERVERTYPE = "multiplex"
    config.COMMTIMEOUT = 0.0
    traces = []

    others = []

    def main():
        sc = S.CUR
        for jobno, (h, ser) in enumerate(jobs):
            rotate = jobno % 2 == 1
            for od in others:
                if od is not None:
                    try:
                        od.close()
                    except Exception:
                        pass
            del others[:]
            sc.set_budget(40000)
            tr = []
            d = P.Daemon(host="127.0.0.1")
            drv = memnet.ServerDriver(d)

            class Klass(object):
                k = 3

                @P.expose
                def whoami(self):
                    return 3
            objs = {1: Thing(1), 2: Thing(2), 3: Klass, 4: Slotted(4)}
            # the two chosen ids are, by turns, ordinary ones and near misses of the daemon's own id (parts of it, it with something behind)
            IDMAP["x"], IDMAP["y"] = (("objx", "objy"), ("Daemon", "Pyro"), ("Pyro.Daemon.helper", "o"))[jobno % 3]

            class Helper(object):
                @P.expose
                def give(self, k):
                    return objs[k]
            d.register(Helper(), "helper")
            other = None
            if jobno % 3 == 1:
                # another daemon of the same process has an object of the same class; it is closed after this daemon's first
                # registration: this daemon's objects are none of its business
                other = P.Daemon(host="127.0.0.1")
                other.register(Thing(9), "elsewhere")
            daemon_obj = d.objectsById["Pyro.Daemon"]
            others.append(other)

            def kept():
                return d.objectsById.get("Pyro.Daemon") is daemon_obj
            gen_ids = []

            def real_id(i):
                if i in IDMAP:
                    return IDMAP[i]
                if i.startswith("g"):
                    n = int(i[1:]) - 1
                    return gen_ids[n] if n < len(gen_ids) else "never-generated-" + i
                return i

            def model_id(real):
                for k, v in IDMAP.items():
                    if v == real:
                        return k
                if real in gen_ids:
                    return "g%d" % (gen_ids.index(real) + 1)
                return "?" + str(real)

            def outcome(fn):
                try:
                    return "ok", fn()
                except errors.DaemonError:
                    return "DaemonError", None
                except TypeError:
                    return "TypeError", None
                except (S.Hang, S.SchedAbort):
                    raise
                except Exception as x:
                    return "other:" + type(x).__name__, None
            try:
                base_ser = ser
                for evno, ev in enumerate(h):
                    a, o, i = ev["a"], ev["o"], ev["id"]
                    if other is not None and evno > 0 and h[evno - 1]["a"] == "register":
                        other.close()
                        for k in (1, 2):
                            other.unregister("was-here-%d" % k)     # (it keeps nothing of what has moved on)
                        other = None
                    # the serializer changes from step to step (what one of them does to an object must not show under another)
                    ser = SERS[(SERS.index(base_ser) + evno) % len(SERS)] if rotate else base_ser
                    hand = a == "register" and other is not None and jobno % 6 == 4 and o in (1, 2) and o in objs
                    if hand:
                        # a hand-over: the object was at home in the other daemon first; it is registered here next, and the other
                        # daemon is closed after that - what it does when it closes is none of this daemon's objects' business
                        other.register(objs[o], "was-here-%d" % o, force=True)
                    knock = a == "register" and jobno % 2 == 0 and o in (1, 2) and o in objs and evno > 0
                    if knock:
                        # the application had its own way of writing objects of this class for a while and has withdrawn it again,
                        # before it registers one more object of the class here
                        from Pyro5 import serializers as _sz
                        _sz.SerializerBase.register_class_to_dict(type(objs[o]), lambda x: {"__class__": "harness.Thing", "n": 0})
                        _sz.SerializerBase.unregister_class_to_dict(type(objs[o]))
                    if a == "register":
                        if i == "gen":
                            out, uri = outcome(lambda: d.register(objs[o], None, force=False, weak=ev["weak"]))
                            if o == 4 and out not in ("ok", "TypeError"):
                                out = "error"
                            gotid = ""
                            if out == "ok":
                                gen_ids.append(uri.object)
                                gotid = "g%d" % len(gen_ids)
                            else:
                                gotid = "g%d" % (len(gen_ids) + 1)
                            tr.append(dict(ev, out=out.split(":")[0], gotid=gotid, daemon_kept=kept()))
                        else:
                            out, _ = outcome(lambda: d.register(objs[o], real_id(i), force=ev["force"], weak=ev["weak"]))
                            if (o == 4 or i in BAD_IDS) and out not in ("ok", "TypeError"):
                                out = "error"       # refused: which exception says so is not prescribed
                            tr.append(dict(ev, out=out.split(":")[0], gotid="", daemon_kept=kept()))
                    if knock and tr[-1].get("out") != "ok":
                        # (refused: the registration that was to follow the withdrawal is made with a throw-away object instead)
                        tmp = type(objs[o])(77)
                        d.register(tmp, "throw-away")
                        d.unregister("throw-away")
                        del tmp
                    if hand and tr[-1].get("out") != "ok":
                        other.unregister("was-here-%d" % o)      # (it was refused here: it stays nowhere)
                    if a == "register":
                        pass
                    elif a == "unregister_id":
                        out, _ = outcome(lambda: d.unregister(real_id(i)))
                        tr.append(dict(ev, out=out.split(":")[0], daemon_kept=kept()))
                    elif a == "unregister_obj" and o == 5:
                        inst = objs[3]()        # an instance of the (possibly registered) class: not itself a registered object
                        out, _ = outcome(lambda: d.unregister(inst))
                        del inst
                        tr.append(dict(ev, out=out.split(":")[0], daemon_kept=kept()))
                    elif a == "unregister_obj":
                        out, _ = outcome(lambda: d.unregister(objs[o] if o else daemon_obj))
                        tr.append(dict(ev, out=out.split(":")[0], daemon_kept=kept()))
                    elif a == "gc":
                        del objs[o]
                        gc.collect()
                        tr.append(dict(ev))
                    elif a == "call":
                        target = -1
                        try:
                            with P.Proxy("PYRO:%s@%s" % (real_id(i), d.locationStr)) as p:
                                p._pyroSerializer = ser
                                target = p.whoami()
                        except (S.Hang, S.SchedAbort):
                            raise
                        except Exception as x:
                            target = 0 if isinstance(x, errors.PyroError) else -1      # refused by the daemon: nobody was reached
                        sc.quiesce()
                        tr.append(dict(ev, target=target if isinstance(target, int) else -1))
                    elif a == "listing":
                        try:
                            with P.Proxy("PYRO:Pyro.Daemon@" + d.locationStr) as p:
                                p._pyroSerializer = ser
                                ids = list(p.registered())
                        except (S.Hang, S.SchedAbort):
                            raise
                        except Exception:
                            ids = ["?listing-failed"]       # the daemon's own object cannot be reached any more
                        sc.quiesce()
                        tr.append(dict(ev, ids=sorted(model_id(x) for x in ids if x not in ("Pyro.Daemon", "helper")),
                                       daemon_listed="Pyro.Daemon" in ids))
                    elif a == "return":
                        kind, target = "error", -1
                        try:
                            with P.Proxy("PYRO:helper@" + d.locationStr) as p:
                                p._pyroSerializer = ser
                                res = p.give(o)
                                if isinstance(res, P.Proxy):
                                    kind = "proxy"
                                    res._pyroSerializer = ser
                                    try:
                                        target = res.whoami()
                                    finally:
                                        res._pyroRelease()
                                elif isinstance(res, ThingCopy):
                                    kind, target = "value", res.k
                                else:
                                    kind = "other"
                        except (S.Hang, S.SchedAbort):
                            raise
                        except Exception as x:
                            kind = "error"
                            ev = dict(ev, exc=type(x).__name__ + ": " + str(x)[:60])
                        sc.quiesce()
                        tr.append(dict(ev, kind=kind, target=target if isinstance(target, int) else -1, autoproxy=ser != "marshal"))
                    elif a == "urifor":
                        out, uri = outcome(lambda: d.uriFor(objs[o]))
                        tr.append(dict(ev, id=model_id(uri.object) if out == "ok" else ""))
            except S.Hang:
                tr.append({"a": "hang", "o": 0, "id": "", "force": False, "weak": False})
            drv.shutdown()
            d.close()
            objs.clear()
            traces.append(tr)
    memnet.run(main, max_steps=80000000)
    if len(traces) < len(jobs):
        raise util.MachineryError("session ended early (%d of %d)" % (len(traces), len(jobs)))
    return traces


def run(ctx):
    memnet.install()
    ctx.rule = ("cases = (history from Gen_Registry: register with explicit/colliding/generated ids, force, weak; unregister by id or object; "
                "garbage collection; interleaved call / listing / return-object / uriFor observations) x serializer; distinct_nontrivial = "
                "distinct (history, serializer) containing an unregister, a forced registration or a garbage collection")
    ctx.assumptions = ["'travels by value' is observed through a dict-to-class converter the harness registers for its target class",
                       "force is generated only to displace a different object on an occupied id or to re-register the same object under its own "
                       "id; forced registration under the daemon's own id is left open by the statement and not generated"]
    tlc.mc(ctx, "Registry", cfg="MC_Registry.cfg")
    s3 = tlc.gen(ctx, "Gen_Registry", cfg_text=GEN_CFG % 3)
    walks = tlc.gen(ctx, "Gen_Registry", cfg_text=GEN_CFG % ctx.pick(8, 10), workers=1,
                    extra=("-simulate", "num=%d" % ctx.pick(550, 8000), "-depth", str(ctx.pick(10, 12)), "-seed", str(ctx.seed + 16)))
    focus = tlc.gen(ctx, "Gen_Registry", cfg_text="INIT GInit\nNEXT FNext\nCONSTANTS MaxLen = 5\nCHECK_DEADLOCK FALSE\n")
    if len(focus) < 100:
        raise util.MachineryError("focused histories incomplete")
    focus2 = tlc.gen(ctx, "Gen_Registry", cfg_text="INIT GInit\nNEXT F2Next\nCONSTANTS MaxLen = 5\nCHECK_DEADLOCK FALSE\n")
    if len(focus2) < 50:
        raise util.MachineryError("second family of focused histories incomplete (%d)" % len(focus2))
    focus3 = tlc.gen(ctx, "Gen_Registry", cfg_text="INIT GInit\nNEXT F3Next\nCONSTANTS MaxLen = 5\nCHECK_DEADLOCK FALSE\n")
    if len(focus3) < 100:
        raise util.MachineryError("third family of focused histories incomplete (%d)" % len(focus3))
    if len(s3) < 20000 or len(walks) < 500:
        raise util.MachineryError("history generation incomplete")
    rng = random.Random(ctx.seed + 16)
    rng.shuffle(s3)
    rng.shuffle(focus)
    rng.shuffle(focus2)
    rng.shuffle(focus3)
    hs = s3[:ctx.pick(450, 8000)] + walks + focus[:ctx.pick(250, 100000)] + focus2[:ctx.pick(200, 100000)] + focus3[:ctx.pick(150, 100000)]
    sers = ["serpent", "json", "msgpack", "marshal"]
    jobs = [(h, sers[i % 4] if i % 8 != 7 else "serpent") for i, h in enumerate(hs)]
    traces = run_histories(jobs)
    for (h, ser) in jobs:
        acts = {e["a"] for e in h}
        ctx.count(json.dumps([h, ser], sort_keys=True) if acts & {"unregister_id", "unregister_obj", "gc"} or any(e["force"] for e in h) else None)
    for i in (3, len(traces) // 2, len(traces) - 1):
        ctx.sample({"serializer": jobs[i][1], "trace": traces[i]})
    verdicts, _ = tlc.validate(ctx, "Trace_Registry", traces, cfg="Trace_Registry.cfg", batch=5000)
    kinds = {}
    for tr in traces:
        for e in tr:
            if e["a"] == "return":
                kinds[e["kind"]] = kinds.get(e["kind"], 0) + 1
    for tr, (h, ser), v in zip(traces, jobs, verdicts):
        if any(e["a"] == "hang" for e in tr):
            v = "C16.Hang"
        if v:
            ctx.violation("%s" % v, {"history": h, "serializer": ser, "trace": tr})
    if not ctx.violations and (kinds.get("proxy", 0) < 20 or kinds.get("value", 0) < 20):
        raise util.MachineryError("vacuity: returned-object kinds %s" % kinds)
    ctx.extra["returned_object_kinds"] = kinds


def replay(ctx, path):
    memnet.install()
    rep = json.load(open(path))
    bad = 0
    for case in rep["cases"]:
        tr = run_histories([(case["history"], case["serializer"])])[0]
        v, _ = tlc.validate(ctx, "Trace_Registry", [tr], cfg="Trace_Registry.cfg")
        print("replay:", case["serializer"], "->", v[0] or "accepted")
        for e in tr:
            print("   ", e)
        bad += bool(v[0])
    if bad:
        print("VIOLATION property=%s replay=%s" % (ctx.prop, path))
    return 1 if bad else 0
