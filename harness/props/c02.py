"""C02 - only explicitly exposed, non-private members are remotely reachable.

MC    : Expose.tla (Served / Advertised as functions of the member shape and the request; OnlyExposed, AdvertisedIsServed).
Gen   : Gen_Expose.tla enumerates every constructible member shape (1020); the harness crosses them with the request kinds
        (call, oneway, batch, oneway batch, attribute read, attribute write) and the seven name variants.
Drive : for each shape a real class hierarchy is built and an instance registered in a real daemon; the request is written as a
        raw INVOKE message (no client-side filtering); every function of the generated classes appends to a side-effect log.
        Observed: did target code run, did the object change, what came back, what get_metadata advertises.
Trace : Trace_Expose.tla (monitor).
"""
import json

from .. import daemonlab as L
from .. import memnet, tlc, util
from .. import sched as S

REQ_KINDS = ["call", "oneway", "batch", "batch_oneway", "getattr", "setattr"]
NAME_VARIANTS = ["exact", "underscore", "dunder_of", "reserved", "dotted", "lookalike", "nonstring"]
# reserved names a class can define without the interpreter calling them behind the harness's back (__dir__ runs when an
# AttributeError message is built, __format__/__getstate__ in formatting and copying)
RESERVED_DEFINABLE = ["__call__", "__copy__", "__enter__", "__exit__", "__coerce__", "__cmp__", "__nonzero__", "__getinitargs__", "__deepcopy__"]
RESERVED_REQUEST = ["__class__", "__init__", "__dict__", "__getattribute__", "__reduce_ex__", "__setattr__", "__del__", "__module__",
                    "__repr__", "__new__", "__init_subclass__", "__reduce__", "__delattr__", "__subclasshook__", "__doc__", "__weakref__"]
NONSTRING = [5, None, ["member"], True, 1.5, {"member": 1}, ("member",), b"member"]
METHODS = ("imethod", "smethod", "cmethod")
PROPS = ("prop_ro", "prop_rw", "prop_wo")


def actual_name(m, i):
    return {"public": ("member", "member_", "member__", "m", "mem_ber")[i % 5],
            # every shape of "leading underscore" that is not a custom dunder name
            "private": ("_member", "_member__", "__member", "_m__", "_", "__", "_member_", "___member", "____", "_m")[i % 10],
            "mangled": "_Target__member",
            "dunder_custom": ("__member__", "__m__", "__member___", "___member__")[i % 4],
            "dunder_reserved": RESERVED_DEFINABLE[i % len(RESERVED_DEFINABLE)]}[m["name"]]


def build_target(m, i, log):
    """a class hierarchy of the given shape; returns (instance, member name)"""
    import Pyro5.api as P
    name = actual_name(m, i)
    private = m["name"] in ("private", "mangled", "dunder_reserved")
    mark = m["mark"]
    kind = m["kind"]

    def func(tag, fname):
        def f(*a, **k):
            log.append(tag)
            return "ran:" + tag
        f.__name__ = f.__qualname__ = fname
        return f

    def marked(f):
        if mark in ("member", "forced"):
            f = P.expose(f)
        if m["oneway"]:
            f = P.oneway(f)
        return f
    # "forced": the function has a public name and is exposed; the class binds it under the private name
    fname = "public_alias" if mark == "forced" else name

    class HelperPlain(object):
        def work(self, *a):
            log.append("helper.work")
            return "ran"

    @P.expose
    class HelperExposed(object):
        def work(self, *a):
            log.append("helper.work")
            return "ran"

    @P.expose
    class HelperExposedCallable(object):
        def work(self, *a):
            log.append("helper.work")
            return "ran"

        def __call__(self, *a, **k):
            log.append("helper.__call__")
            return "ran"

    @P.expose
    class NestedExposed(object):
        def __init__(self, *a, **k):
            log.append("nested.__init__")

        def work(self, *a):
            log.append("nested.work")
            return "ran"

    class Common(object):
        @P.expose
        def bystander(self, *a):
            log.append("bystander")
            return "bystander"

        # code of the target like any other: a refusal has no business running it
        def __repr__(self):
            log.append("__repr__")
            return "<target>"

        def __str__(self):
            log.append("__str__")
            return "target"
    body = {}
    init_value = None
    if kind == "imethod":
        body[name] = marked(func("member", fname))
    elif kind == "smethod":
        body[name] = staticmethod(marked(func("member", fname)))
    elif kind == "cmethod":
        body[name] = classmethod(marked(func("member", fname)))
    elif kind in PROPS:
        fget = func("getter", fname) if kind != "prop_wo" else None
        fset = func("setter", fname) if kind != "prop_ro" else None
        prop = property(fget, fset)
        if mark in ("member", "forced"):
            prop = P.expose(prop)
        body[name] = prop
    elif kind == "classattr":
        body[name] = 42
    elif kind == "lazyattr":
        import functools
        if i % 2:
            body[name] = functools.cached_property(func("lazy", fname))
        else:
            class GetOnly(object):
                """a descriptor with a getter only (what a home-made lazy attribute looks like)"""
                def __get__(self, inst, owner=None):
                    if inst is None:
                        return self
                    log.append("lazy")
                    return "computed"
            body[name] = GetOnly()
    elif kind == "nested_exposed_class":
        body[name] = NestedExposed
    else:
        init_value = {"instattr": lambda: 42, "helper_plain": HelperPlain, "helper_exposed": HelperExposed,
                      "helper_exposed_callable": HelperExposedCallable}[kind]

        def __init__(self):
            setattr(self, name, init_value())
        body["__init__"] = __init__
    if m["where"] in ("own", "over_exposed", "over_plain"):
        basebody = {}
        if m["where"] != "own":
            # the base class has a method of the same name - an exposed one, or a plain one - which the registered class redefines
            basefn = func("base_version", fname)
            basebody[name] = P.expose(basefn) if m["where"] == "over_exposed" and not private else basefn
            if m["where"] == "over_exposed" and private:
                basefn._pyroExposed = True
        Base = type("Base", (Common,), basebody)
        Target = type("Target", (Base,), body)
        definer, other = Target, Base
    else:
        Base = type("Base", (Common,), body)
        Target = type("Target", (Base,), {"unrelated": 7})
        definer, other = Base, Target
    if mark == "class_definer":
        P.expose(definer)
    elif mark == "class_other":
        P.expose(other)
    return Target(), name


def requested_name(nv, name, kind, i, ser):
    r = _requested_name(nv, name, kind, i, ser)
    if nv != "exact" and r == name:
        r = name + "\u200b"        # a variant must never coincide with the member's own name
    return r


def _requested_name(nv, name, kind, i, ser):
    base = name.strip("_") or "member"
    if nv == "exact":
        return name
    if nv == "underscore":
        return [x for x in ("_" + name, "__" + base, "_" + base, "_Target_" + name) if x != name][i % 3]
    if nv == "dunder_of":
        return "__" + base + "__" if name != "__" + base + "__" else "__" + base + "_"
    if nv == "reserved":
        return RESERVED_REQUEST[i % len(RESERVED_REQUEST)]
    if nv == "dotted":
        if kind.startswith("helper") or kind == "nested_exposed_class":
            return (name + ".work", name + ".__call__", name + ".__class__")[i % 3]
        return (name + ".__class__", "__class__." + name, name + ".__func__", name + ".fget", "bystander." + name, name + ".")[i % 6]
    if nv == "lookalike":
        return ("ｍ" + name[1:] if name.startswith("m") else name.replace("m", "ｍ", 1), name + "​", name + " ", name + "\x00",
                name.upper(), name.replace("e", "е"))[i % 6]
    v = NONSTRING[(i // 4 + i) % len(NONSTRING)]     # (independent of the serializer, which goes by i % 4)
    if isinstance(v, bytes) and ser in ("serpent", "json"):
        v = 5
    elif isinstance(v, bytes):
        v = name.encode("utf-8")        # the member's own name, as bytes: not text, whatever it would spell
    if isinstance(v, tuple) and ser != "serpent":
        v = ["member"]
    if isinstance(v, dict) and ser == "marshal":
        v = {"member": 1}
    return v


def snapshot(obj):
    def ident(v):
        return (type(v).__name__, v if isinstance(v, (int, str)) else id(v))
    return ([(k, ident(v)) for k, v in sorted(vars(obj).items())],
            [[(k, id(v)) for k, v in sorted(vars(c).items(), key=lambda kv: kv[0]) if k not in ("__dict__", "__weakref__", "__doc__", "_pyroExposed")]
             for c in type(obj).__mro__[:-1]])


def run_cases(cases, ctx):
    from Pyro5 import config, protocol, serializers
    traces = []

    def main():
        sc = S.CUR
        lab = L.Lab(servertype="multiplex")
        sers = sorted(serializers.serializers)
        state = {"c": None}

        def conn():
            c = state["c"]
            if c is None or c.server_closed():
                c = state["c"] = lab.raw()
                c.send(L.connect_msg("Pyro.Daemon"))
                lab.quiesce()
                c.drain()
                del c.replies[:]
            return c

        def exchange(data):
            c = conn()
            del c.replies[:]
            c.send(data)
            lab.quiesce()
            c.drain()
            if c.replies:
                r = c.replies[-1]
                kind = "error" if r["flags"] & protocol.FLAGS_EXCEPTION else "result"
                return kind, r
            return ("closed" if c.server_closed() else "none"), None
        built = {}
        for ci, case in enumerate(cases):
            sc.set_budget(30000)
            m, mi, rk, nv = case["m"], case["mi"], case["rk"], case["nv"]
            ser = sers[ci % 4]
            tr = {"m": m, "rk": rk, "nv": nv, "ran": False, "bystanders": 0, "changed": False, "reply": "", "meta_method": False,
                  "meta_attr": False, "meta_oneway": False, "meta_extra": False, "ser": ser, "extra": False}
            try:
                if mi not in built:
                    built.clear()
                    log = []
                    obj, name = build_target(m, mi, log)
                    oid = "t%d" % mi
                    lab.daemon.register(obj, oid)
                    if mi % 3 == 1:
                        # the application has taken a proxy for its own object from the daemon and changed that proxy's member lists
                        # (as the http gateway does with the oneway list): what the daemon tells other clients is not affected
                        px = lab.daemon.proxyFor(obj)
                        for members in (px._pyroMethods, px._pyroAttrs, px._pyroOneway):
                            if isinstance(members, set):
                                members.discard(name)
                                members.add("planted_by_a_proxy_user")
                                members.add(name) if members is px._pyroOneway and m["kind"] in ("imethod", "smethod", "cmethod") and not m["oneway"] else None
                        del px
                    kind, r = exchange(L.invoke_msg("Pyro.Daemon", "get_metadata", [oid], ser="serpent"))
                    meta = serializers.serializers["serpent"].loads(r["data"]) if kind == "result" else {"methods": [], "attrs": [], "oneway": ["<no metadata>"]}
                    built[mi] = (obj, name, log, oid, meta)
                obj, name, log, oid, meta = built[mi]
                req = requested_name(nv, name, m["kind"], ci, ser)
                tr["name"], tr["req"] = name, repr(req)
                if ci % 2:
                    # the request before this one, on the same connection, was of the other kind (a oneway call before one that is
                    # answered, an answered call before a oneway one): how this request is treated is its own flags' business
                    c0 = conn()
                    c0.send(L.invoke_msg(oid, "bystander", [], flags=0 if rk in ("oneway", "batch_oneway") else protocol.FLAGS_ONEWAY, ser=ser))
                    lab.quiesce()
                    c0.drain()
                del log[:]
                before = snapshot(obj)
                flags = 0
                if rk == "call":
                    data = L.invoke_msg(oid, req, [1], ser=ser)
                elif rk == "oneway":
                    flags = protocol.FLAGS_ONEWAY
                    data = L.invoke_msg(oid, req, [1], flags=flags, ser=ser)
                elif rk in ("batch", "batch_oneway"):
                    flags = protocol.FLAGS_BATCH | (protocol.FLAGS_ONEWAY if rk == "batch_oneway" else 0)
                    calls = [["bystander", [], {}], [req, [1], {}], ["bystander", [], {}]]
                    if ser == "serpent":
                        calls = [tuple(c) for c in calls]
                    data = L.invoke_msg(oid, "<batch>", calls, flags=flags, ser=ser)
                else:
                    # an attribute request normally carries the name (and the value); a peer may add anything it likes: further
                    # positional arguments, keyword arguments.  Such a request may be refused, but it must not reach more
                    xa = [(), (), (False,), (0, None), (None, False, False)][ci % 5]
                    xk = [None, {"only_exposed": False}, None, {"only_exposed": 0, "x": 1}, None][ci % 5]
                    tr["extra"] = bool(xa or xk)
                    if rk == "getattr":
                        data = L.invoke_msg(oid, "__getattr__", [req] + list(xa), kwargs=xk, ser=ser)
                    else:
                        data = L.invoke_msg(oid, "__setattr__", [req, 99] + list(xa), kwargs=xk, ser=ser)
                tr["reply"], r = exchange(data)
                tr["bystanders"] = log.count("bystander")
                tr["ran"] = any(x != "bystander" for x in log)
                tr["log"] = list(log)
                tr["changed"] = snapshot(obj) != before
                if r is not None:
                    tr["reply_text"] = r["data"][:120].decode("latin-1")
                tr["meta_method"] = name in meta["methods"]
                tr["meta_attr"] = name in meta["attrs"]
                tr["meta_oneway"] = name in meta["oneway"]
                tr["meta_extra"] = bool((set(meta["methods"]) | set(meta["attrs"]) | set(meta["oneway"])) - {name, "bystander"})
            except S.Hang:
                tr["reply"] = "hang"
                state["c"] = None
            traces.append(tr)
        lab.close()
    memnet.run(main, max_steps=400000000)
    if len(traces) < len(cases):
        raise util.MachineryError("session ended early (%d of %d)" % (len(traces), len(cases)))
    return traces


def runtime_changes(shapes):
    """the class (or the instance) is changed after the daemon has seen and cached its members: what is served is decided by
    what the name denotes now.  For served method shapes: the member is shadowed by a plain instance attribute holding an
    unexposed callable, or replaced in the registered class by an unexposed function; the trace record describes the member
    as it is after the change."""
    from Pyro5 import protocol, serializers
    traces = []

    def main():
        sc = S.CUR
        lab = L.Lab(servertype="multiplex")
        sers = sorted(serializers.serializers)
        n = 0
        for mi, m in shapes:
            for change in ("instance_shadow", "class_replace"):
                for rk in ("call", "oneway", "batch", "batch_oneway"):
                    n += 1
                    sc.set_budget(30000)
                    ser = sers[n % 4]
                    log = []
                    obj, name = build_target(m, mi, log)
                    oid = "rt%d" % n
                    lab.daemon.register(obj, oid)
                    c = lab.raw()
                    c.send(L.connect_msg(oid))           # the daemon looks at the class now (metadata for the handshake answer)
                    lab.quiesce()
                    c.drain()
                    c.send(L.invoke_msg(oid, name, [1], ser=ser))     # ... and serves the member once
                    lab.quiesce()
                    c.drain()
                    served_before = "member" in log
                    del log[:]

                    def intruder(*a, **k):
                        log.append("intruder")
                        return "ran:intruder"
                    try:
                        if change == "instance_shadow":
                            obj.__dict__[name] = intruder
                            m2 = dict(m, kind="instattr", mark="none", where="own", oneway=False)
                        else:
                            setattr(type(obj), name, intruder)
                            m2 = dict(m, kind="imethod", mark="none", where="own", oneway=False)
                    except Exception:
                        lab.daemon.unregister(oid)
                        continue
                    before = snapshot(obj)
                    del c.replies[:]
                    if rk in ("call", "oneway"):
                        data = L.invoke_msg(oid, name, [1], flags=protocol.FLAGS_ONEWAY if rk == "oneway" else 0, ser=ser)
                    else:
                        calls = [["bystander", [], {}], [name, [1], {}], ["bystander", [], {}]]
                        if ser == "serpent":
                            calls = [tuple(x) for x in calls]
                        data = L.invoke_msg(oid, "<batch>", calls, flags=protocol.FLAGS_BATCH | (protocol.FLAGS_ONEWAY if rk == "batch_oneway" else 0), ser=ser)
                    c.send(data)
                    lab.quiesce()
                    c.drain()
                    reply = "none"
                    if c.replies:
                        reply = "error" if c.replies[-1]["flags"] & protocol.FLAGS_EXCEPTION else "result"
                    elif c.server_closed():
                        reply = "closed"
                    traces.append({"m": m2, "rk": rk, "nv": "exact", "ran": any(x != "bystander" for x in log), "bystanders": log.count("bystander"),
                                   "changed": snapshot(obj) != before, "reply": reply, "meta_method": False, "meta_attr": False, "meta_oneway": False,
                                   "meta_extra": False, "ser": ser, "name": name, "req": repr(name), "log": list(log),
                                   "runtime_change": change, "served_before": served_before})
                    c.close()
                    lab.quiesce()
                    lab.daemon.unregister(oid)
        lab.close()
    memnet.run(main, max_steps=400000000)
    return traces


def concurrent_metadata(shapes, seed):
    """two clients ask for the metadata of a freshly registered class at the same time (thread server, thread switches at every
    line of the member scan): each must be told the complete member list; afterwards the member is requested as usual"""
    import os
    import random
    from Pyro5 import protocol, serializers, server
    sfile = os.path.abspath(server.__file__)
    traces = []

    def tfilter(code):
        return os.path.abspath(code.co_filename) == sfile and code.co_name == "_get_exposed_members"

    def main():
        sc = S.CUR
        lab = L.Lab(servertype="thread", poolsize=6)
        ser = serializers.serializers["serpent"]
        for k, (mi, m) in enumerate(shapes):
            sc.set_budget(200000)
            log = []
            obj, name = build_target(m, mi, log)
            oid = "cm%d" % k
            lab.daemon.register(obj, oid)
            metas = {}

            def asker(tag):
                def body():
                    c = lab.raw()
                    c.send(L.connect_msg("Pyro.Daemon"))
                    sc.yield_point(lambda: len(c.sock.inbuf) >= 40)
                    c.drain()
                    del c.replies[:]
                    c.send(L.invoke_msg("Pyro.Daemon", "get_metadata", [oid], ser="serpent"))
                    sc.yield_point(lambda: len(c.sock.inbuf) >= 40)
                    sc.yield_point()
                    c.drain()
                    r = c.replies[-1] if c.replies else None
                    metas[tag] = ser.loads(r["data"]) if r is not None and not (r["flags"] & protocol.FLAGS_EXCEPTION) else None
                    c.close()
                return body
            sc.spawn(sc.fresh_name("askA"), asker("A"))
            sc.spawn(sc.fresh_name("askB"), asker("B"))
            sc.yield_point(lambda: len(metas) == 2)
            sc.quiesce()
            # the member itself, asked for in the ordinary way
            c = lab.raw()
            c.send(L.connect_msg("Pyro.Daemon"))
            sc.quiesce()
            c.drain()
            del c.replies[:]
            del log[:]
            before = snapshot(obj)
            c.send(L.invoke_msg(oid, name, [1], ser="serpent"))
            sc.quiesce()
            c.drain()
            reply = "none"
            if c.replies:
                reply = "error" if c.replies[-1]["flags"] & protocol.FLAGS_EXCEPTION else "result"
            c.close()
            sc.quiesce()
            for tag in ("A", "B"):
                meta = metas.get(tag) or {"methods": [], "attrs": [], "oneway": ["<no metadata>"]}
                traces.append({"m": m, "rk": "call", "nv": "exact", "ran": any(x != "bystander" for x in log), "bystanders": 0,
                               "changed": snapshot(obj) != before, "reply": reply, "meta_method": name in meta["methods"], "meta_attr": name in meta["attrs"],
                               "meta_oneway": name in meta["oneway"],
                               "meta_extra": bool((set(meta["methods"]) | set(meta["attrs"]) | set(meta["oneway"])) - {name, "bystander"}) or
                               "bystander" not in meta["methods"], "ser": "serpent", "name": name, "req": repr(name), "concurrent": True})
        lab.close()
    memnet.run(main, chooser=S.RandomChooser(random.Random(seed + 2)), trace_filter=tfilter, max_steps=50000000)
    if len(traces) < 2 * len(shapes):
        raise util.MachineryError("concurrent metadata pass incomplete (%d of %d)" % (len(traces), 2 * len(shapes)))
    return traces


def run(ctx):
    memnet.install()
    ctx.rule = ("cases = constructible member shapes from Gen_Expose (1020) x request kinds (6) x name variants (7), one raw INVOKE each "
                "(quick: all 'exact' requests, one third of the others by rotation); distinct_nontrivial = distinct (shape, request kind, "
                "name variant)")
    ctx.assumptions = ["one member under test per generated class, next to an always-exposed bystander method",
                       "'forced' = an exposed public function or property additionally bound under a private name in the class body",
                       "name-mangled members are written with their mangled name (_Target__member)"]
    tlc.mc(ctx, "Expose", cfg="MC_Expose.cfg")
    shapes = tlc.gen(ctx, "Gen_Expose", cfg="Gen_Expose.cfg")
    if len(shapes) != 1020:
        raise util.MachineryError("expected 1020 shapes, got %d" % len(shapes))
    shapes.sort(key=lambda s: json.dumps(s["m"], sort_keys=True))
    cases = []
    n = 0
    for mi, s in enumerate(shapes):
        for rk in REQ_KINDS:
            for nv in NAME_VARIANTS:
                n += 1
                if ctx.quick and nv != "exact" and (n + mi) % 3:
                    continue
                cases.append({"m": s["m"], "mi": mi, "rk": rk, "nv": nv})
    traces = run_cases(cases, ctx)
    marked = [(mi, sh["m"]) for mi, sh in enumerate(shapes) if sh["m"]["mark"] in ("member", "class_definer") and sh["m"]["name"] in ("public", "dunder_custom")
              and sh["m"]["kind"] in ("imethod", "smethod", "cmethod", "prop_ro", "prop_rw", "prop_wo")]
    ctraces = concurrent_metadata(marked[::ctx.pick(4, 1)], ctx.seed)
    traces += ctraces
    # the member changes after the daemon has cached the class's members
    methods = [(mi, m) for mi, m in marked if m["kind"] in ("imethod", "smethod", "cmethod")]
    rtraces = runtime_changes(methods[::ctx.pick(3, 1)])
    if sum(1 for t in rtraces if t["served_before"]) < 20:
        raise util.MachineryError("run-time change pass: the members were not served before the change")
    traces += rtraces
    ctx.extra["runtime_change_cases"] = len(rtraces)
    for c in cases:
        ctx.count(json.dumps([c["mi"], c["rk"], c["nv"]]))
    for i in (0, len(traces) // 2, len(traces) - 1):
        ctx.sample({k: v for k, v in traces[i].items() if k != "log"})
    verdicts, _ = tlc.validate(ctx, "Trace_Expose", traces, cfg="Trace_Expose.cfg", batch=10000)
    for tr, v in zip(traces, verdicts):
        if v:
            m = tr["m"]
            ctx.violation("%s [kind=%s mark=%s name=%s rk=%s nv=%s]" % (v, m["kind"], m["mark"], m["name"], tr["rk"], tr["nv"]), tr)
    ctx.extra["shapes"] = len(shapes)


def replay(ctx, path):
    print("C02 replay: rerun the check with the same VERIF_SEED (cases are regenerated deterministically)")
    return 0
