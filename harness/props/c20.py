"""C20 - the HTTP gateway forwards only authorised requests, and forwards them faithfully.

MC    : Gateway.tla (Decide / Forward over the whole request space; OnlyAuthorised, InvokesOnlyNamed).
Gen   : Gen_Gateway.tla enumerates the request space with irrelevant fields folded (11 730 cases).
Drive : the real WSGI callable pyro_app, configured per case (key, pattern), in front of a real name server object and real
        target objects in a real daemon on the in-memory transport.  Every Pyro message the gateway sends is counted, every
        execution of a target member is logged with object, member, arguments and returned value.
Trace : Trace_Gateway.tla (monitor).
"""
import io
import json
import re
import urllib.parse

from .. import memnet, tlc, util
from .. import sched as S

NAMES = {"exact": "http.echo", "suffix": "http.echoX", "prefix": "xhttp.echo", "case": "HTTP.Echo", "other_exposed": "http.other",
         "unexposed_registered": "private.obj", "unknown": "http.nothere"}
# internal.http.admin contains the default pattern, but not at its start: it is not exposed (the pattern is matched at the start)
REGISTERED = {"http.echo": "echo", "http.other": "other", "private.obj": "private", "internal.http.admin": "internal"}
MEMBERS = {"method": "echo", "method_raises": "fail", "method_streams": "numbers", "method_vanishes": "vanish", "attribute": "value", "meta": "$meta", "unknown": "nosuch", "private": "_secret",
           "method_slow": "slow"}
PATTERNS = {"default": r"http\.", "anchored": r"http\.echo$", "empty": ""}
PARAMS = {"none": [], "one": [("message", "hi there")], "two": [("a", "1"), ("b", "two")], "repeated": [("a", "1"), ("a", "2")],
          "blank": [("a", ""), ("b", "x")],
          "encoded": [("text", "héllo wörld&=+/%?#"), ("n", "中"), ("esc", "100%41%2541"), ("plus", "a+b c")]}
KEY = "secret-key-1"
WRONG_KEYS = ["wrong", "secret-key-", "secret-key-1x", "SECRET-KEY-1", "secret-key-2", " secret-key-1", "secret-key-1 ", "s", "ecret-key-1",
              "secret-key-1\x00", "None"]
# the spec's Matches table, restated for the sanity check against the concrete strings
MATCH_TABLE = {"default": {"exact", "suffix", "other_exposed", "unknown"}, "anchored": {"exact"}, "empty": set(NAMES)}


class CountingHook:
    def __init__(self):
        self.sent = 0

    def before_send(self, sock, data):
        self.sent += 1
        return data

    def before_recv(self, sock):
        pass


def expected_kwargs(r, i):
    items = list(PARAMS[r["params"]])
    if r["par"] != "absent" and r["keycfg"] == "none":
        items.append(("$key", KEY if r["par"] == "right" else WRONG_KEYS[i % len(WRONG_KEYS)]))
        if r["par"] == "wrong" and i % 4 == 1:
            items.append(("$key", KEY))
    out = {}
    for k, v in items:
        out.setdefault(k, []).append(v)
    return {k: (v[0] if len(v) == 1 else v) for k, v in out.items()}


# concrete members of the classes "unknown" and "private": besides the plain ones, a name that continues after a line break with
# the name of a real member, and names that mean something to the gateway's own proxy object
UNKNOWN_MEMBERS = ["nosuch", "echo\nzzz", "nosuch", "value\n", "nosuch"]
PRIVATE_MEMBERS = ["_secret", "_pyroRelease", "_secret", "__class__", "_pyroBind", "_secret", "__dict__", "_pyroClaimOwnership"]


def member_text(r, i):
    if r["member"] == "unknown":
        return UNKNOWN_MEMBERS[i % len(UNKNOWN_MEMBERS)]
    if r["member"] == "private":
        return PRIVATE_MEMBERS[i % len(PRIVATE_MEMBERS)]
    return MEMBERS[r["member"]]


def build_request(r, i):
    name, member = NAMES[r["name"]], member_text(r, i)
    path = {"root": "/", "pyro_noslash": "/pyro", "index": "/pyro/", "one_seg": "/pyro/" + name, "obj_trailing": "/pyro/" + name + "/",
            "call": "/pyro/%s/%s" % (name, member), "extra_seg": "/pyro/%s/x/%s" % (name, member),
            "lead_seg": ("/pyro//%s/%s", "/pyro/./%s/%s", "/pyro///%s/%s", "/pyro/.//%s/%s")[i % 4] % (name, member),
            "outside": ("/other/%s/%s", "/pyrox/%s/%s", "/Pyro/%s/%s")[i % 3] % (name, member)}[r["path"]]
    items = list(PARAMS[r["params"]])
    wrong = WRONG_KEYS[i % len(WRONG_KEYS)]
    if r["par"] != "absent":
        items.insert(i % (len(items) + 1), ("$key", KEY if r["par"] == "right" else wrong))
        if r["par"] == "wrong" and i % 4 == 1:
            items.append(("$key", KEY))        # the parameter given twice, the right key second: still not the key
    env = {"REQUEST_METHOD": r["meth"], "PATH_INFO": path, "QUERY_STRING": urllib.parse.urlencode(items), "wsgi.errors": io.StringIO(),
           "SERVER_NAME": "localhost", "SERVER_PORT": "8080"}
    if r["hdr"] != "absent":
        env["HTTP_X_PYRO_GATEWAY_KEY"] = KEY if r["hdr"] == "right" else wrong
    if r["oneway"]:
        env["HTTP_X_PYRO_OPTIONS"] = "oneway"
    return env


def run_cases(cases, sqlfile=None):
    """sqlfile: the name server keeps its registrations in an sqlite database there (None: in memory)"""
    import Pyro5.api as P
    from Pyro5 import config, nameserver, callcontext, server
    from Pyro5.utils import httpgateway as G
    traces = []

    def main():
        sc = S.CUR
        config.SERVERTYPE = "thread"        # (a second request must not have to wait for a method that is still running)
        config.THREADPOOL_SIZE = 24
        config.THREADPOOL_SIZE_MIN = 2
        config.COMMTIMEOUT = 0.0
        log = []

        @P.expose
        class Target(object):
            def __init__(self, tag):
                self.tag = tag

            def _ran(self, member, kwargs, ret):
                log.append({"tag": self.tag, "member": member, "kwargs": kwargs, "ret": ret})
                return ret

            def echo(self, **kwargs):
                return self._ran("echo", kwargs, {"tag": self.tag, "member": "echo", "kwargs": kwargs})

            def slow(self, **kwargs):
                self._ran("slow", kwargs, "slow-result")
                S.CUR.sleep(5.0)            # longer than the gateway's communication timeout
                return "slow-result"

            def fail(self, **kwargs):
                self._ran("fail", kwargs, None)
                raise ValueError("deliberate failure in " + self.tag)

            def vanish(self, **kwargs):
                self._ran("vanish", kwargs, None)
                from Pyro5 import callcontext as _cc
                _cc.current_context.client.sock.close()        # the connection is gone before the answer is
                return "never arrives"

            def numbers(self, **kwargs):
                self._ran("numbers", kwargs, None)
                return (i for i in range(3))

            @property
            def value(self):
                return self._ran("value", {}, "value-of-" + self.tag)

            def _secret(self, **kwargs):
                return self._ran("_secret", kwargs, "secret")

            def nosuch_other(self):
                return self._ran("nosuch_other", {}, 1)
        contacted = []

        class LoggingDaemonObject(server.DaemonObject):
            def get_metadata(self, objectId):
                contacted.append(objectId)
                return super().get_metadata(objectId)
        ann_on = [False]

        class AnnotatingDaemon(P.Daemon):
            """for every other request the daemon puts an annotation of its own on its replies"""
            def annotations(self):
                return {"GATE": b"behind the gateway"} if ann_on[0] else {}
        d = AnnotatingDaemon(host="127.0.0.1", interface=P.expose(LoggingDaemonObject))
        ns = nameserver.NameServer(nameserver.SqlStorage(sqlfile)) if sqlfile else nameserver.NameServer()
        d.register(ns, "Pyro.NameServer")
        uri_by_tag, current = {}, {}
        for nsname, tag in REGISTERED.items():
            uri = d.register(Target(tag), "obj_" + tag)
            ns.register(nsname, uri)
            uri_by_tag[tag] = uri
            current[nsname] = tag
        config.NS_HOST = "127.0.0.1"
        config.NS_PORT = int(d.locationStr.split(":")[1])
        drv = memnet.ServerDriver(d)
        hook = CountingHook()
        memnet.NET.hook = hook
        G._nameserver = None
        G.pyro_app.comm_timeout = 0.0
        G.pyro_app.cors = "*"
        try:
            for i, case in enumerate(cases):
                sc.set_budget(60000)
                r = case["r"]
                G.pyro_app.gateway_key = KEY.encode() if r["keycfg"] == "set" else None
                G.pyro_app.ns_regex = PATTERNS[r["pattern"]]
                G.pyro_app.comm_timeout = 2.0 if r["member"] == "method_slow" else 0.0
                if i % 97 == 0 and G._nameserver is not None:
                    G._nameserver._pyroRelease()
                    G._nameserver = None
                callcontext.current_context.correlation_id = None
                # registrations change while the gateway runs: now and then the name is given to another object just before the
                # request, or removed (then it is a name nobody has registered); afterwards things are put back
                changed = None
                if r["path"] == "call" and r["name"] == "exact" and i % 7 == 3:
                    ns.register(NAMES["exact"], uri_by_tag["other"], safe=False)
                    current[NAMES["exact"]] = "other"
                    changed = "given_to_other"
                elif r["path"] == "call" and r["name"] == "exact" and r["pattern"] in ("default", "empty") and i % 7 == 5:
                    ns.remove(NAMES["exact"])
                    current.pop(NAMES["exact"])
                    changed = "removed"
                    r = dict(r, name="unknown")         # (a name that matches the pattern and is not registered)
                env = build_request(case["r"], i)
                tr = {"r": r, "changed": changed or "", "status": 0, "traffic": 0, "inv": 0, "inv_right": True, "body": "other", "index_leak": False,
                      "path": env["PATH_INFO"], "qs": env["QUERY_STRING"]}
                del log[:]
                del contacted[:]
                hook.sent = 0
                got = {}

                def start_response(status, headers, exc_info=None):
                    got["status"] = status
                ann_on[0] = i % 2 == 1
                try:
                    chunks = list(G.pyro_app(env, start_response))
                    if any(type(chunk) is not bytes for chunk in chunks):
                        # a WSGI server writes byte strings and nothing else (wsgiref: "write() argument must be a bytes instance"):
                        # its own error page goes out in place of the answer
                        got["status"] = "500 Internal Server Error"
                        chunks = [b"A server error occurred.  Please contact the administrator."]
                    body = b"".join(chunks)
                    if r["member"] == "method_slow":
                        sc.sleep(12.0)      # whatever the gateway sent has been served by now
                    sc.quiesce()
                    tr["status"] = int(got.get("status", "0").split()[0])
                except (S.SchedAbort,):
                    raise
                except S.Hang:
                    tr["status"] = -1
                    body = b""
                    G._nameserver = None
                except Exception as x:
                    # the application let an exception escape: the web server in front of it answers 500 with its own text
                    tr["status"] = 599
                    body = ("escaped: %s: %s" % (type(x).__name__, x)).encode("utf-8", "replace")
                tr["traffic"] = hook.sent
                tr["inv"] = len(log)
                name, member = NAMES[case["r"]["name"]], member_text(r, i)
                want = {"tag": current.get(name), "member": member, "kwargs": expected_kwargs(r, i)}
                if changed:
                    ns.register(NAMES["exact"], uri_by_tag["echo"], safe=False)
                    current[NAMES["exact"]] = "echo"
                tr["inv_right"] = all({k: x[k] for k in ("tag", "member", "kwargs")} == want for x in log)
                tr["invocations"] = [{k: x[k] for k in ("tag", "member", "kwargs")} for x in log]
                try:
                    val = json.loads(body.decode("utf-8")) if body else None
                except ValueError:
                    val = Ellipsis
                if log and val is not Ellipsis and body and val == log[-1]["ret"]:
                    tr["body"] = "result"
                elif isinstance(val, dict) and val.get("__exception__") and "ValueError" in str(val.get("__class__")):
                    tr["body"] = "exception"
                elif isinstance(val, dict) and set(val) == {"methods", "attributes"} and set(val["methods"]) == {"echo", "fail", "nosuch_other", "numbers", "slow", "vanish"} \
                        and set(val["attributes"]) == {"value"}:
                    tr["body"] = "meta"
                tr["body_head"] = body[:100].decode("latin-1")
                if r["path"] == "index":
                    text = body.decode("utf-8", "replace")
                    pat = PATTERNS[r["pattern"]]
                    hidden = [n for n in REGISTERED if pat and not re.match(pat, n)]
                    tr["index_leak"] = any(n in text for n in hidden) or any("obj_" + REGISTERED[n] in contacted for n in hidden)
                traces.append(tr)
        finally:
            memnet.NET.hook = None
        if G._nameserver is not None:
            G._nameserver._pyroRelease()
            G._nameserver = None
        drv.shutdown()
        d.close()
    memnet.run(main, max_steps=2000000000)
    if len(traces) < len(cases):
        raise util.MachineryError("session ended early (%d of %d)" % (len(traces), len(cases)))
    return traces


def run(ctx):
    memnet.install()
    ctx.rule = ("cases = the request space of Gateway.tla with irrelevant fields folded (Gen_Gateway: 10 498), one WSGI call each "
                "(quick: every refused / routed case class in full rotation, one in three of the rest); distinct_nontrivial = distinct "
                "abstract requests")
    ctx.assumptions = ["the expose pattern is a regular expression matched at the start of the object name (re.match), as documented",
                       "query parameters have non-empty values; a repeated parameter is delivered as a list",
                       "header and $key disagreeing (one right, one wrong): either refusing or forwarding is accepted",
                       "the CORS preflight (OPTIONS) may answer 200 but must not cause Pyro traffic"]
    # the Matches table of the spec against the concrete strings
    for p, pat in PATTERNS.items():
        for n, s in NAMES.items():
            if bool(re.match(pat, s)) != (n in MATCH_TABLE[p]):
                raise util.MachineryError("Matches table disagrees with the concrete names: %s %s" % (p, n))
    tlc.mc(ctx, "Gateway", cfg="MC_Gateway.cfg")
    cases = tlc.gen(ctx, "Gen_Gateway", cfg="Gen_Gateway.cfg")
    if len(cases) != 12610:
        raise util.MachineryError("expected 12610 cases, got %d" % len(cases))
    cases.sort(key=lambda c: json.dumps(c["r"], sort_keys=True))
    if ctx.quick:
        cases = [c for i, c in enumerate(cases) if c["decide"] in ("redirect", "notfound", "index", "preflight") or (i + ctx.seed) % 3 == 0]
    traces = run_cases(cases)
    # the same with a name server on the sqlite back-end, for the requests whose answer depends on what the name server lists
    import os
    sub = [c for i, c in enumerate(cases) if c["r"]["path"] == "index" or (c["r"]["path"] == "call" and i % ctx.pick(9, 3) == 0)]
    traces += run_cases(sub, sqlfile=os.path.join(ctx.scratch, "c20_ns.sqlite"))
    cases = cases + sub
    for c in cases:
        ctx.count(json.dumps(c["r"], sort_keys=True))
    for i in (0, len(traces) // 2, len(traces) - 1):
        ctx.sample({k: v for k, v in traces[i].items() if k != "invocations"})
    verdicts, _ = tlc.validate(ctx, "Trace_Gateway", traces, cfg="Trace_Gateway.cfg", batch=10000)
    for tr, v in zip(traces, verdicts):
        if v:
            r = tr["r"]
            ctx.violation("%s [meth=%s path=%s name=%s member=%s key=%s/%s/%s pattern=%s oneway=%s params=%s]" % (
                v, r["meth"], r["path"], r["name"], r["member"], r["keycfg"], r["hdr"], r["par"], r["pattern"], r["oneway"], r["params"]), tr)
    ctx.extra["decisions"] = {k: sum(1 for c in cases if c["decide"] == k) for k in sorted({c["decide"] for c in cases})}


def replay(ctx, path):
    print("C20 replay: rerun the check with the same VERIF_SEED (cases are regenerated deterministically)")
    return 0
