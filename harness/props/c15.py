"""C15 - name server operations are atomic under concurrent clients.

MC    : NameServerImpl.tla (PlusCal: register / remove at statement granularity with the re-entrant lock) checked for
        'exactly one safe registration wins', 'removal counts sum to one', 'no internal error'.
Gen   : Gen_NSLin.tla enumerates every scenario (initial state x one operation per thread).
Drive : the real NameServer (in-memory storage; sqlite storage in the thorough tier) with the operations in real
        threads under the line-level scheduler (yield point before every line of nameserver.py), preemption-bounded
        DFS then seeded random schedules.
Trace : Trace_NSLin.tla searches for a linearization of every distinct call/return history against NameServer.tla.
"""
import json
import os
import random
import shutil
import tempfile

from .. import memnet, tlc, util
from .. import sched as S
from . import c14

MC_CFG = """SPECIFICATION Spec
CONSTANTS Threads = {1, 2, 3}
  Ops <- %s
  Present = %s
  UseLock = TRUE
INVARIANT OneSafeWinner
INVARIANT RemoveTotalOne
INVARIANT NoInternalError
INVARIANT SafeRespectsPresence
CHECK_DEADLOCK FALSE
"""
GEN_CFG = """INIT Init
NEXT Next
CONSTANTS NThreads = %d
CHECK_DEADLOCK FALSE
"""
TRACE_CFG = """SPECIFICATION Spec
CONSTANTS Names = {}
  Uris = {}
  Tags = {}
  Prefixes = {}
CONSTRAINT Constr
POSTCONDITION Post
CHECK_DEADLOCK FALSE
"""


def setup():
    """the name server module with cooperative locks: as nameserver.threading for the locks it makes at run time, and - by
    executing the module's own code once more while the lock factories are replaced - for any lock it makes when it is imported
    (a lock in a decorator's closure or in a class body would otherwise block a thread behind the scheduler's back)"""
    import importlib
    import threading
    from Pyro5 import nameserver
    real = (threading.Lock, threading.RLock, threading.Event)
    threading.Lock, threading.RLock, threading.Event = S.CoopLock, S.CoopRLock, S.CoopEvent
    try:
        nameserver = importlib.reload(nameserver)
    finally:
        threading.Lock, threading.RLock, threading.Event = real
    nameserver.threading = S.shim_threading()
    return nameserver


_YS = {}


def yielding_storage(nameserver):
    """MemoryStorage whose every access is followed by a scheduling point, so that another thread can run between a
    storage access and whatever the caller does with the result on the same source line (CPython switches threads
    between bytecodes, not lines; the accesses to the shared storage are the points that matter)"""
    if "cls" in _YS:
        return _YS["cls"]
    base = nameserver.MemoryStorage

    def wrap(name):
        orig = getattr(base, name)

        def method(self, *a, **k):
            try:
                return orig(self, *a, **k)
            finally:
                sc = S.CUR
                if sc is not None and sc.controlled() and not sc.abort:
                    if SLOW[0] and name in ("__contains__", "__getitem__"):
                        sc.sleep(3.0)       # a storage that takes its time (longer than the communication timeout configured then)
                    else:
                        sc.yield_point()
        method.__name__ = name
        return method
    ns = {n: wrap(n) for n in ("__getitem__", "__setitem__", "__delitem__", "__contains__", "__len__", "everything", "remove_items")}
    _YS["cls"] = type("YieldingMemoryStorage", (base,), ns)
    return _YS["cls"]


RUNS = [0]
BIGSTEPS = [0]      # how many steps the held-back thread of the last run took
SLOW = [False]      # this run's storage is slow, and a communication timeout shorter than its accesses is configured


def run_once(nameserver, errors, chooser, scen, tfilter, dbdir=None):
    log = []

    def main():
        sc = S.CUR
        # the name server object is made, in turn, under every server type the process may be configured with (its operations are
        # called from several threads whatever the transport is: oneway calls, an embedding application, the auto-cleaner)
        from Pyro5 import config
        RUNS[0] += 1
        config.SERVERTYPE = ("thread", "multiplex")[RUNS[0] % 2]
        SLOW[0] = not dbdir and RUNS[0] % 5 == 0
        config.COMMTIMEOUT = 2.0 if SLOW[0] else 0.0
        if dbdir:
            db = os.path.join(dbdir, "lin.sqlite")
            if os.path.exists(db):
                os.unlink(db)
            ns = nameserver.NameServer(nameserver.SqlStorage(db))
        else:
            ns = nameserver.NameServer(yielding_storage(nameserver)())
        ns.register(c14.CH[7], c14.URI[0])
        for n in scen["init"]:
            ns.register(c14.name_str(n), c14.URI[2], metadata=[c14.TAG[1], c14.TAG[2]])
        log.append({"e": "init", "list": c14.listing(ns)})
        done = [0]

        def worker(th, ops):
            def body():
                for o in ops:       # one client doing these one after the other
                    log.append({"e": "call", "th": th, "o": o})
                    r = c14.apply_op(ns, o, errors)
                    log.append({"e": "ret", "th": th, "r": r})
                    done[0] += 1
            return body
        if scen.get("chain"):
            # the first operation in one thread, the other two one after the other in a second thread
            groups = [[scen["ops"][0]], list(scen["ops"][1:])]
        else:
            groups = [[o] for o in scen["ops"]]
        for i, ops in enumerate(groups):
            sc.spawn("t%d" % (i + 1), worker(i + 1, [c14.norm_op(o) for o in ops]))
        extra = 0
        if scen.get("cleaner") is not None:
            # the name server's own auto-cleaner makes one sweep meanwhile, in its own thread as always: the registration it finds
            # dead (nothing listens where it points, and has not for longer than the cleaner waits) is one more removal by name
            extra = 1
            target = c14.name_str(scen["cleaner"])
            tid = {}
            orig_remove = ns.remove

            def logged_remove(*a, **k):
                if sc.me() != tid.get("c"):
                    return orig_remove(*a, **k)
                nm = k.get("name", a[0] if a else None)
                o = c14.norm_op({"op": "remove", "sel": "name", "arg": c14.name_codes(nm), "kind": "none", "meta": False})
                log.append({"e": "call", "th": 3, "o": o})
                n = orig_remove(*a, **k)
                log.append({"e": "ret", "th": 3, "r": c14.res("count", n=n)})
                return n
            ns.remove = logged_remove

            class VT(object):
                naps = [0]

                @staticmethod
                def time():
                    return sc.now

                @staticmethod
                def sleep(d):
                    VT.naps[0] += 1
                    if VT.naps[0] > 1:
                        cleaner.stop = True        # one sweep
                    sc.sleep(d)
            config.NS_AUTOCLEAN = 3.0
            nameserver.time = VT
            cleaner = nameserver.AutoCleaner(ns)
            cleaner.last_cleaned = sc.now - 100.0
            cleaner.unreachable = {target: sc.now - 30.0}

            def cleaner_body():
                tid["c"] = sc.me()
                try:
                    cleaner.run()
                finally:
                    done[0] += 1
            sc.spawn("cleaner", cleaner_body)
        sc.yield_point(lambda: done[0] == len(scen["ops"]) + extra)
        # afterwards, sequentially: every shared name is looked up again (a completed history must explain these reads too)
        for nm in ([1], [1, 1]):
            o = {"op": "lookup", "name": nm, "meta": True}
            log.append({"e": "call", "th": 4, "o": o})
            log.append({"e": "ret", "th": 4, "r": c14.apply_op(ns, o, errors)})
        o = {"op": "count", "meta": False}
        log.append({"e": "call", "th": 4, "o": o})
        log.append({"e": "ret", "th": 4, "r": c14.apply_op(ns, o, errors)})
        log.append({"e": "end", "list": c14.listing(ns)})
    res, sc = memnet.run(main, chooser=chooser, trace_filter=tfilter, max_steps=200000 if len(scen["init"]) > 10 else 20000)
    BIGSTEPS[0] = getattr(chooser, "n", 0)
    from Pyro5 import config as _config
    import time as _time
    _config.COMMTIMEOUT = 0.0
    _config.NS_AUTOCLEAN = 0.0
    nameserver.time = _time
    SLOW[0] = False
    if res.get("hang"):
        log.append({"e": "hang"})
    for name, x in sc.errors:
        log.append({"e": "thread-error", "th": name, "exc": type(x).__name__})
    return log


def scen_class(scen):
    return "ops=" + "|".join(sorted(o["op"] + (":" + o["sel"] if "sel" in o else "") + (":safe" if o.get("safe") else "") for o in scen["ops"]))


def run(ctx):
    memnet.install()       # (the auto-cleaner's probes go to the in-memory network: nothing listens there)
    nameserver = setup()
    from Pyro5 import errors
    ctx.rule = ("cases = (scenario: initial state x one operation per thread, enumerated by TLC) x (thread schedule: preemption-bounded DFS "
                "over yield points at every source line of nameserver.py, then seeded random); distinct_nontrivial = distinct recorded "
                "call/return histories, each validated by TLC for linearizability")
    ctx.assumptions = ["line-granularity interleavings (GIL); storage methods of the sqlite back-end are separate transactions as in the code",
                       "the re-entrant lock is a cooperative shim installed as nameserver.threading"]
    for ops, present in (("AllRegSafe", "FALSE"), ("AllRem", "TRUE"), ("Mixed", "TRUE"), ("Mixed", "FALSE")):
        tlc.mc(ctx, "MC_NameServerImpl", cfg_text=MC_CFG % (ops, present))
    scen2 = tlc.gen(ctx, "Gen_NSLin", cfg_text=GEN_CFG % 2)
    scen3 = tlc.gen(ctx, "Gen_NSLin", cfg_text=GEN_CFG % 3)
    if len(scen2) < 500 or len(scen3) < 5000:
        raise util.MachineryError("scenario generation incomplete")
    rng = random.Random(ctx.seed + 15)
    rng.shuffle(scen3)
    # a reader overtaken by two writes that one other client makes one after the other (so their order is fixed): one preemption
    # is enough - the reader starts, the writer runs to completion, the reader resumes -, so every switch point is tried
    readers = {"lookup", "list", "yplookup", "count"}
    sandwiched = [s for s in scen3 if s["ops"][0]["op"] in readers and s["ops"][1]["op"] not in readers and s["ops"][2]["op"] not in readers
                  and (s["ops"][0].get("sel") in ("regex", "prefix", "all") or s["ops"][0]["op"] != "list")]
    # one writer adds an entry, the other takes one away: in between no state has neither or both by accident
    def weight(s):
        w1, w2, rd = s["ops"][1], s["ops"][2], s["ops"][0]
        moves = w1["op"] == "register" and w2["op"] == "remove" and not w1.get("safe") and w1.get("name") != w2.get("arg") and \
            (w2.get("arg") in s["init"] or w2.get("sel") != "name")
        return (not moves, not s["init"], {"regex": 0, "all": 1, "prefix": 2}.get(rd.get("sel"), 3), rd["op"] != "list")
    sandwiched.sort(key=weight)
    sandwiched = [dict(s, chain=True) for s in sandwiched[:ctx.pick(90, 900)]]
    scen3 = scen3[:ctx.pick(80, 3000)]
    nsfile = os.path.abspath(nameserver.__file__)

    def tfilter(code):
        return os.path.abspath(code.co_filename) == nsfile
    traces = {}
    runs = 0
    for scen, (bound, limit, nrand) in [(s, (ctx.pick(2, 3), ctx.pick(10, 60), ctx.pick(3, 20))) for s in scen2] + \
                                       [(s, (ctx.pick(1, 2), ctx.pick(8, 40), ctx.pick(4, 20))) for s in scen3] + \
                                       [(s, (1, ctx.pick(60, 150), 1)) for s in sandwiched]:
        def once(ch):
            return run_once(nameserver, errors, ch, scen, tfilter)
        for ch, tr in S.explore(once, max_preemptions=bound, limit=limit, rng=rng, random_runs=nrand):
            runs += 1
            key = json.dumps(tr, sort_keys=True)
            if key not in traces:
                traces[key] = (tr, {"scenario": scen, "schedule": list(ch.names), "backend": "memory"})
    # the auto-cleaner's sweep next to two clients' operations: the cleaner finds one of the initially registered names dead
    with_init = [s for s in scen2 if s["init"]]
    rng.shuffle(with_init)
    for scen in with_init[:ctx.pick(60, 600)]:
        scen = dict(scen, cleaner=scen["init"][RUNS[0] % len(scen["init"])])

        def once_cl(ch, scen=scen):
            return run_once(nameserver, errors, ch, scen, tfilter)
        for ch, tr in S.explore(once_cl, max_preemptions=2, limit=ctx.pick(12, 60), rng=rng, random_runs=ctx.pick(3, 12)):
            runs += 1
            key = "cl" + json.dumps(tr, sort_keys=True)
            if key not in traces:
                traces[key] = (tr, {"scenario": scen, "schedule": list(ch.names), "backend": "memory+cleaner"})
    # a listing that matches several hundred names, while another client removes the name that comes first and then the one that
    # comes last: the reader is held back after k of its steps (every line, every storage access) for k spread over its whole run,
    # the writer then runs to the end, the reader resumes - whatever the listing shows must be the state at one moment
    from .. import daemonlab as L
    digits = (1, 3, 5, 6)
    big = [[1] + [digits[(i // 4 ** j) % 4] for j in range(5)] for i in range(300)]
    scen_big = {"init": big, "chain": True,
                "ops": [{"op": "list", "sel": "prefix", "arg": [1], "kind": "none", "meta": False},
                        {"op": "remove", "sel": "name", "arg": big[0], "kind": "none", "meta": False},
                        {"op": "remove", "sel": "name", "arg": big[-1], "kind": "none", "meta": False}]}
    probe = run_once(nameserver, errors, L._DelayThread("t1", 10 ** 9), scen_big, tfilter)
    nsteps = BIGSTEPS[0]
    for k in range(3, max(nsteps, 4), max(1, nsteps // ctx.pick(48, 400))):
        tr = run_once(nameserver, errors, L._DelayThread("t1", k), scen_big, tfilter)
        runs += 1
        key = "big" + json.dumps([e for e in tr if e["e"] in ("call", "ret")], sort_keys=True)
        if key not in traces:
            traces[key] = (tr, {"scenario": {"init": "300 names", "ops": scen_big["ops"], "chain": True}, "schedule": ["t1 held back after %d steps" % k], "backend": "memory+large"})
    if True:
        # the sqlite storage reads and writes an entry in several statements: every pair of operations (quick: the pairs with a reader
        # next to a writer, sampled)
        dbdir = tempfile.mkdtemp(prefix="verif_c15_", dir="/dev/shm" if os.path.isdir("/dev/shm") else None)
        try:
            readers = {"lookup", "list", "yplookup", "count"}
            sql_scens = scen2 if not ctx.quick else \
                [s for s in scen2 if len({o["op"] for o in s["ops"]} & readers) == 1][::3][:60]
            for scen in sql_scens:
                def once_sql(ch):
                    return run_once(nameserver, errors, ch, scen, tfilter, dbdir=dbdir)
                for ch, tr in S.explore(once_sql, max_preemptions=1, limit=ctx.pick(8, 12), rng=rng, random_runs=ctx.pick(2, 4)):
                    runs += 1
                    key = "sql" + json.dumps(tr, sort_keys=True)
                    if key not in traces:
                        traces[key] = (tr, {"scenario": scen, "schedule": list(ch.names), "backend": "sqlite"})
        finally:
            shutil.rmtree(dbdir, ignore_errors=True)
    ctx.evaluations = runs
    swept = sum(1 for tr, m in traces.values() if m["backend"] == "memory+cleaner"
                and any(e["e"] == "ret" and e.get("th") == 3 and e["r"].get("n") == 1 for e in tr))
    ctx.extra["histories_in_which_the_cleaner_removed_its_name"] = swept
    items = list(traces.values())
    for k in traces:
        ctx.nontrivial.add(k)
    for i in (0, len(items) // 2, len(items) - 1):
        ctx.sample({"scenario": items[i][1]["scenario"], "history": items[i][0]})
    verdicts, _ = tlc.validate(ctx, "Trace_NSLin", [tr for tr, _ in items], cfg_text=TRACE_CFG, mode="search", batch=3000)
    for (tr, meta), v in zip(items, verdicts):
        if v:
            internal = [e["r"].get("exc", "") for e in tr if e["e"] == "ret" and e["r"]["r"] == "other"]
            hang = any(e["e"] in ("hang", "thread-error") for e in tr)
            kind = "C15.InternalError(%s)" % internal[0].split(":")[0] if internal else ("C15.Hang" if hang else "C15.NotLinearizable")
            ctx.violation("%s [%s %s]" % (kind, meta["backend"], scen_class(meta["scenario"])), {"meta": meta, "history": tr})
    if not ctx.violations and swept < 20:
        raise util.MachineryError("vacuity: the auto-cleaner removed its name in only %d histories" % swept)


def replay(ctx, path):
    nameserver = setup()
    from Pyro5 import errors
    rep = json.load(open(path))
    nsfile = os.path.abspath(nameserver.__file__)
    bad = 0
    for case in rep["cases"]:
        meta = case["meta"]
        names = list(meta["schedule"])

        def chooser(en, sc, names=names):
            if names:
                n = names.pop(0)
                if n in en:
                    return n
            return en[0]
        tr = run_once(nameserver, errors, chooser, meta["scenario"], lambda code: os.path.abspath(code.co_filename) == nsfile)
        v, _ = tlc.validate(ctx, "Trace_NSLin", [tr], cfg_text=TRACE_CFG, mode="search")
        print("replay:", scen_class(meta["scenario"]), "->", v[0] or "accepted", "| same history:", tr == case["history"])
        bad += bool(v[0])
    if bad:
        print("VIOLATION property=%s replay=%s" % (ctx.prop, path))
    return 1 if bad else 0
