"""C04 - deserialisation builds only data and a fixed set of known classes.

MC    : ClassTag.tla (Decide: which tag classes may be built, with or without the exception flag; OnlyClosedSet, DunderNeverBuilt,
        ForeignNeverBuilt).
Gen   : Gen_ClassTag.tla enumerates tag class x exception flag x position of the tagged dict x shape of its members.
Drive : every case is concretised with several tags per class, encoded with each real serializer and decoded with the real
        loads and loadsCall under an interpreter audit hook, a sys.modules snapshot and a census of every type reachable in
        the result.
Trace : Trace_ClassTag.tla (monitor).
"""
import json
import random
import sys

from .. import tlc, util

TAGS = {
    "dunder": ["os.__system", "builtins.__import__", "__main__.X", "Pyro5.core.__dict__", "x__y.Z", "Pyro5.errors.__builtins__"],
    "uri": ["Pyro5.core.URI"], "proxy": ["Pyro5.client.Proxy"], "daemon": ["Pyro5.server.Daemon"],
    "util_known": ["Pyro5.util.SerpentSerializer", "Pyro5.util.MarshalSerializer", "Pyro5.util.JsonSerializer", "Pyro5.util.MsgpackSerializer"],
    "util_unknown": ["Pyro5.util.Other", "Pyro5.util.get_serializer", "Pyro5.util."],
    "errors_pyro": ["Pyro5.errors.NamingError", "Pyro5.errors.PyroError", "Pyro5.errors.CommunicationError", "Pyro5.errors.SecurityError"],
    "errors_other": ["Pyro5.errors.sys", "Pyro5.errors.get_pyro_traceback", "Pyro5.errors.config", "Pyro5.errors.traceback", "Pyro5.errors.linecache",
                     # names of classes that exist elsewhere, but not in that module
                     "Pyro5.errors.ValueError", "Pyro5.errors.SystemExit", "Pyro5.errors.KeyboardInterrupt", "Pyro5.errors.URI", "Pyro5.errors.Proxy"],
    "errors_missing": ["Pyro5.errors.NoSuchError", "Pyro5.errors.", "Pyro5.errors.naming.Error"],
    "struct_error": ["struct.error"], "exc_wrapper": ["Pyro5.core._ExceptionWrapper"],
    "bare_builtin_exc": ["ValueError", "KeyError", "ZeroDivisionError", "OSError", "StopIteration", "SyntaxError", "IndentationError"],
    "bare_nonexc": ["dict", "print", "open", "object", "eval", "bytearray"],
    "builtins_exc": ["builtins.ValueError", "builtins.OSError", "builtins.KeyboardInterrupt", "builtins.SyntaxError", "builtins.TabError",
                     "builtins.ExceptionGroup", "builtins.BaseExceptionGroup"],
    "builtins_nonexc_class": ["builtins.bytearray", "builtins.object", "builtins.list", "builtins.type", "builtins.memoryview"],
    "builtins_function": ["builtins.eval", "builtins.open", "builtins.print", "builtins.exec", "builtins.compile", "builtins.input"],
    "builtins_dotted_tail": ["builtins.ValueError.mro", "builtins.str.join", "builtins.ValueError.with_traceback"],
    "exceptions_ns": ["exceptions.ValueError", "exceptions.KeyError"],
    "sqlite_error": ["sqlite3.OperationalError", "sqlite3.Error", "sqlite3.IntegrityError"],
    "sqlite_other": ["sqlite3.connect", "sqlite3.Connection", "sqlite3.dbapi2.Error", "sqlite3.Row"],
    "foreign_ns": ["os.system", "subprocess.Popen", "subprocess.CalledProcessError", "json.JSONDecodeError", "shutil.SameFileError", "socket.socket",
                   "colorsys.Error", "decimal.Decimal", "collections.OrderedDict", "zlib.error", "ssl.SSLError", "importlib.import_module",
                   b"os.system", b"subprocess.Popen",
                   # classes that serializers write natively or as special dicts of their own (none of them is read back from a tag)
                   "collections.OrderedDict", "uuid.UUID", "datetime.datetime", "collections.deque", "array.array", "fractions.Fraction",
                   "collections.OrderedDict", "datetime.timedelta", "collections.defaultdict", "collections.Counter"],
    "nodot": ["system", "Popen", "Local", "URI", "complex", "set", "bytes", "OrderedDict", "frozenset", "Decimal", "tuple"],
    "float_pseudo": ["float"],
    "falsy": ["", None, 0, False, b"", []],
    "nonstring": [5, 1.5, True, ["builtins.ValueError"], ("Pyro5.core.URI",), {"a": 1},
                  # a tag that is itself the class dict of a Proxy (msgpack rebuilds it before the outer dict is looked at)
                  {"__class__": "Pyro5.client.Proxy", "state": ["PYRO:obj@localhost:1", [], [], [], "hello", None]}],
    "testlocal": ["harness.props.c04.Local", "tests.test_serialize.Something", "c04.Local"],
    "pyro_internal_other": ["Pyro5.server.DaemonObject", "Pyro5.core.resolve", "Pyro5.nameserver.NameServer", "Pyro5.client.BatchProxy",
                            "Pyro5.socketutil.SocketConnection", "Pyro5.server.serve", "Pyro5.client.SerializedBlob", "Pyro5.core.locate_ns"],
}
CONVERTING = {"top", "in_list", "in_dict", "in_tuple", "deep", "in_wrapper"}
AUDIT = []
ROTATE = {}
ARMED = [False]
WATCH = ("exec", "open", "socket.", "subprocess.", "os.system", "os.exec", "os.spawn", "os.posix_spawn", "os.fork", "ctypes.dlopen", "import")


class Local(object):
    """a harness-local class that must never be instantiated by a decoder"""
    created = []

    def __init__(self, *a, **k):
        Local.created.append(1)


def hook(event, args):
    if not ARMED[0]:
        return
    if event == "import":
        AUDIT.append("import:" + str(args[0]))
    elif event.startswith(WATCH[:-1]):
        if event == "open" and args and isinstance(args[0], str) and args[0].endswith((".pyc", ".py")):
            return
        AUDIT.append(event)


def tagged(tag, flagged, body, tagclass, rng):
    d = {"__class__": tag}
    if flagged:
        d["__exception__"] = True
    valid_state = {"uri": ["PYRO", "obj", None, "host", 1234], "proxy": ["PYRO:obj@host:1234", [], ["m"], [], "hello", None], "daemon": []}
    if body == "minimal":
        pass
    elif body == "plain_args":
        d["args"] = ["a message", 42]
        d["attributes"] = {"custom": 1}
        d["state"] = valid_state.get(tagclass, [1, 2, 3])
        d["value"] = "1.5"
        d["exception"] = {"__class__": "ValueError", "__exception__": True, "args": ["inner"], "attributes": {}}
    elif body == "empty_args":
        d["args"] = []
        d["attributes"] = {}
        d["state"] = []
        d["value"] = "0"
        d["exception"] = {"__class__": "ValueError", "__exception__": True, "args": [], "attributes": {}}
    elif body == "one_str_arg":
        d["args"] = [rng.choice(["1+1", "/dev/null", "true", "os"])]
        d["attributes"] = {}
        d["state"] = ["PYRO:obj@host:1"]
        d["value"] = "7"
        d["exception"] = {"__class__": "KeyError", "__exception__": True, "args": ["k"], "attributes": {}}
    elif body == "hostile_args":
        d["args"] = rng.choice([None, 7, "notalist", [[1] * 3] * 3, {"x": 1}])
        d["attributes"] = {}
        d["state"] = rng.choice([None, 7, "str", {"a": 1}])
        d["value"] = rng.choice(["__import__('os').system('true')", None, [1]])
        d["exception"] = rng.choice([None, 5, "ValueError('x')", ["a"]])
    elif body == "hostile_attributes":
        d["args"] = ["m"]
        d["attributes"] = {"__class__": "os.system", "__dict__": {"a": 1}, "args": [9], "__reduce__": "boom", "_pyroTraceback": ["tb"], "with_traceback": 1}
        d["state"] = valid_state.get(tagclass, [])
        d["value"] = "nan"
        d["exception"] = {"__class__": "os.system", "__exception__": True, "args": ["true"]}
    elif body == "hostile_state":
        d["args"] = ["m"]
        d["state"] = rng.choice([[1, 2], ["PYRO", "o", None, "h", "notaport", 6, 7], ["not a uri", 1, 2, 3, 4, 5], [None] * 6, [["x"]] * 5])
        d["value"] = "1e400"
        d["exception"] = {"__class__": "Pyro5.core._ExceptionWrapper", "exception": {"__class__": "subprocess.Popen", "args": [["true"]]}}
    elif body in ("proxy_members", "proxy_in_state"):
        # a Proxy contacts its daemon as soon as it is iterated or asked for an attribute: rebuilt members of this kind must never be
        # treated as the list / dict / text the decoder expects there
        # (no metadata in its state: the first attribute access makes it connect)
        px = {"__class__": "Pyro5.client.Proxy", "state": ["PYRO:obj@localhost:1", [], [], [], "hello", None]}
        if body == "proxy_members":
            ROTATE[tagclass] = which = (ROTATE.get(tagclass, -1) + 1) % 9
            d["args"] = px if which in (0, 4) else ["m"]
            d["attributes"] = px if which in (1, 4) else {}
            d["state"] = px if which in (2, 4) else valid_state.get(tagclass, [])
            if which == 8:
                d["args"] = ["m", px]                         # a proxy as the second argument (some constructors unpack theirs)
            if which == 5:
                d["attributes"] = {"args": px}                # an attribute whose setter converts what it is given
            elif which in (6, 7):
                first = valid_state.get(tagclass, ["PYRO"])[:1] or ["x"]
                d["state"] = first + [px] + ([[]] if which == 7 else [])      # a state that is too short
            d["exception"] = px if which in (3, 4) else {"__class__": "KeyError", "__exception__": True, "args": ["k"], "attributes": {}}
            d["value"] = px if which == 4 else "1"
        else:
            base = list(valid_state.get(tagclass, ["PYRO", "obj", None, "host", 1234]))
            ROTATE["st:" + tagclass] = r = ROTATE.get("st:" + tagclass, -1) + 1
            k = r % len(base) if base else 0
            if base and base[0] == "PYRO":
                base[0] = ("PYRO", "PYRONAME", "PYROMETA")[(r // len(base)) % 3]      # (the object of a PYROMETA uri is a set of tags)
            if base:
                base[k] = px
                if tagclass == "proxy" and k == 0 and (r // len(base)) % 2 == 1:
                    # the proxy's uri is itself a rebuilt URI object whose host is a proxy: whatever looks at the location looks into it
                    base[0] = {"__class__": "Pyro5.core.URI", "state": ["PYRO", "obj", None, px, 1234]}
            d["state"] = base or [px]
            d["args"] = [px]
            d["attributes"] = {"p": px}
    elif body == "nested_tag_in_args":
        d["args"] = [{"__class__": "Pyro5.core.URI", "state": ["PYRO", "obj", None, "host", 1234]}]
        d["attributes"] = {"u": {"__class__": "Pyro5.core.URI", "state": ["PYRO", "obj", None, "host", 1234]}}
        d["state"] = valid_state.get(tagclass, [])
        d["value"] = "2.5"
        d["exception"] = {"__class__": "KeyError", "__exception__": True, "args": ["k"], "attributes": {}}
    # the member names under which serializers write the content of their own special dicts (an ordered dict's items, a complex
    # number's parts, bytes) - a decoder that honoured such a tag would look there
    if body != "minimal":
        ROTATE["xm"] = xr = ROTATE.get("xm", -1) + 1
        extra = {"items": [["k", 1], ["l", 2]], "real": 1.5, "imag": "nan", "data": "QUJD", "encoding": "base64", "name": "n",
                 "values": [1, 2], "year": 2020, "hex": "12345678123456781234567812345678"}
        if body in ("proxy_members", "proxy_in_state"):
            names = sorted(extra)
            extra[names[xr % len(names)]] = {"__class__": "Pyro5.client.Proxy", "state": ["PYRO:obj@localhost:1", [], [], [], "hello", None]}
        elif body == "hostile_args":
            extra["items"] = rng.choice([None, 7, "ab", [[1, 2, 3]], {"a": 1}])
            extra["real"] = rng.choice([None, "x", [1]])
        for k, v in extra.items():
            d.setdefault(k, v)
    return d


def place(d, pos):
    if pos == "top":
        return d
    if pos == "in_list":
        return [1, d, "x"]
    if pos == "in_dict":
        return {"k": d, "other": 2}
    if pos == "in_tuple":
        return (d, 5)
    if pos == "deep":
        return {"a": [{"b": [d]}]}
    if pos == "as_exception_arg":
        return {"__class__": "ValueError", "__exception__": True, "args": [d], "attributes": {}}
    if pos == "as_exception_attribute":
        return {"__class__": "Pyro5.errors.NamingError", "__exception__": True, "args": ["x"], "attributes": {"payload": d}}
    if pos == "in_wrapper":
        return {"__class__": "Pyro5.core._ExceptionWrapper", "exception": d}
    if pos == "as_state_member":
        return {"__class__": "Pyro5.core.URI", "state": ["PYRO", d, None, "host", 1]}
    raise util.MachineryError(pos)


def census(obj, out, seen, mods):
    core, client, server, serializers, errors, sqlite3, struct = mods
    if id(obj) in seen:
        return
    seen.add(id(obj))
    t = type(obj)
    if obj is None or t in (bool, int, float, str, bytes, bytearray, complex, memoryview):
        out.add("data")
    elif t in (list, tuple, set, frozenset):
        out.add("data")
        for x in obj:
            census(x, out, seen, mods)
    elif t is dict:
        out.add("data")
        for k, v in obj.items():
            census(k, out, seen, mods)
            census(v, out, seen, mods)
    elif t is core.URI:
        out.add("URI")
        for x in (obj.__dict__ if hasattr(obj, "__dict__") else {}).values():
            census(x, out, seen, mods)
    elif t is client.Proxy:
        out.add("Proxy")
        for k in ("_pyroUri", "_pyroOneway", "_pyroMethods", "_pyroAttrs", "_pyroHandshake", "_pyroSerializer"):
            try:
                census(object.__getattribute__(obj, k), out, seen, mods)
            except AttributeError:
                pass
    elif t is server.Daemon:
        out.add("Daemon")
    elif isinstance(obj, serializers.SerializerBase) and t.__module__ == "Pyro5.serializers":
        out.add("Serializer")
    elif t is core._ExceptionWrapper:
        out.add("ExcWrapper")
        census(obj.exception, out, seen, mods)
    elif isinstance(obj, BaseException):
        if t.__module__ == "Pyro5.errors" and isinstance(obj, errors.PyroError):
            out.add("PyroError")
        elif t is struct.error:
            out.add("StructError")
        elif t.__module__ == "sqlite3" :
            out.add("SqliteError")
        elif t.__module__ == "builtins":
            out.add("BuiltinException")
        else:
            out.add("OTHER:" + t.__module__ + "." + t.__name__)
        census(obj.args, out, seen, mods)
        census(dict(vars(obj)), out, seen, mods)
    else:
        out.add("OTHER:" + t.__module__ + "." + t.__name__)


class _Sink(object):
    pass


def switch_logging_on():
    """the library's own logging at its most talkative, into a handler that builds every message text and throws it away (a
    decoder must not do, in order to *say* something about what it decodes, what it must not do with it)"""
    import logging

    class Sink(logging.Handler):
        def emit(self, record):
            record.getMessage()
    lg = logging.getLogger("Pyro5")
    lg.setLevel(logging.DEBUG)
    lg.propagate = False
    lg.addHandler(Sink())


def render(decoded):
    from Pyro5 import errors

    def fails():
        raise ValueError("the request that carried it fails")

    def handles(held):      # (a frame in the middle, with the decoded value as a local variable)
        fails()
        return held
    try:
        handles(decoded)
    except ValueError:
        return errors.format_traceback(detailed=True)


def run(ctx):
    switch_logging_on()
    render([1, "warm-up"])
    import sqlite3
    import struct
    from Pyro5 import core, client, server, serializers, errors
    mods = (core, client, server, serializers, errors, sqlite3, struct)
    ctx.rule = ("cases = (tag class x exception flag x position x member shape from Gen_ClassTag: 3600) x concrete tags per class x 4 "
                "serializers x {loads, loadsCall}; plus application-registered converter cases; distinct_nontrivial = distinct decoded "
                "payloads whose tag is not one of the honoured classes")
    ctx.assumptions = ["monitored audit events: import, exec, open, socket.*, subprocess.*, os.system/exec*/spawn*/fork, ctypes.dlopen (compile "
                       "is not monitored: serpent parses its literal with ast.parse, nothing is executed); sys.modules is compared before/after",
                       "each serializer is warmed up (incl. the lazy sqlite3 import) before the monitor is armed"]
    tlc.mc(ctx, "ClassTag", cfg="MC_ClassTag.cfg")
    cases = tlc.gen(ctx, "Gen_ClassTag", cfg="Gen_ClassTag.cfg")
    if len(cases) != 27 * 2 * 9 * 10:
        raise util.MachineryError("expected %d cases, got %d" % (27 * 2 * 9 * 10, len(cases)))
    sys.addaudithook(hook)
    rng = random.Random(ctx.seed + 4)
    sers = sorted(serializers.serializers.items())
    # warm-up
    for name, ser in sers:
        for payload in ([1, "a", {"k": (1, 2)}], {"__class__": "sqlite3.OperationalError", "__exception__": True, "args": ["x"], "attributes": {}},
                        {"__class__": "Pyro5.core.URI", "state": ["PYRO", "o", None, "h", 1]}, {"__class__": "ValueError", "__exception__": True, "args": []}):
            try:
                ser.loads(ser.dumps(payload))
                ser.loadsCall(ser.dumpsCall("o", "m", [payload], {}))
            except Exception:
                pass
    conv_called = []
    serializers.SerializerBase.register_dict_to_class("harness.Registered", lambda cn, d: conv_called.append(1) or Local())
    traces = []
    ntags = ctx.pick(1, 3)
    jobs = []
    for i, c in enumerate(cases):
        tags = TAGS[c["tag"]]
        dangerous = c["tag"] in ("foreign_ns", "builtins_nonexc_class", "builtins_function", "bare_nonexc", "sqlite_other", "pyro_internal_other",
                                 "errors_other", "testlocal", "falsy", "nonstring")
        every = (dangerous and c["flagged"] and c["body"] in ("plain_args", "empty_args", "one_str_arg") and c["pos"] in ("top", "in_list", "in_wrapper")) \
            or (c["tag"] in ("builtins_exc", "bare_builtin_exc") and c["flagged"] and c["body"] == "proxy_members" and c["pos"] in ("top", "in_list"))
        for j in range(len(tags) if every else min(ntags, len(tags))):
            jobs.append((c, tags[(i + j) % len(tags)], False))
    for pos in ("top", "in_list", "deep", "in_wrapper", "as_exception_arg"):
        jobs.append(({"tag": "testlocal", "flagged": False, "pos": pos, "body": "minimal"}, "harness.Registered", True))
        jobs.append(({"tag": "testlocal", "flagged": True, "pos": pos, "body": "plain_args"}, "harness.Registered", True))
    for c, tag, registered in jobs:
        d = tagged(tag, c["flagged"], c["body"], c["tag"], rng)
        payload = place(d, c["pos"])
        for name, ser in sers:
            for path in ("loads", "loadsCall"):
                try:
                    blob = ser.dumps(payload) if path == "loads" else ser.dumpsCall("obj", "meth", [payload], {"kw": payload})
                except Exception:
                    continue        # this serializer cannot even carry the raw structure
                before = set(sys.modules)
                del AUDIT[:]
                del conv_called[:]
                del Local.created[:]
                built = set()
                ARMED[0] = True
                try:
                    res = ser.loads(blob) if path == "loads" else ser.loadsCall(blob)
                    outcome = "value"
                except Exception as x:
                    res = None
                    outcome = "error"
                    exc = type(x).__name__
                finally:
                    ARMED[0] = False
                if outcome == "value":
                    # what a daemon with DETAILED_TRACEBACK on does when the request that carried the value fails afterwards: the
                    # text of every local variable of the failing frames goes into the traceback it sends - looking at what was
                    # decoded must not do what decoding it must not do
                    ARMED[0] = True
                    try:
                        render(res)
                    except Exception:
                        pass
                    finally:
                        ARMED[0] = False
                    census(res, built, set(), mods)
                if Local.created and not registered:
                    built.add("OTHER:harness.Local")
                newmods = sorted(m for m in set(sys.modules) - before)
                tr = {"tag": c["tag"], "flagged": c["flagged"], "registered": registered, "ser": name, "path": path, "pos": c["pos"], "body": c["body"],
                      "concrete": tag if isinstance(tag, str) else repr(tag), "outcome": outcome, "built": sorted(built), "audit": sorted(set(AUDIT)), "newmods": newmods,
                      "converter_called": bool(conv_called), "converts": c["pos"] in CONVERTING or name == "msgpack",
                      "outer": {"as_exception_arg": ["BuiltinException"], "as_exception_attribute": ["PyroError"], "in_wrapper": ["ExcWrapper"],
                                "as_state_member": ["URI"]}.get(c["pos"], []) + (["Proxy", "URI"] if c["body"].startswith("proxy_") else [])}
                if outcome == "error":
                    tr["exc"] = exc
                traces.append(tr)
    serializers.SerializerBase.unregister_dict_to_class("harness.Registered")
    # life cycle of an application converter: registered through one entry point, withdrawn through another; while registered every
    # serializer hands the tag to it, once withdrawn every serializer rejects the tag again
    import Pyro5.api as api
    entries = [("base", serializers.SerializerBase), ("api", None)] + [(n, type(sr)) for n, sr in sers]
    for rname, rcls in entries:
        for uname, ucls in entries:
            tagname = "harness.Lifecycle"
            conv = lambda cn, d: conv_called.append(1) or Local()       # noqa: E731
            (api.register_dict_to_class if rcls is None else rcls.register_dict_to_class)(tagname, conv)
            for phase in ("registered", "withdrawn"):
                if phase == "withdrawn":
                    (api.unregister_dict_to_class if ucls is None else ucls.unregister_dict_to_class)(tagname)
                payload = place({"__class__": tagname, "x": 1}, "in_list")
                for name, ser in sers:
                    del conv_called[:]
                    del Local.created[:]
                    built = set()
                    try:
                        res = ser.loads(ser.dumps(payload))
                        outcome = "value"
                        census(res, built, set(), mods)
                    except Exception as x:
                        outcome, exc = "error", type(x).__name__
                    if Local.created and phase == "withdrawn":
                        built.add("OTHER:harness.Local")
                    traces.append({"tag": "testlocal", "flagged": False, "registered": phase == "registered", "ser": name, "path": "loads", "pos": "in_list",
                                   "body": "lifecycle:%s>%s" % (rname, uname), "concrete": tagname, "outcome": outcome, "built": sorted(built), "audit": [],
                                   "newmods": [], "converter_called": bool(conv_called), "converts": True, "outer": []})
            # leave nothing behind, whatever the entry points did
            for _, c2 in entries:
                try:
                    (api.unregister_dict_to_class if c2 is None else c2.unregister_dict_to_class)(tagname)
                except Exception:
                    pass
    honoured = {"uri", "proxy", "daemon", "util_known", "errors_pyro", "struct_error", "exc_wrapper"}
    for tr in traces:
        ctx.count(json.dumps([tr["concrete"], tr["flagged"], tr["ser"], tr["path"], tr["pos"], tr["body"]]) if tr["tag"] not in honoured else None)
    for i in (0, len(traces) // 3, len(traces) - 1):
        ctx.sample(traces[i])
    verdicts, _ = tlc.validate(ctx, "Trace_ClassTag", traces, cfg="Trace_ClassTag.cfg", batch=10000)
    nval = sum(1 for t in traces if t["outcome"] == "value")
    for tr, v in zip(traces, verdicts):
        if v:
            ctx.violation("%s [tag=%s flagged=%s ser=%s path=%s pos=%s]" % (v, tr["tag"], tr["flagged"], tr["ser"], tr["path"], tr["pos"]), tr)
    if not ctx.violations and (nval < len(traces) // 20 or nval > len(traces) * 0.8):
        raise util.MachineryError("vacuity: %d of %d decodes produced a value" % (nval, len(traces)))
    ctx.extra["decodes"] = len(traces)
    ctx.extra["decodes_producing_a_value"] = nval
    ctx.exhaustive = False


def replay(ctx, path):
    print("C04 replay: rerun the check with the same VERIF_SEED (payloads are regenerated deterministically)")
    return 0
