"""E01 (extra, beyond the listed properties) - the name server's auto-cleaner behaves as AutoClean.tla says.

MC    : AutoClean.tla (RemovesOnlyDeadStep, ReachableKept, DeadRemovedInTime; NoEarlyRemoval is shown to FAIL: the failure
        memory is keyed by name and survives removals - documented behaviour, see DESIGN.md section 12).
Gen   : Gen_AutoClean.tla, random walks: a few environment steps (register / remove / location down / up), then quiet.
Drive : a real NameServer with a real AutoCleaner thread under the virtual clock; locations are listeners of the in-memory
        transport that are closed and re-opened; the listing is observed every two seconds.
Trace : Trace_AutoClean.tla: the cleaner's wake-ups are silent steps bounded by the time of the next logged event.
"""
import json

from .. import memnet, tlc, util
from .. import sched as S

UNIXPATH = "verif-e01-location2.sock"
GEN_CFG = """INIT GInit
NEXT GNext
CONSTANTS Names = {"a", "b"}
  Servers = {"s1", "s2"}
  Delay = 2
  Every = %d
  MaxUnreach = 20
  Horizon = %d
  MaxEnv = %d
CHECK_DEADLOCK FALSE
"""
TRACE_CFG = """SPECIFICATION TSpec
CONSTANTS Names = {"a", "b"}
  Servers = {"s1", "s2"}
  Delay = 2
  Every = %d
  MaxUnreach = 20
  Horizon = 100000
CONSTRAINT Verdict
CHECK_DEADLOCK FALSE
"""


def run_scripts(scripts, horizon, every):
    from Pyro5 import config, nameserver
    nameserver.time = S.VTime
    traces = []

    def main():
        sc = S.CUR
        net = memnet.NET
        for script in scripts:
            sc.set_budget(200000)
            base = sc.now
            config.NS_AUTOCLEAN = float(every)
            ns = nameserver.NameServer()
            ports = {}
            listeners = {}
            for s in ("s1", "s2"):
                # (the second location is a Unix domain socket: objects registered there have a socket name, not a host and port)
                ls = net.create_socket(bind=("127.0.0.1", 0)) if s == "s1" else net.create_socket(bind=UNIXPATH)
                ports[s] = ls.addr[1]
                listeners[s] = ls
            cleaner = nameserver.AutoCleaner(ns)
            sc.adopt_start(cleaner, "ac")
            tr = []
            events = {e["t"]: e for e in script}
            t = 1
            sc.sleep(1)
            try:
                while t <= horizon:
                    e = events.get(t)
                    if e is not None:
                        if e["a"] == "register":
                            ns.register(e["n"], ("PYRO:obj_%s@127.0.0.1:%d" % (e["n"], ports[e["s"]])) if e["s"] == "s1"
                                        else ("PYRO:obj_%s@./u:%s" % (e["n"], UNIXPATH)), safe=False)
                        elif e["a"] == "remove":
                            ns.remove(e["n"])
                        elif e["a"] == "down":
                            listeners[e["s"]].close()
                        elif e["a"] == "up":
                            listeners[e["s"]] = net.create_socket(bind=("127.0.0.1", ports[e["s"]])) if e["s"] == "s1" else net.create_socket(bind=UNIXPATH)
                        tr.append(dict(e, e="env"))
                    names = sorted(n for n in ns.list() if n != "Pyro.NameServer")
                    tr.append({"e": "obs", "a": "", "n": "", "s": "", "t": t, "names": names})
                    t += 2
                    sc.sleep(2)
            except S.Hang:
                tr.append({"e": "obs", "a": "", "n": "", "s": "", "t": t, "names": ["?hang"]})
            cleaner.stop = True
            sc.sleep(2.5)       # lets the cleaner thread see the flag and end
            for ls in listeners.values():
                ls.close()
            traces.append(tr)
    memnet.run(main, max_steps=200000000)
    if len(traces) < len(scripts):
        raise util.MachineryError("session ended early (%d of %d)" % (len(traces), len(scripts)))
    return traces


def run(ctx):
    memnet.install()
    ctx.rule = ("cases = environment scripts from Gen_AutoClean walks (at most 6-9 steps, horizon 71-121 s) x NS_AUTOCLEAN 3 and 4; "
                "distinct_nontrivial = distinct scripts in which the cleaner removes a name")
    ctx.assumptions = ["environment steps happen at odd seconds, the cleaner wakes at even seconds (no simultaneous events)",
                       "a location is 'up' when something listens on its port"]
    tlc.mc(ctx, "AutoClean", cfg="MC_AutoClean.cfg")
    removed = 0
    for every, horizon, maxenv in ((3, 71, 6), (4, ctx.pick(71, 121), ctx.pick(6, 9))):
        scripts = tlc.gen(ctx, "Gen_AutoClean", cfg_text=GEN_CFG % (every, horizon - 1, maxenv), workers=1,
                          extra=("-simulate", "num=%d" % ctx.pick(250, 3000), "-depth", "120", "-seed", str(ctx.seed + 101 + every)))
        if len(scripts) < 100:
            raise util.MachineryError("script generation incomplete (%d)" % len(scripts))
        traces = run_scripts(scripts, horizon, every)
        for s, tr in zip(scripts, traces):
            had = set()
            gone = False
            for e in tr:
                if e["e"] == "obs":
                    cur = set(e["names"])
                    gone = gone or bool(had - cur - {x["n"] for x in tr if x["e"] == "env" and x["a"] == "remove"})
                    had = cur
            removed += gone
            ctx.count(json.dumps([every, s]) if gone else None)
        ctx.sample({"every": every, "script": scripts[0], "trace_tail": traces[0][-3:]})
        verdicts, _ = tlc.validate(ctx, "Trace_AutoClean", traces, cfg_text=TRACE_CFG % every, batch=1000)
        for s, tr, v in zip(scripts, traces, verdicts):
            if v:
                ctx.violation("%s [sweep every %d s]" % (v, every), {"every": every, "script": s, "trace": tr})
    if not ctx.violations and removed < 10:
        raise util.MachineryError("vacuity: the cleaner removed a name in only %d scripts" % removed)
    ctx.extra["scripts_with_a_removal_by_the_cleaner"] = removed


def replay(ctx, path):
    print("E01 replay: rerun the check with the same VERIF_SEED")
    return 0
