"""E05 (extra, beyond the listed properties) - oneway calls and who waits for whom.

MC    : Oneway.tla (ReplyAfterEnd, OneAtATime, Forward, AllDone under fairness) for sample request lists, both server types.
Gen   : Gen_Oneway.tla: request lists (normal call / oneway call / oneway batch x fast / slow / failing method; two connections) with
        every order of the environment's steps (let a client issue its next request, let a slow method finish); random walks.
Drive : a real daemon (thread-pool and multiplex) over the in-memory transport; one scheduler thread per client; gated methods;
        every step of every thread is logged in the order it happens; after each environment step the system runs to quiescence.
Trace : Trace_Oneway.tla: each logged step must be enabled in the model, at quiescence nothing of the model may be left enabled.
"""
import json
import random

from .. import memnet, tlc, util
from .. import sched as S

LOG = []
STATE = {"gates": {}}
MC_CFGS = ["MC_Oneway_OpsA_TRUE.cfg", "MC_Oneway_OpsA_FALSE.cfg", "MC_Oneway_OpsB_TRUE.cfg", "MC_Oneway_OpsB_FALSE.cfg"]


def run_scripts(scripts, servertype):
    import Pyro5.api as P
    from Pyro5 import config, server
    traces = []
    state = STATE

    @P.expose
    class Target(object):
        def work(self, k, m):
            sc = S.CUR
            LOG.append({"e": "start", "k": k})
            try:
                if m == "slow":
                    sc.yield_point(lambda: state["gates"].get(k, False))
                if m == "raise":
                    raise ValueError("request %d fails" % k)
                return k
            finally:
                LOG.append({"e": "end", "k": k})
    # make the start of a oneway call's thread visible
    if not getattr(server._OnewayCallThread, "_verif_e05", False):
        _start = server._OnewayCallThread.start

        def start(self):
            if self.pyro_vargs and isinstance(self.pyro_vargs[0], int) and getattr(self.pyro_method, "__name__", "") == "work":
                LOG.append({"e": "spawn", "k": self.pyro_vargs[0]})
            return _start(self)
        server._OnewayCallThread.start = start
        server._OnewayCallThread._verif_e05 = True
    for script in scripts:
        ops, env = script["ops"], script["env"]
        del LOG[:]
        state["gates"] = {}
        LOG.append({"e": "cfg", "ops": ops, "multiplex": servertype == "multiplex"})

        def main():
            sc = S.CUR
            config.SERVERTYPE = servertype
            config.THREADPOOL_SIZE = 6
            config.THREADPOOL_SIZE_MIN = 1
            config.COMMTIMEOUT = 0.0
            d = P.Daemon(host="127.0.0.1")
            uri = d.register(Target(), "obj")
            drv = memnet.ServerDriver(d)
            conns = sorted({o["c"] for o in ops})
            permits = {c: 0 for c in conns}
            finished = {c: False for c in conns}
            proxies = {}

            def client(c):
                def body():
                    p = P.Proxy(uri)
                    p._pyroBind()
                    proxies[c] = p
                    mine = [(k + 1, o) for k, o in enumerate(ops) if o["c"] == c]
                    for n, (k, o) in enumerate(mine):
                        sc.yield_point(lambda: permits[c] > n)
                        LOG.append({"e": "issue", "k": k})
                        out = "other"
                        try:
                            if o["kind"] == "call":
                                r = p.work(k, o["m"])
                                out = "ok" if r == k else "other"
                            elif o["kind"] == "ow":
                                p._pyroOneway.add("work")
                                try:
                                    r = p.work(k, o["m"])
                                finally:
                                    p._pyroOneway.discard("work")
                                out = "none" if r is None else "other"
                            else:
                                b = P.BatchProxy(p)
                                b.work(k, o["m"])
                                r = b(oneway=True)
                                out = "none" if r is None else "other"
                        except (S.Hang, S.SchedAbort):
                            raise
                        except ValueError:
                            out = "exc"
                        except Exception as x:
                            out = "other:" + type(x).__name__
                        LOG.append({"e": "return", "k": k, "out": out.split(":")[0]})
                    finished[c] = True
                return body
            for c in conns:
                sc.spawn("client" + c, client(c), trace=False)
            sc.quiesce()
            try:
                for ev in env:
                    sc.set_budget(300000)
                    if ev["a"] == "go":
                        LOG.append({"e": "go", "c": ev["c"]})
                        permits[ev["c"]] += 1
                    else:
                        LOG.append({"e": "release", "k": ev["k"]})
                        state["gates"][ev["k"]] = True
                    sc.quiesce()
                    LOG.append({"e": "quiet"})
                LOG.append({"e": "final"})
            except S.Hang:
                LOG.append({"e": "hang"})
            # wind down
            for k in range(1, len(ops) + 1):
                state["gates"][k] = True
            for c in conns:
                permits[c] = 99
            try:
                sc.quiesce()
            except S.Hang:
                pass
            for p in proxies.values():
                try:
                    p._pyroClaimOwnership()
                    p._pyroRelease()
                except Exception:
                    pass
            drv.shutdown()
            d.close()
        res, sc = memnet.run(main, max_steps=3000000)
        if res.get("hang") and not any(e["e"] == "hang" for e in LOG):
            LOG.append({"e": "hang"})
        traces.append(list(LOG))
    return traces


def run(ctx):
    memnet.install()
    ctx.rule = ("cases = (request list: connection A one to three requests, connection B none or one; each a normal call, a oneway call or a "
                "oneway batch of a fast, slow or failing method) x (order of the environment's go / release steps) x server type; "
                "distinct_nontrivial = distinct scripts in which a slow method is still running when a later request is issued")
    ctx.assumptions = ["each client is one thread using one proxy; client B's proxy is connected before the first request is issued",
                       "quiescence = every thread parked on an unsatisfied condition; the order of the log is the order of execution"]
    for cfg in MC_CFGS:
        tlc.mc(ctx, "MC_Oneway", cfg=cfg)
    scripts = tlc.gen(ctx, "Gen_Oneway", cfg="Gen_Oneway.cfg", workers=1,
                      extra=("-simulate", "num=%d" % ctx.pick(600, 8000), "-depth", "14", "-seed", str(ctx.seed + 505)))
    if len(scripts) < 500:
        raise util.MachineryError("script generation incomplete (%d)" % len(scripts))
    seen, uniq = set(), []
    for s in scripts:
        key = json.dumps(s, sort_keys=True)
        if key not in seen:
            seen.add(key)
            uniq.append(s)
    total = 0
    for servertype in ("thread", "multiplex"):
        traces = run_scripts(uniq, servertype)
        total += len(uniq)
        for s in uniq:
            slow = [k + 1 for k, o in enumerate(s["ops"]) if o["m"] == "slow"]
            order = [(e["a"], e["k"]) for e in s["env"]]
            late_release = any(("release", k) in order and order.index(("release", k)) > k - 1 for k in slow)
            ctx.count(json.dumps([servertype, s], sort_keys=True) if slow and late_release else None)
        ctx.sample({"server": servertype, "trace": traces[-1]})
        verdicts, _ = tlc.validate(ctx, "Trace_Oneway", traces, cfg="Trace_Oneway.cfg", batch=3000)
        for s, tr, v in zip(uniq, traces, verdicts):
            if v:
                ctx.violation("%s [server=%s]" % (v, servertype), {"server": servertype, "script": s, "trace": tr})
    ctx.evaluations = total


def replay(ctx, path):
    memnet.install()
    rep = json.load(open(path))
    bad = 0
    for case in rep["cases"]:
        tr = run_scripts([case["script"]], case["server"])[0]
        v, _ = tlc.validate(ctx, "Trace_Oneway", [tr], cfg="Trace_Oneway.cfg")
        print("replay:", case["server"], "->", v[0] or "accepted")
        for e in tr:
            print("   ", e)
        bad += bool(v[0])
    if bad:
        print("VIOLATION property=%s replay=%s" % (ctx.prop, path))
    return 1 if bad else 0
