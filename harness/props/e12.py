"""E12 (extra, beyond the listed properties) - callbacks: an object of the caller's own daemon called back by the called side.

MC    : Callback.tla for R = 0 and R = 1 (ExactlyOnce, ClosedOnlyAfterDrop, AnswerIsTheException, NoAnswerInvented, OnlyCallbacksDrop,
        Balanced).
Gen   : Gen_Callback.tla: every plan of one to three steps (plain or @callback method x call / oneway / batch x returns or raises x
        B's method catches or lets through).
Drive : two real daemons over the in-memory transport.  A registers the callback object, hands B a proxy for it, and asks B step by
        step to call it back; after each step A reads, at its own daemon, how often the callback ran, how many connections it accepted
        and how many disconnects it saw.
Trace : Trace_Callback.tla (monitor).
"""
import json
import random

from .. import memnet, tlc, util
from .. import sched as S


class AppError(Exception):
    pass


def run_plans(jobs, servertype):
    import Pyro5.api as P
    from Pyro5 import config, errors, server
    traces = []
    cnt = {"execs": 0, "connects": 0, "drops": 0, "bconn": 0}

    class ADaemon(server.Daemon):
        def validateHandshake(self, conn, data):
            cnt["connects"] += 1
            return "hi"

        def clientDisconnect(self, conn):
            cnt["drops"] += 1

    class BDaemon(server.Daemon):
        def validateHandshake(self, conn, data):
            cnt["bconn"] += 1
            return "hi"

    @P.expose
    class Cb(object):
        def note(self, k, out):
            cnt["execs"] += 1
            if out == "raise":
                raise AppError("note %d" % k)
            return "noted %d" % k

        @P.callback
        def cnote(self, k, out):
            cnt["execs"] += 1
            if out == "raise":
                raise AppError("note %d" % k)
            return "noted %d" % k

        @P.oneway
        def ow_note(self, k, out):
            return Cb.note(self, k, out)

        @P.oneway
        @P.callback
        def ow_cnote(self, k, out):
            return Cb.note(self, k, out)

    held = {}

    @P.expose
    class Worker(object):
        def keep(self, cb, retries):
            cb._pyroMaxRetries = retries
            held["cb"] = cb
            return True

        def step(self, k, st):
            cb = held.get("cb")
            if cb is None:
                return "other"
            name = st["m"] if st["way"] != "oneway" else "ow_" + st["m"]
            try:
                if st["way"] == "batch":
                    b = P.BatchProxy(cb)
                    getattr(b, name)(k, st["out"])
                    got = list(b())
                    return "ok" if got == ["noted %d" % k] else "other"
                got = getattr(cb, name)(k, st["out"])
                if st["way"] == "oneway":
                    return "ok" if got is None else "other"
                return "ok" if got == "noted %d" % k else "other"
            except (S.Hang, S.SchedAbort):
                raise
            except AppError:
                if st["catch"]:
                    return "err"
                raise
            except errors.ConnectionClosedError:
                return "closed"
            except Exception as x:
                return "other"

        def letgo(self):
            cb = held.pop("cb", None)
            if cb is not None:
                cb._pyroRelease()
            return True

    def main():
        sc = S.CUR
        config.SERVERTYPE = servertype
        config.MAX_RETRIES = 0
        for plan, retries in jobs:
            sc.set_budget(60000)
            for k in cnt:
                cnt[k] = 0
            da = ADaemon(host="127.0.0.1")
            cb_uri = da.register(Cb(), "cb")
            drva = memnet.ServerDriver(da)
            db = BDaemon(host="127.0.0.1")
            w_uri = db.register(Worker(), "worker")
            drvb = memnet.ServerDriver(db)
            tr = {"R": retries, "server": servertype, "plan": plan, "steps": [], "final": {"drops": -1, "execs": -1, "bconn": -1}}
            w = P.Proxy(w_uri)
            try:
                try:
                    w.keep(P.Proxy(cb_uri), retries)
                except (S.Hang, S.SchedAbort):
                    raise
                except Exception:
                    pass
                for k, st in enumerate(plan, 1):
                    o = {"seen": "other", "how": "returned", "kept": True}
                    try:
                        o["seen"] = w.step(k, st)
                    except (S.Hang, S.SchedAbort):
                        raise
                    except AppError as x:
                        o["seen"], o["how"] = "err", "raised"
                        o["kept"] = str(x) == "note %d" % k and "AppError" in "".join(getattr(x, "_pyroTraceback", None) or [])
                    except Exception as x:
                        o["seen"], o["how"], o["kept"] = "err", "raised", False
                        o["detail"] = "%s: %s" % (type(x).__name__, str(x)[:80])
                    sc.quiesce()
                    o.update(execs=cnt["execs"], connects=cnt["connects"], drops=cnt["drops"])
                    tr["steps"].append(o)
                try:
                    w.letgo()
                except (S.Hang, S.SchedAbort):
                    raise
                except Exception:
                    pass                       # (shows as a disconnect that is missing and a second connection to B)
                sc.quiesce()
                tr["final"] = {"drops": cnt["drops"], "execs": cnt["execs"], "bconn": cnt["bconn"]}
            except S.Hang:
                while len(tr["steps"]) < len(plan):
                    tr["steps"].append({"seen": "hang", "how": "returned", "kept": True, "execs": 0, "connects": 0, "drops": 0})
            held.clear()
            try:
                w._pyroRelease()
                sc.quiesce()
            except (S.Hang, Exception):
                pass
            drva.shutdown()
            da.close()
            drvb.shutdown()
            db.close()
            traces.append(tr)
    memnet.run(main, max_steps=50000000)
    if len(traces) < len(jobs):
        raise util.MachineryError("session ended early (%d of %d)" % (len(traces), len(jobs)))
    return traces


def run(ctx):
    memnet.install()
    from Pyro5 import serializers
    serializers.SerializerBase.register_dict_to_class("harness.props.e12.AppError", lambda cn, d: _rebuild(d))
    ctx.rule = ("cases = plan (one to three steps: plain or @callback method x call / oneway / batch x returns or raises x caught or let "
                "through by the called side) x retry limit of the called side's proxy (0, 1) x server type; distinct_nontrivial = plans in "
                "which a @callback method raises under a normal call")
    ctx.assumptions = ["a write into a connection the other side has closed is taken by the kernel and goes nowhere (the first write after "
                       "a close on TCP); the failure shows at the next read",
                       "the counters at A's daemon are read once every thread has come to rest"]
    tlc.mc(ctx, "Callback", cfg="MC_Callback.cfg")
    tlc.mc(ctx, "Callback", cfg="MC_Callback_R1.cfg")
    plans = [p["plan"] for p in tlc.gen(ctx, "Gen_Callback", cfg="Gen_Callback.cfg")]
    if len(plans) != 14424:
        raise util.MachineryError("expected 14424 plans, got %d" % len(plans))
    short = [p for p in plans if len(p) <= 2]
    long_ = [p for p in plans if len(p) == 3]
    rng = random.Random(ctx.seed + 120)
    rng.shuffle(long_)
    chosen = short + long_[:ctx.pick(600, 6000)]
    jobs = [(p, r) for i, p in enumerate(chosen) for r in (0, 1) if not ctx.quick or len(p) <= 1 or (i + r) % 2 == 0]
    traces = []
    for n, st in enumerate(("thread", "multiplex")):
        part = [j for i, j in enumerate(jobs) if not ctx.quick or len(j[0]) <= 1 or (i // 2) % 2 == n]
        traces += run_plans(part, st)
    drops = 0
    for tr in traces:
        hit = any(s["m"] == "cnote" and s["way"] == "call" and s["out"] == "raise" for s in tr["plan"])
        drops += hit
        ctx.count(json.dumps([tr["plan"], tr["R"], tr["server"]]) if hit else None)
    ctx.evaluations = len(traces)
    for i in (0, len(traces) // 2, len(traces) - 1):
        ctx.sample(traces[i])
    verdicts, _ = tlc.validate(ctx, "Trace_Callback", traces, cfg="Trace_Callback.cfg", batch=4000)
    for tr, v in zip(traces, verdicts):
        if v:
            ctx.violation("%s [R=%s server=%s]" % (v, tr["R"], tr["server"]), tr)
    if not ctx.violations and drops < 50:
        raise util.MachineryError("vacuous: only %d plans with a raising callback" % drops)


def _rebuild(d):
    x = AppError(*d.get("args", ()))
    for k, v in (d.get("attributes") or {}).items():
        setattr(x, k, v)
    return x


def replay(ctx, path):
    tr = json.load(open(path))
    tr = tr.get("witness", tr)
    memnet.install()
    got = run_plans([(tr["plan"], tr["R"])], tr["server"])
    verdicts, _ = tlc.validate(ctx, "Trace_Callback", got, cfg="Trace_Callback.cfg")
    print("E12 replay: %s" % (verdicts[0] or "accepted"))
    return 1 if verdicts[0] else 0
