"""C13 - every connection is cleaned up exactly once, however it ends.

MC    : Daemon.tla (CleanOnce, ResourcesOnce, OpenUntouched, Accounting).
Gen   : Gen_Cleanup.tla enumerates ending x tracked/untracked resources x bystander x session instance x failing hook.
Drive : raw clients against a real daemon of both server types (with COMMTIMEOUT for the timeout endings); the thorough tier
        cuts a request at every byte offset.
Trace : Trace_Daemon.tla (clauses C13.*).
"""
import gc
import json
import random
import weakref

from .. import daemonlab as L
from .. import memnet, tlc, util
from .. import sched as S
from . import c08

MAYCLOSE = {"timeout_idle", "unknown_serializer", "bad_annotations"}
NEEDS_TIMEOUT = {"timeout_mid", "timeout_idle"}


class Resource:
    def __init__(self, lab, rid, raises=False):
        self.lab = lab
        self.rid = rid
        self.raises = raises

    def __len__(self):
        # (a buffer, a queue, a pool: every other resource is one that happens to be empty - which does not make it nothing)
        return self.rid % 2

    parts = None

    def close(self):
        self.lab.log.append({"e": "ResClose", "r": self.rid})
        self.parts = None       # (the whole lets go of its parts)
        if self.raises == "untrack":
            # a tidy resource: tells the call context that it need not be tracked any longer
            try:
                self.lab.current_context.untrack_resource(self)
            except Exception:
                pass
        elif self.raises:
            raise RuntimeError("closing resource %d failed" % self.rid)


def make_targets(lab):
    P = lab.P
    lab.resources = {}
    lab.session_refs = []

    class Target(object):
        def mark(self, tok):
            return tok

        def track(self, rid):
            res = lab.resources[rid]
            lab.current_context.track_resource(res)
            lab.log.append({"e": "Track", "c": lab.conn_of_context(), "r": rid})
            if rid == 2 and getattr(res, "parts", None) is None:
                # a resource with parts of its own (a transaction and its cursors): the parts are tracked as well, and the whole is
                # the only one that holds on to them - it lets go of them when it is closed
                res.parts = [Resource(lab, 6 + k) for k in (1, 2)]     # (ids 7 and 8: nothing else uses them)
                for part in res.parts:
                    lab.current_context.track_resource(part)
                    lab.log.append({"e": "Track", "c": lab.conn_of_context(), "r": part.rid})
            return rid

        def gen(self, n):
            # any iterator may be a streamed result: a generator, the iterator of a list, an endless counter, an object of the
            # application that has nothing but __iter__ and __next__
            lab.gen_kind = k = getattr(lab, "gen_kind", -1) + 1
            if k % 4 == 1:
                return iter(list(range(n)))
            if k % 4 == 2:
                import itertools
                return itertools.count(0)
            if k % 4 == 3:
                class Items(object):
                    def __init__(self):
                        self.i = 0

                    def __iter__(self):
                        return self

                    def __next__(self):
                        self.i += 1
                        if self.i > n:
                            raise StopIteration
                        return self.i
                return Items()
            return (i for i in range(n))

        @P.oneway
        def otrack(self, rid, cid):
            # the same through a oneway call, which the daemon runs in a thread of its own on behalf of that connection
            # (the caller says which connection it is: what the application asked for is recorded before the library is asked)
            lab.log.append({"e": "Track", "c": cid, "r": rid})
            lab.current_context.track_resource(lab.resources[rid])

        @P.oneway
        def ountrack(self, rid, cid):
            lab.log.append({"e": "Untrack", "c": cid, "r": rid})
            lab.current_context.untrack_resource(lab.resources[rid])

        def untrack(self, rid):
            lab.current_context.untrack_resource(lab.resources[rid])
            lab.log.append({"e": "Untrack", "c": lab.conn_of_context(), "r": rid})
            return rid

    class Sess(object):
        def __init__(self):
            lab.session_refs.append((0, weakref.ref(self)))
            # a session object may acquire something when it is made: that belongs to the connection it is made for
            rid = getattr(lab, "ctor_resource", None)
            if rid is not None:
                lab.ctor_resource = None
                if getattr(lab, "ctor_own", False):
                    # the session object owns what it acquired: nobody else holds a reference to it
                    self.res = Resource(lab, rid)
                    lab.current_context.track_resource(self.res)
                else:
                    lab.current_context.track_resource(lab.resources[rid])

        def touch(self):
            for i, (c, r) in enumerate(lab.session_refs):
                if r() is self:
                    lab.session_refs[i] = (lab.conn_of_context(), r)
            return 1
    Sess = P.behavior(instance_mode="session")(P.expose(Sess))
    return P.expose(Target), Sess


def alive_sessions(lab, cid):
    refs = [r for c, r in lab.session_refs if c == cid]
    if any(r() is not None for r in refs):
        gc.collect()
    return sum(1 for r in refs if r() is not None)


def ending_action(lab, rc, scen, rng, offset=None):
    """performs the ending on raw client rc; returns True if the daemon MUST drop the connection"""
    from Pyro5 import protocol
    ser = scen["ser"]
    req = L.invoke_msg("target", "mark", [5], ser=ser, seq=9, annotations={"ABCD": b"xyz"})
    e = scen["ending"]
    if e == "release":
        rc.close()
    elif e == "reset":
        rc.abort()
    elif e in ("abrupt_prefix", "abrupt_header", "abrupt_body", "reset_mid"):
        lo, hi = {"abrupt_prefix": (1, 5), "abrupt_header": (6, 39), "abrupt_body": (40, len(req) - 1), "reset_mid": (1, len(req) - 1)}[e]
        k = offset if offset is not None else rng.randint(lo, hi)
        rc.send(req[:k])
        if e == "reset_mid":
            rc.abort()
        else:
            rc.close()
    elif e == "garbage":
        rc.send(bytes(rng.randrange(256) for _ in range(64)))
    elif e == "bad_version":
        rc.send(L.patch(req, 4, "!H", 17))
    elif e == "wrong_msgtype":
        rc.send(L.patch(req, 6, "!B", rng.choice([protocol.MSG_RESULT, protocol.MSG_CONNECT, protocol.MSG_CONNECTOK, 0, 99])))
    elif e == "oversized":
        rc.send(L.patch(req, 12, "!I", 0xfffffff0))
    elif e == "security":
        from Pyro5 import serializers
        s = serializers.serializers[ser]
        payload = s.dumpsCall("target", "mark", [{"__class__": "os.__dunder__.system", "x": 1}], {})
        rc.send(L.build(protocol.MSG_INVOKE, 0, 9, s.serializer_id, payload))
    elif e == "unknown_serializer":
        rc.send(L.patch(req, 7, "!B", 99))
    elif e == "bad_annotations":
        # the chunk length runs past the annotation area
        rc.send(L.patch(req, 44, "!I", 200))
    elif e == "timeout_mid":
        rc.send(req[:50])
        S.CUR.sleep(10.0)
    elif e == "timeout_idle":
        S.CUR.sleep(10.0)
    else:
        raise util.MachineryError("ending " + e)
    return e not in MAYCLOSE


def mark_ended(lab, cid, since):
    """insert the Ended(cid) marker where the script ended the connection: before the daemon's first reaction to it"""
    mine = {e["r"] for e in lab.log if e["e"] == "Track" and e["c"] == cid}
    idx = len(lab.log)
    for i in range(since, len(lab.log)):
        e = lab.log[i]
        if (e["e"] == "Hook" and e["c"] == cid) or (e["e"] == "ResClose" and e["r"] in mine):
            idx = i
            break
    lab.log.insert(idx, {"e": "Ended", "c": cid})


def run_scenarios(scens, servertype, timeout, seed, streaming=True):
    """streaming: the daemon's ITER_STREAMING setting (off: results that are iterators are not turned into streams; everything
    else about a connection's end is the same)"""
    from Pyro5 import protocol, config
    rng = random.Random(seed)
    traces = []

    def fresh_lab():
        lab = L.Lab(servertype=servertype, commtimeout=timeout)
        config.ITER_STREAMING = streaming
        T, Sess = make_targets(lab)
        lab.daemon.register(T(), "target")
        lab.daemon.register(Sess, "sess")
        return lab

    def established(lab, ser):
        rc = lab.raw()
        lab.log.append({"e": "First", "c": rc.cid, "accept": True, "mustreason": False})
        rc.send(L.connect_msg("target", "hello", ser))
        return rc

    def call(rc, obj, method, args, ser, seq):
        rc.send(L.invoke_msg(obj, method, args, ser=ser, seq=seq))

    def main():
        sc = S.CUR
        lab = fresh_lab()
        for scen_no, scen in enumerate(scens):
            ser = scen["ser"]
            lab.base = len(lab.net.socks)
            lab.log = []
            sc.set_budget(4000)
            lab.hook_raises = scen["hookraise"]
            odd = 2 if scen["untrack"] and scen["ntrack"] > 1 else 1
            lab.resources = {i: Resource(lab, i, raises=(scen.get("resraise", False) and i == odd and ("untrack" if scen_no % 2 else True)))
                             for i in range(1, 5)}
            lab.session_refs = []
            hang = False
            try:
                victim = established(lab, ser)
                by = established(lab, ser) if scen["bystander"] else None
                sc.quiesce()
                seq = 1
                via_oneway = scen_no % 3 == 1        # every third scenario tracks (and untracks) through oneway calls
                for r in range(1, scen["ntrack"] + 1):
                    if via_oneway:
                        victim.send(L.invoke_msg("target", "otrack", [r, victim.cid], ser=ser, seq=seq, flags=protocol.FLAGS_ONEWAY))
                    else:
                        call(victim, "target", "track", [r], ser, seq)
                    seq += 1
                if via_oneway:
                    sc.quiesce()        # the oneway threads have done their work
                if scen["untrack"]:
                    if via_oneway:
                        victim.send(L.invoke_msg("target", "ountrack", [1, victim.cid], ser=ser, seq=seq, flags=protocol.FLAGS_ONEWAY))
                        sc.quiesce()
                    else:
                        call(victim, "target", "untrack", [1], ser, seq)
                    seq += 1
                if scen["session"]:
                    if by is not None:
                        # somebody else's request is the last thing this server thread has seen before the session object is made
                        call(by, "target", "mark", [1], ser, 9)
                        sc.quiesce()
                    lab.ctor_resource = 3
                    lab.ctor_own = scen_no % 2 == 1
                    call(victim, "sess", "touch", [], ser, seq)
                    seq += 1
                    sc.quiesce()
                    if lab.ctor_resource is None:
                        lab.log.append({"e": "Track", "c": victim.cid, "r": 3})       # tracked by the constructor, for the victim's connection
                    lab.ctor_resource = None
                if scen.get("stream") and streaming:
                    call(victim, "target", "gen", [5], ser, seq)      # an unfinished streamed result stays behind
                    seq += 1
                    if by is not None:
                        call(by, "target", "gen", [5], ser, 7)
                if by is not None:
                    call(by, "target", "track", [4], ser, 1)
                    if scen["session"]:
                        call(by, "sess", "touch", [], ser, 2)
                sc.quiesce()
                since = len(lab.log)
                must = ending_action(lab, victim, scen, rng, scen.get("offset"))
                sc.quiesce()
                if must or victim.server_closed():
                    mark_ended(lab, victim.cid, since)
                if by is not None and timeout and by.server_closed():
                    # with a communication timeout configured, an idle bystander may itself be timed out by the server
                    mark_ended(lab, by.cid, since)
                    by = None
                lab.log.append({"e": "Snap", "c": victim.cid, "srvclosed": victim.server_closed(), "first": "ok", "reason": False,
                                "mustreason": False, "checkfirst": False, "alive_sessions": alive_sessions(lab, victim.cid) if (must or victim.server_closed()) else 0})
                nopen = 0 if (must or victim.server_closed()) else 1
                if by is not None:
                    # the bystander still works and is untouched
                    call(by, "target", "mark", [7], ser, 3)
                    sc.quiesce()
                    reps = by.drain()
                    ok = bool(reps) and reps[-1]["type"] == 5 and not (reps[-1]["flags"] & 1)
                    lab.log.append({"e": "Snap", "c": by.cid, "srvclosed": by.server_closed() or not ok, "first": "ok", "reason": False,
                                    "mustreason": False, "checkfirst": False, "alive_sessions": 0})
                    nopen += 1
                lab.log.append({"e": "End", "slots": lab.server_connections(), "open": nopen, "loop_alive": lab.driver.crashed is None,
                                "witness_ok": True, "fresh_ok": True, "hang": False})
                if by is not None:
                    n0 = len(lab.log)
                    by.close()
                    sc.quiesce()
                    mark_ended(lab, by.cid, n0)
                    lab.log.append({"e": "Snap", "c": by.cid, "srvclosed": by.server_closed(), "first": "ok", "reason": False,
                                    "mustreason": False, "checkfirst": False, "alive_sessions": alive_sessions(lab, by.cid)})
                if not (must or victim.server_closed()):
                    n0 = len(lab.log)
                    victim.close()
                    sc.quiesce()
                    mark_ended(lab, victim.cid, n0)
                    lab.log.append({"e": "Snap", "c": victim.cid, "srvclosed": victim.server_closed(), "first": "ok", "reason": False,
                                    "mustreason": False, "checkfirst": False, "alive_sessions": alive_sessions(lab, victim.cid)})
                lab.log.append({"e": "End", "slots": lab.server_connections(), "open": 0, "loop_alive": lab.driver.crashed is None,
                                "witness_ok": True, "fresh_ok": True, "hang": False})
            except S.Hang:
                hang = True
                lab.log.append({"e": "End", "slots": 0, "open": 0, "loop_alive": True, "witness_ok": True, "fresh_ok": True, "hang": True})
            traces.append(lab.log[:400] + lab.log[-2:] if len(lab.log) > 402 else list(lab.log))
            if hang or lab.driver.crashed is not None:
                lab.close()
                lab = fresh_lab()
        lab.close()
    res, sc = memnet.run(main, max_steps=5000000)
    if len(traces) < len(scens):
        raise util.MachineryError("scheduler session ended early (%d of %d scenarios)" % (len(traces), len(scens)))
    return traces


def run(ctx):
    memnet.install()
    ctx.rule = ("cases = (ending x tracked resources x untrack x bystander x session instance x failing hook, from Gen_Cleanup) x server type x "
                "serializer; thorough adds every byte offset of a request as the cut point; distinct_nontrivial = distinct scenarios")
    ctx.assumptions = ["endings after which the daemon may keep the connection (unknown serializer, inconsistent annotation "
                       "chunk, an idle connection under a communication timeout) are judged by what it did: cleanup is required exactly when the server closed the connection; a request left unfinished past the communication timeout must end the connection",
                       "resources are harness objects counting close(); strong references are held by the harness"]
    tlc.mc(ctx, "Daemon", cfg_text=c08.MC_CFG % (c08.SAMPLES[0], ctx.pick(8, 9)))
    tlc.mc(ctx, "Daemon", cfg_text=c08.MC_CFG % (c08.SAMPLES[1], ctx.pick(8, 9)))
    scens = tlc.gen(ctx, "Gen_Cleanup", cfg="Gen_Cleanup.cfg")
    if len(scens) != 1440:
        raise util.MachineryError("expected 1440 cleanup scenarios, got %d" % len(scens))
    sers = ["serpent", "json", "marshal", "msgpack"]
    groups = {}
    for i, s in enumerate(scens):
        for st in ("multiplex", "thread"):
            tmo = 3.0 if s["ending"] in NEEDS_TIMEOUT else (0.0 if (ctx.quick or i % 3) else 3.0)
            for k, ser in enumerate(sers):
                if k != (i + (st == "thread")) % 4 and (ctx.quick or k != (i + 2) % 4):
                    continue
                groups.setdefault((st, tmo), []).append(dict(s, ser=ser, server=st, timeout=tmo))
    if not ctx.quick:
        # every byte offset of the request as the cut point
        for st in ("multiplex", "thread"):
            for off in range(1, 118):
                for e in ("abrupt_body", "reset_mid"):
                    groups.setdefault((st, 0.0), []).append({"ending": e, "ntrack": 2, "untrack": False, "bystander": True, "session": True,
                                                             "hookraise": False, "ser": "serpent", "server": st, "timeout": 0.0, "offset": off})
    traces, metas = [], []
    for (st, tmo), js in sorted(groups.items()):
        # every fifth scenario runs against a daemon that has item streaming switched off
        on = [j for n, j in enumerate(js) if n % 5 != 4 or "offset" in j]
        off = [dict(j, streaming=False) for n, j in enumerate(js) if n % 5 == 4 and "offset" not in j]
        traces += run_scenarios(on, st, tmo, ctx.seed)
        metas += on
        if off:
            traces += run_scenarios(off, st, tmo, ctx.seed, streaming=False)
            metas += off
    # thread-pool server: a connection ends and the next one arrives while the worker is handing itself back (each of the
    # worker's steps in turn is where it is held back)
    for tr, m in L.handover_traces(ctx):
        traces.append(tr)
        metas.append(dict(m, ending="orderly+next-arrives", server="thread", hookraise=False, handover=True))
    for tr, m in housekeeping_race(ctx, random.Random(ctx.seed + 13)):
        traces.append(tr)
        metas.append(m)
    for m in metas:
        ctx.count(json.dumps(m, sort_keys=True))
    for i in (0, len(traces) // 2, len(traces) - 1):
        ctx.sample({"scenario": metas[i], "trace": traces[i]})
    verdicts, _ = tlc.validate(ctx, "Trace_Daemon", traces, cfg="Trace_Daemon.cfg", batch=4000)
    hooks = sum(1 for tr in traces for e in tr if e["e"] == "Hook")
    rcl = sum(1 for tr in traces for e in tr if e["e"] == "ResClose")
    for tr, m, v in zip(traces, metas, verdicts):
        v13 = v.split("|")[1]
        if tr[-1].get("hang"):
            v13 = v13 or "C13.Hang"
        if not v13 and tr[-1].get("housekeeping_failed"):
            v13 = "C13.HousekeepingEnded"       # the periodic clean-up raised: in a running daemon its thread is gone from then on
        if m.get("handover") and not v13 and not (tr[-1]["witness_ok"] and tr[-1]["fresh_ok"]):
            v13 = "C13.SlotNotReleased"     # the connection that was handed to the worker that was just leaving was never served
        if v13:
            ctx.violation("%s [ending=%s server=%s%s]" % (v13, m["ending"], m["server"], (" hookraise" if m["hookraise"] else "") + (" resraise" if m.get("resraise") else "") + (" stream" if m.get("stream") else "") + (" streaming-off" if m.get("streaming") is False else "")),
                          {"scenario": m, "trace": tr})
    if not ctx.violations and (hooks < len(traces) // 2 or rcl < len(traces) // 4):
        raise util.MachineryError("vacuity: hooks=%d resource closes=%d over %d traces" % (hooks, rcl, len(traces)))
    ctx.extra["hook_events"] = hooks
    ctx.extra["resource_close_events"] = rcl


def housekeeping_race(ctx, rng):
    """thread-pool server: a connection with an unfinished streamed result that has outlived its lifetime ends while the daemon's
    periodic housekeeping runs in its own thread; every line of the disconnect handling and of the housekeeping is a switch point"""
    import os
    from Pyro5 import server
    sfile = os.path.abspath(server.__file__)

    def tfilter(code):
        return os.path.abspath(code.co_filename) == sfile and code.co_name in ("_clientDisconnect", "_housekeeping")

    def once(chooser):
        out = {}

        def main():
            sc = S.CUR
            lab = L.Lab(servertype="thread", poolsize=4)
            lab.config.ITER_STREAMING = True
            lab.config.ITER_STREAM_LIFETIME = 1.0
            lab.config.ITER_STREAM_LINGER = 0.0
            P = lab.P

            class T(object):
                def gen(self, n):
                    return (i for i in range(n))
            lab.daemon.register(P.expose(T)(), "target")
            hang = False
            try:
                p = P.Proxy(lab.daemon.uriFor("target"))
                it = p.gen(5)
                next(it)
                util.detach_iterator(it)
                sc.sleep(2.0)                 # the stream is past its lifetime now; nobody has removed it yet
                done = [0]
                kerr = out.setdefault("kerr", [])

                def keeper():
                    try:
                        lab.daemon._housekeeping()
                    except (S.Hang, S.SchedAbort):
                        raise
                    except Exception as x:
                        kerr.append("%s: %s" % (type(x).__name__, x))     # (this ends the housekeeper thread of a real daemon for good)
                    finally:
                        done[0] += 1
                sc.spawn(sc.fresh_name("housekeeper"), keeper)
                lab.log.append({"e": "Ended", "c": 1})
                p._pyroRelease()
                sc.yield_point(lambda: done[0] == 1)
                sc.quiesce()
            except S.Hang:
                hang = True
            tr = [{"e": "First", "c": 1, "accept": True, "mustreason": False}] + [e for e in lab.log if e["e"] in ("Hook", "Ended")]
            if not hang:
                srv = lab.net.socks[lab.base][1]
                tr.append({"e": "Snap", "c": 1, "srvclosed": bool(srv.closed), "first": "ok", "reason": False, "mustreason": False,
                           "checkfirst": False, "alive_sessions": 0})
            tr.append({"e": "End", "slots": lab.server_connections() if not hang else 0, "open": 0, "loop_alive": lab.driver.crashed is None,
                       "witness_ok": True, "fresh_ok": True, "hang": hang, "streams_left": len(lab.daemon.streaming_responses),
                       "housekeeping_failed": (out.get("kerr") or [""])[0]})
            out["tr"] = tr
            lab.config.ITER_STREAM_LIFETIME = 0.0
            if not hang:
                lab.close()
        memnet.run(main, chooser=chooser, trace_filter=tfilter, max_steps=60000)
        return out.get("tr") or [{"e": "End", "slots": 0, "open": 0, "loop_alive": True, "witness_ok": True, "fresh_ok": True, "hang": True}]
    res, seen = [], set()
    for ch, tr in S.explore(once, max_preemptions=2, limit=ctx.pick(60, 600), rng=rng, random_runs=ctx.pick(20, 200)):
        ctx.evaluations += 1
        key = json.dumps(tr, sort_keys=True)
        if key not in seen:
            seen.add(key)
            res.append((tr, {"ending": "release-while-housekeeping", "server": "thread", "hookraise": False, "stream": True, "handover": True}))
    return res


def replay(ctx, path):
    memnet.install()
    rep = json.load(open(path))
    bad = 0
    for case in rep["cases"]:
        m = case["scenario"]
        if m.get("handover"):
            print("replay of hand-over schedules: rerun the check (the schedules are re-explored)")
            bad += 1
            continue
        tr = run_scenarios([m], m["server"], m["timeout"], ctx.seed, streaming=m.get("streaming", True))[0]
        v, _ = tlc.validate(ctx, "Trace_Daemon", [tr], cfg="Trace_Daemon.cfg")
        print("replay:", m, "->", v[0].split("|")[1] or "accepted")
        for e in tr:
            print("   ", e)
        bad += bool(v[0].split("|")[1])
    if bad:
        print("VIOLATION property=%s replay=%s" % (ctx.prop, path))
    return 1 if bad else 0
