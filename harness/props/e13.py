"""E13 (extra, beyond the listed properties) - combined request loops (Daemon.combine on the multiplex server).

MC    : Combine.tla (TypeOK, ServedByOwner, ServedIffSameGroup, RunnerServesItself) over three daemons.
Gen   : Gen_Combine.tla: every sequence of combinations (any direction, nested either way) followed by the start of one daemon's
        request loop.
Drive : three real multiplex daemons over the in-memory transport, each with a handshake validator and an object that say who they
        are; the combinations are made, the *real* request loop of the chosen daemon runs in a scheduler thread (the selector waits in
        virtual time), and for every daemon two clients in turn connect to its location and call its object, with a timeout.
Trace : Trace_Combine.tla (monitor).
"""
import json

from .. import memnet, tlc, util
from .. import sched as S

TAGS = ("a", "b", "c")


def run_scripts(scripts, ownloop=False):
    import Pyro5.api as P
    from Pyro5 import config, errors
    traces = []

    def main():
        sc = S.CUR
        config.SERVERTYPE = "multiplex"
        config.POLLTIMEOUT = 1.0
        config.COMMTIMEOUT = 0.0
        for script in scripts:
            sc.set_budget(60000)
            validated = []

            def make(tag):
                class D(P.Daemon):
                    def validateHandshake(self, conn, data):
                        validated.append(tag)
                        return tag

                @P.expose
                class Who(object):
                    def who(self):
                        return tag
                d = D(host="127.0.0.1")
                d.register(Who(), "who")
                return d
            daemons = {t: make(t) for t in TAGS}
            stop = [False]
            own = None
            tr = {"steps": [], "seen": {t: {k: {"answered": "nobody", "validated": "nobody"} for k in ("first", "second")} for t in TAGS},
                  "hang": False, "expect_served": script["served"]}
            try:
                for st in script["steps"]:
                    if st["a"] == "combine":
                        try:
                            daemons[st["x"]].combine(daemons[st["y"]])
                            out = "ok"
                        except (S.Hang, S.SchedAbort):
                            raise
                        except Exception as x:
                            out = "error"
                            tr["detail"] = "%s: %s" % (type(x).__name__, str(x)[:80])
                        tr["steps"].append(dict(st, out=out))
                    else:
                        runner = daemons[st["x"]]
                        if ownloop:
                            # the application's own event loop: it waits for whatever is ready among daemon.sockets and hands
                            # that to daemon.events()
                            own = memnet.ServerDriver(runner)
                            tr["steps"].append(dict(st, out="ok"))
                            continue

                        def body(runner=runner):
                            try:
                                runner.requestLoop(lambda: not stop[0])
                            except (S.Hang, S.SchedAbort):
                                raise
                            except BaseException as x:     # noqa  (the loop died: an observation)
                                tr["loop_died"] = "%s: %s" % (type(x).__name__, str(x)[:80])
                        sc.spawn(sc.fresh_name("loop"), body)
                        tr["steps"].append(dict(st, out="ok"))
                for t in TAGS:
                    for k in ("first", "second"):
                        del validated[:]
                        p = P.Proxy(daemons[t].uriFor("who"))
                        p._pyroTimeout = 3.0
                        try:
                            tr["seen"][t][k]["answered"] = str(p.who())
                            tr["seen"][t][k]["validated"] = validated[-1] if validated else "nobody"
                        except (S.Hang, S.SchedAbort):
                            raise
                        except errors.CommunicationError:
                            pass                    # nobody serves that location
                        except Exception as x:
                            tr["seen"][t][k]["answered"] = "error:" + type(x).__name__
                        if k == "second":
                            p._pyroRelease()        # (the first client of every daemon stays connected)
            except S.Hang:
                tr["hang"] = True
            stop[0] = True
            if own is not None:
                try:
                    own.shutdown()
                except Exception:
                    pass
            try:
                sc.sleep(2.5)          # the loop notices at its next poll
                sc.quiesce()
            except S.Hang:
                pass
            for d in daemons.values():
                try:
                    d.close()
                except Exception:
                    pass
            traces.append(tr)
    memnet.run(main, max_steps=20000000)
    from Pyro5 import config as _c
    _c.POLLTIMEOUT = 0.0
    if len(traces) < len(scripts):
        raise util.MachineryError("session ended early (%d of %d)" % (len(traces), len(scripts)))
    return traces


def run(ctx):
    memnet.install()
    ctx.rule = ("cases = sequence of combinations among three multiplex daemons (every direction and nesting) x the daemon whose request loop "
                "is run; per case two clients per daemon; distinct_nontrivial = cases with at least one combination")
    ctx.assumptions = ["the combinations are made before the loop is started (the documented use); clients give up after 3 s of virtual time",
                       "the real requestLoop runs in a scheduler thread, the selector waits in virtual time"]
    tlc.mc(ctx, "Combine", cfg="MC_Combine.cfg")
    scripts = tlc.gen(ctx, "Gen_Combine", cfg="Gen_Combine.cfg")
    if len(scripts) < 30:
        raise util.MachineryError("script generation incomplete (%d)" % len(scripts))
    traces = run_scripts(scripts)
    for tr in traces:
        tr["loop"] = "requestLoop"
    own_traces = run_scripts(scripts, ownloop=True)
    for tr in own_traces:
        tr["loop"] = "own"
    traces += own_traces
    scripts = scripts + scripts
    nested = 0
    for sc_, tr in zip(scripts, traces):
        n = sum(1 for s in sc_["steps"] if s["a"] == "combine")
        nested += n >= 2
        ctx.count(json.dumps([tr.get("loop"), sc_["steps"]]) if n else None)
    ctx.evaluations = len(traces)
    for i in (0, len(traces) // 2, len(traces) - 1):
        ctx.sample(traces[i])
    verdicts, _ = tlc.validate(ctx, "Trace_Combine", traces, cfg="Trace_Combine.cfg")
    for sc_, tr, v in zip(scripts, traces, verdicts):
        if v:
            ctx.violation("%s [loop=%s %s]" % (v, tr.get("loop"), " ".join("%s(%s,%s)" % (s["a"], s["x"], s["y"]) if s["a"] == "combine" else "start(%s)" % s["x"] for s in sc_["steps"])), tr)
    if not ctx.violations and nested < 10:
        raise util.MachineryError("vacuity: only %d scripts with two combinations" % nested)


def replay(ctx, path):
    tr = json.load(open(path))
    tr = (tr.get("cases") or [tr])[0]
    tr = tr.get("witness", tr)
    memnet.install()
    got = run_scripts([{"steps": [{k: s[k] for k in ("a", "x", "y")} for s in tr["steps"]], "served": tr.get("expect_served", {})}])
    verdicts, _ = tlc.validate(ctx, "Trace_Combine", got, cfg="Trace_Combine.cfg")
    print("E13 replay: %s" % (verdicts[0] or "accepted"))
    if verdicts[0]:
        print("VIOLATION property=E13 replay=%s" % path)
    return 1 if verdicts[0] else 0
