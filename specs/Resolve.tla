------------------------------ MODULE Resolve ------------------------------
(***************************************************************************)
(* Name resolution (extra, beyond the listed properties): what             *)
(* Pyro5.core.resolve - and a Proxy made from such a uri - turns a         *)
(* PYRO / PYRONAME / PYROMETA uri into.                                     *)
(*                                                                         *)
(* Two name servers exist: the default one (found through the configured   *)
(* host and port) and another one that a uri can name explicitly.  A       *)
(* PYRO uri is returned as it is.  PYRONAME:n asks the name server the uri *)
(* points at (the default one if it names none) for n.  PYROMETA:tags asks *)
(* it for the entries that carry all the tags and takes any one of them.   *)
(* With a delay the caller is prepared to wait that long for a             *)
(* registration to appear.  Nothing found means a naming error.            *)
(***************************************************************************)
EXTENDS Naturals, FiniteSets
CONSTANTS Names, Tags, Targets       \* Targets: the direct locations names can be registered for
Servers == {"default", "other"}
Kinds == {"PYRO", "PYRONAME", "PYROMETA"}
\* a registration: in which name server, under which name, for which target, with which tags, and when it appears (0 = from the start)
Regs == [ns : Servers, name : Names, target : Targets, tags : SUBSET Tags, at : {0, 2}]
Queries == [kind : {"PYRO"}, target : Targets, name : {"-"}, tags : {{}}, where : {"default"}, delay : {0}]
      \cup [kind : {"PYRONAME"}, target : {"-"}, name : Names, tags : {{}}, where : Servers, delay : {0, 3}]
      \cup [kind : {"PYROMETA"}, target : {"-"}, name : {"-"}, tags : (SUBSET Tags) \ {{}}, where : Servers, delay : {0, 3}]

\* registrations visible to a caller that waits until time d
Visible(R, d) == {r \in R : r.at <= d}
\* targets the query may resolve to ({} = naming error)
Allowed(R, q) ==
    CASE q.kind = "PYRO" -> {q.target}
      [] q.kind = "PYRONAME" -> {r.target : r \in {x \in Visible(R, q.delay) : x.ns = q.where /\ x.name = q.name}}
      [] q.kind = "PYROMETA" -> {r.target : r \in {x \in Visible(R, q.delay) : x.ns = q.where /\ q.tags \subseteq x.tags}}

\* the registration sets considered: at most two entries, a name server holds a name once
Pairs == {p \in Regs \X Regs : p[1].ns # p[2].ns \/ p[1].name # p[2].name}
SmallRegSets == {{}} \cup {{a} : a \in Regs} \cup {{p[1], p[2]} : p \in Pairs}
VARIABLES regs, q
Init == regs \in SmallRegSets /\ q \in Queries
Next == UNCHANGED <<regs, q>>
Spec == Init /\ [][Next]_<<regs, q>>
\* a PYRONAME query has at most one answer; an explicit location never falls back to the default name server
AtMostOneByName == q.kind = "PYRONAME" => Cardinality(Allowed(regs, q)) <= 1
NoFallback == (q.kind # "PYRO" /\ q.where = "other" /\ ~\E r \in regs : r.ns = "other") => Allowed(regs, q) = {}
=============================================================================
