SPECIFICATION Spec
CONSTANTS Size = 2
 Min = 1
 NJobs = 3
 UseLock = TRUE
 MaxW = 4
 DoClose = TRUE
INVARIANT WorkerBound
INVARIANT AtMostOnce
INVARIANT RefusedNeverRuns
INVARIANT RefusedOnlyWhenFull
PROPERTY AcceptedRun
PROPERTY AllExit
CHECK_DEADLOCK FALSE
