SPECIFICATION Spec
CONSTANTS Threads = {1, 2, 3}
  Truthy = FALSE
  TestIsNone = TRUE
  UseLock = TRUE
  CallsEach = 2
INVARIANT OneInstance
INVARIANT CreatedOnce
CHECK_DEADLOCK FALSE
