SPECIFICATION Spec
INVARIANT OnlyClosedSet
INVARIANT DunderNeverBuilt
INVARIANT ForeignNeverBuilt
CHECK_DEADLOCK FALSE
