---------------------------- MODULE Gen_ClassTag ----------------------------
(* Cases for C04: tag class x exception flag x where the tagged dict sits in the payload x what its members look like. *)
EXTENDS ClassTag, Sequences, TLC, Json
Positions == {"top", "in_list", "in_dict", "in_tuple", "deep", "as_exception_arg", "as_exception_attribute", "in_wrapper", "as_state_member"}
\* proxy_members: args / attributes / state / wrapped exception / value are themselves class dicts of a Proxy (an object that
\* contacts its daemon when it is iterated or asked for an attribute); proxy_in_state: such dicts as members of the state list
Bodies == {"minimal", "plain_args", "empty_args", "one_str_arg", "hostile_args", "hostile_attributes", "hostile_state", "nested_tag_in_args",
           "proxy_members", "proxy_in_state"}
VARIABLE done
GInit == done = FALSE /\ c = "uri" /\ flagged = FALSE /\ registered = FALSE /\ ser = "json"
GNext == /\ ~done /\ done' = TRUE /\ UNCHANGED <<c, flagged, registered, ser>>
         /\ \A tc \in TagClasses, f \in BOOLEAN, p \in Positions, b \in Bodies :
               PrintT("SCRIPT " \o ToJson([tag |-> tc, flagged |-> f, pos |-> p, body |-> b]))
=============================================================================
