SPECIFICATION Spec
INVARIANT RefusedLocally
INVARIANT LookingIsFree
CHECK_DEADLOCK FALSE
