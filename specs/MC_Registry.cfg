SPECIFICATION Spec
INVARIANT OneIdPerObject
INVARIANT OnlyHeldOrStrong
INVARIANT NoDaemonIdInTable
CHECK_DEADLOCK FALSE
