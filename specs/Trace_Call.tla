----------------------------- MODULE Trace_Call -----------------------------
(***************************************************************************)
(* Trace validation for C03 (monitor).  One trace = one fault script run   *)
(* with a real Proxy against a real Daemon:                                *)
(*   cfg(retries)                                                          *)
(*   call(tok, kind, fault, outcome, val)   outcome: ret | exc | comm |    *)
(*        other | hang; val = token carried by the value / exception the   *)
(*        caller got (0 = None, -1 = something else)                       *)
(*   a fetch (the next item of an endless remote iterator opened on the    *)
(*   same proxy) also carries pre/post = steps the server-side iterator    *)
(*   had taken before / after it, and conn = the proxy was connected       *)
(*   end(exec)   executions per token counted at the server, at quiescence *)
(* Which communication error class is raised, and whether a faulted call   *)
(* succeeds after a retry, is left open; everything the property states is *)
(* enforced.                                                               *)
(***************************************************************************)
EXTENDS Naturals, Sequences, TLC, Json, IOUtils
Traces == JsonDeserialize(IOEnv.TRACE_FILE)
NT == Len(Traces)
VARIABLES t, l, dirty, lost, bad
vars == <<t, l, dirty, lost, bad>>
Tr == Traces[t]
R == Tr[1].retries
Exec == Tr[Len(Tr)].exec
Flag(c) == IF bad = "" THEN c ELSE bad
Init == t \in 1..NT /\ l = 2 /\ dirty = FALSE /\ lost = FALSE /\ bad = ""

\* retries apply to method calls only (batch submission and attribute access are single attempts)
Reff(e) == IF e.kind \in {"normal", "raise", "oneway"} THEN R ELSE 0

CallCheck(e) ==
    LET x == Exec[e.tok]
        clean == e.fault = "none" /\ ~dirty IN
    IF e.outcome = "hang" THEN "C03.Hang"
    ELSE IF e.outcome = "other" THEN "C03.WrongError"
    ELSE IF x > 1 + Reff(e) THEN "C03.ExecBound"
    ELSE IF e.kind = "fetch" THEN
         \* the iterator never ends, so "exhausted" is an answer no invocation produced; an item must be the one this
         \* very request made the iterator produce; "stream is gone" is the daemon's own answer once a connection was lost;
         \* a fetch on a proxy that lost its connection (and was not reconnected by another call) fails without sending
         IF e.outcome = "stop" THEN "C03.AnswerWithoutInvocation"
         ELSE IF e.outcome = "ret" /\ (e.post # e.pre + 1 \/ e.val # e.post) THEN "C03.ForeignReply"
         ELSE IF e.outcome = "exc" /\ clean /\ ~lost THEN "C03.Recovery"
         ELSE IF e.outcome = "comm" /\ clean /\ e.conn = 1 THEN "C03.Recovery"
         ELSE ""
    ELSE IF e.kind = "oneway" THEN
         IF e.outcome = "ret" /\ e.val # 0 THEN "C03.OnewayReturnedValue"
         ELSE IF x > 1 THEN "C03.OnewayRanTwice"
         ELSE IF e.outcome = "ret" /\ e.fault = "none" /\ x # 1 THEN "C03.OnewayNotRun"
         ELSE IF e.outcome = "comm" /\ clean THEN "C03.Recovery"
         ELSE IF e.outcome = "exc" THEN "C03.OnewayRaised"
         ELSE ""
    ELSE IF e.outcome \in {"ret", "exc"} THEN
         IF e.val # e.tok THEN "C03.ForeignReply"
         ELSE IF (e.outcome = "exc") # (e.kind = "raise") THEN "C03.ForeignReply"
         ELSE IF x < 1 THEN "C03.ReturnedWithoutRunning"
         ELSE IF Reff(e) = 0 /\ x # 1 THEN "C03.RanTwice"
         ELSE IF clean /\ x # 1 THEN "C03.Recovery"
         ELSE ""
    ELSE \* comm
         IF clean THEN "C03.Recovery" ELSE ""

Step == /\ l < Len(Tr) /\ l' = l + 1 /\ t' = t
        /\ LET e == Tr[l] c == CallCheck(e) IN
           /\ bad' = IF c # "" THEN Flag(c) ELSE bad
           \* a duplicated reply that was delivered leaves the connection dirty for the next call; any failure releases it
           \* a faulted call may have lost the connection even when a retry made it succeed
           /\ lost' = (lost \/ e.fault # "none" \/ e.outcome \in {"comm", "hang"})
           /\ dirty' = IF e.kind = "oneway" /\ e.outcome = "ret" THEN dirty
                       ELSE (e.fault = "dup" /\ e.outcome \in {"ret", "exc"})
Spec == Init /\ [][Step]_vars
Verdict == (l = Len(Tr)) => PrintT(<<"VERDICT", t, bad>>)
=============================================================================
