SPECIFICATION Spec
CONSTANTS Names = {"a"}
  Servers = {"s1", "s2"}
  Delay = 2
  Every = 3
  MaxUnreach = 8
  Horizon = 26
PROPERTY NoEarlyRemoval
CHECK_DEADLOCK FALSE
