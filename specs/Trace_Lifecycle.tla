-------------------------- MODULE Trace_Lifecycle --------------------------
(* Trace validation for the daemon life cycle (monitor): every recorded step is replayed through Lifecycle's own actions and the
   recorded observations are compared:
     start(d)            loop thread entered
     stopcond(d, loop_returned)            the loop must have returned within one poll period
     shutdown(d, returned, loop_returned, took)   shutdown() must return, the loop must have returned, without using up the 5 s grace
     close(d)
     combine
     call(d, out)        ok | refused | timeout | closed | other      (fresh proxy)
     hold(d, out) / heldcall(d, out) / release(d)                  (a proxy that stays connected) *)
EXTENDS Naturals, Sequences, TLC, Json, IOUtils
VARIABLES phase, combined, held
L == INSTANCE Lifecycle
Traces == JsonDeserialize(IOEnv.TRACE_FILE)
NT == Len(Traces)
VARIABLES t, l, bad
vars == <<t, l, bad, phase, combined, held>>
Tr == Traces[t]
Init == t \in 1..NT /\ l = 1 /\ bad = "" /\ L!Init
Flag(x) == IF bad = "" THEN x ELSE bad
Step ==
  /\ l <= Len(Tr) /\ l' = l + 1 /\ t' = t
  /\ LET e == Tr[l] IN
     CASE e.a = "start" -> L!StartLoop(e.d) /\ bad' = (IF e.crashed THEN Flag("Lifecycle.LoopCrashed") ELSE bad)
       [] e.a = "stopcond" -> L!StopByCond(e.d)
                              /\ bad' = (IF ~e.loop_returned THEN Flag("Lifecycle.LoopIgnoresItsCondition")
                                         ELSE IF e.crashed THEN Flag("Lifecycle.LoopCrashed") ELSE bad)
       [] e.a = "shutdown" -> L!Shutdown(e.d)
                              /\ bad' = (IF ~e.returned THEN Flag("Lifecycle.ShutdownHangs")
                                         ELSE IF ~e.loop_returned THEN Flag("Lifecycle.LoopSurvivesShutdown")
                                         ELSE IF e.took >= 5000 THEN Flag("Lifecycle.ShutdownOnlyByGraceTimeout")
                                         ELSE IF e.crashed THEN Flag("Lifecycle.LoopCrashed") ELSE bad)
       [] e.a = "close" -> L!Close(e.d) /\ bad' = (IF e.error THEN Flag("Lifecycle.CloseFails") ELSE bad)
       [] e.a = "combine" -> L!Combine /\ bad' = (IF e.error THEN Flag("Lifecycle.CombineFails") ELSE bad)
       \* (the generator's idea of which connections are still held can be out of date - whether an unserved daemon's connection
       \* survives a call depends on the server type - so the monitor keeps track by the recorded outcomes)
       [] e.a = "hold" -> /\ L!Served(phase, combined, e.d) /\ held' = [held EXCEPT ![e.d] = (e.out = "ok")] /\ UNCHANGED <<phase, combined>>
                          /\ bad' = (IF e.out # "ok" THEN Flag("Lifecycle.ServedDaemonDoesNotAnswer") ELSE bad)
       [] e.a = "release" -> held' = [held EXCEPT ![e.d] = FALSE] /\ UNCHANGED <<phase, combined>> /\ bad' = bad
       [] e.a = "heldcall" -> /\ UNCHANGED <<phase, combined>>
                              /\ held' = [held EXCEPT ![e.d] = (held[e.d] /\ e.out = "ok")]
                              /\ bad' = (IF ~held[e.d] THEN (IF e.out = "gone" THEN bad ELSE Flag("Lifecycle.CallOnLostConnectionAnswered"))
                                         ELSE IF e.out \in L!HeldOutcomes(phase, combined, e.d) THEN bad
                                         ELSE IF L!Served(phase, combined, e.d) THEN Flag("Lifecycle.HeldConnectionOfServedDaemonNotAnswered")
                                         ELSE Flag("Lifecycle.UnexpectedCallOutcome"))
       [] e.a = "call" -> /\ UNCHANGED <<phase, combined, held>>
                          /\ bad' = (LET exp == L!CallOutcome(phase, combined, e.d) IN
                                     IF e.out = exp THEN bad
                                     ELSE IF exp = "ok" THEN Flag("Lifecycle.ServedDaemonDoesNotAnswer")
                                     ELSE IF e.out = "ok" THEN Flag("Lifecycle.AnsweredThoughNotServed")
                                     ELSE IF exp = "refused" THEN Flag("Lifecycle.ClosedDaemonStillListens")
                                     ELSE IF e.out = "refused" THEN Flag("Lifecycle.OpenDaemonRefuses")
                                     ELSE Flag("Lifecycle.UnexpectedCallOutcome"))
       [] OTHER -> UNCHANGED <<phase, combined, held>> /\ bad' = Flag("Lifecycle.UnknownEvent")
\* a step the model does not allow at that point would make the monitor stop: the generator only emits allowed steps, so report it
Stuck == /\ l <= Len(Tr) /\ ~ENABLED Step /\ l' = Len(Tr) + 1 /\ t' = t /\ bad' = Flag("Lifecycle.StepNotAllowedByModel")
         /\ UNCHANGED <<phase, combined, held>>
Spec == Init /\ [][Step \/ Stuck]_vars
Verdict == (l = Len(Tr) + 1) => PrintT(<<"VERDICT", t, bad>>)
=============================================================================
