---------------------------- MODULE Trace_Timing ----------------------------
(***************************************************************************)
(* Trace validation for E10 (monitor).  One trace = one script run with a   *)
(* real Proxy against a real daemon under the virtual clock:                *)
(*   cfg(server, S, R, tmo)                                                 *)
(*   call(d, out, dur, exec)   out: ret | timeout | closed | other | hang   *)
(*   idle(dt), settimeout(v)                                                *)
(*   reconnect(tries, up, ok, dur)                                          *)
(* The monitor carries the model's state (now, conn, since, tmo) and        *)
(* compares every observation with DoCall / ReconnectOutcome of Timing.tla. *)
(***************************************************************************)
EXTENDS Naturals, Sequences, TLC, Json, IOUtils
CONSTANTS Server, S, R, Durations, Idles, Timeouts, MaxTime
VARIABLES now, conn, since, tmo, last
Tm == INSTANCE Timing
Traces == JsonDeserialize(IOEnv.TRACE_FILE)
NT == Len(Traces)
VARIABLES t, l, bad
vars == <<t, l, bad, now, conn, since, tmo, last>>
Tr == Traces[t]
Cfg == Tr[1]
Flag(c) == IF bad = "" THEN c ELSE bad
Init == /\ t \in 1..NT /\ l = 2 /\ bad = "" /\ now = 0 /\ conn = "none" /\ since = 0 /\ tmo = Traces[t][1].tmo /\ last = Tm!NoCall
Step ==
  /\ l <= Len(Tr) /\ l' = l + 1 /\ t' = t /\ UNCHANGED last
  /\ LET e == Tr[l] IN
     CASE e.e = "call" ->
            LET c == IF conn = "up" /\ Tm!Dropped(Cfg.server, Cfg.S, since, now) THEN "stale" ELSE conn
                r == Tm!DoCall(c, e.d, tmo, Cfg.R)
                rest == IF r.out = "ret" THEN 0 ELSE e.d IN
            /\ bad' = IF e.out = "hang" THEN Flag("E10.Hang")
                      ELSE IF e.out # r.out THEN Flag("E10.Outcome_" \o r.out \o "_got_" \o e.out)
                      ELSE IF e.dur # r.dur THEN Flag(IF e.dur < r.dur THEN "E10.EndedEarly" ELSE "E10.EndedLate")
                      ELSE IF e.exec # r.exec THEN Flag("E10.Executions")
                      ELSE bad
            /\ now' = now + r.dur + rest
            /\ conn' = IF r.out = "ret" THEN "up" ELSE "none"
            /\ since' = IF r.out = "ret" THEN now + r.dur ELSE since
            /\ UNCHANGED tmo
       [] e.e = "idle" -> now' = now + e.dt /\ UNCHANGED <<conn, since, tmo, bad>>
       [] e.e = "settimeout" -> tmo' = e.v /\ UNCHANGED <<now, conn, since, bad>>
       [] e.e = "reconnect" ->
            LET r == Tm!ReconnectOutcome(e.tries, e.up) IN
            /\ bad' = IF e.ok # r.ok THEN Flag(IF r.ok THEN "E10.ReconnectGaveUp" ELSE "E10.ReconnectWithoutListener")
                      ELSE IF e.dur # r.dur THEN Flag("E10.ReconnectTiming")
                      ELSE bad
            /\ UNCHANGED <<now, conn, since, tmo>>
       [] OTHER -> bad' = Flag("Monitor.UnknownEvent") /\ UNCHANGED <<now, conn, since, tmo>>
Spec == Init /\ [][Step]_vars
Verdict == (l = Len(Tr) + 1) => PrintT(<<"VERDICT", t, bad>>)
=============================================================================
