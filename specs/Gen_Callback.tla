---------------------------- MODULE Gen_Callback ----------------------------
(* Plans for E12: every sequence of one to MaxLen steps (method x way x outcome x whether B's method catches). *)
EXTENDS Callback, TLC, Json
VARIABLE done
GInit == done = FALSE /\ plan = <<>> /\ pc = 1 /\ conn = "none" /\ execs = 0 /\ connects = 0 /\ drops = 0 /\ seen = <<>>
GNext == /\ ~done /\ done' = TRUE /\ UNCHANGED vars
         /\ \A p \in UNION {[1..n -> StepT] : n \in 1..MaxLen} : PrintT("SCRIPT " \o ToJson([plan |-> p]))
=============================================================================
