----------------------------- MODULE Gen_Expose -----------------------------
(* Cases for C02: every class shape that can be written down, crossed with the five request kinds and the seven ways the
   requested name can relate to the member. *)
EXTENDS Expose, Sequences, TLC, Json
PlainKinds == MemberKinds \ (Methods \cup Readable \cup Writable)
\* the decorator refuses private names, so "member" exists for public names only; "forced" (an exposed public function bound
\* under a private name as well) exists for private names only; plain attributes and helper objects cannot carry a member mark
Constructible(x) == /\ x.mark = "member" => (x.kind \notin PlainKinds /\ ~PrivateName(x.name))
                    /\ x.mark = "forced" => (x.kind \notin PlainKinds /\ PrivateName(x.name))
                    /\ x.oneway => x.kind \in Methods
                    \* (an attribute of the instance is not a definition of the class: it cannot override one)
                    /\ x.where \in {"over_exposed", "over_plain"} => x.kind \notin {"instattr", "helper_plain", "helper_exposed", "helper_exposed_callable"}
VARIABLE done
GInit == done = FALSE /\ m = (CHOOSE x \in Members : TRUE) /\ rk = "call" /\ nv = "exact"
GNext == /\ ~done /\ done' = TRUE /\ UNCHANGED <<m, rk, nv>>
         /\ \A x \in {y \in Members : Constructible(y)} :
              PrintT("SCRIPT " \o ToJson([m |-> x, served |-> {k \in ReqKinds : Served(x, k, "exact")},
                                          adv_method |-> AdvertisedAsMethod(x), adv_attr |-> AdvertisedAsAttr(x)]))
=============================================================================
