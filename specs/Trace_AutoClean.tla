-------------------------- MODULE Trace_AutoClean --------------------------
(***************************************************************************)
(* Trace validation for the auto-cleaner.  A trace is what happened to a   *)
(* real NameServer with a real AutoCleaner thread under the virtual clock: *)
(*   env  register / remove / down / up, with the time it was done         *)
(*   obs  the names the name server lists at that time                     *)
(* The cleaner's wake-ups are not logged: the trace specification takes    *)
(* them as silent steps (the action Wake of AutoClean.tla), bounded by the *)
(* time of the next logged event.  An observation that differs from the    *)
(* model's registry is the verdict.                                        *)
(***************************************************************************)
EXTENDS AutoClean, Sequences, TLC, Json, IOUtils
Traces == JsonDeserialize(IOEnv.TRACE_FILE)
NT == Len(Traces)
VARIABLES tid, l, bad
tvars == <<vars, tid, l, bad>>
Tr == Traces[tid]
Range(q) == {q[i] : i \in 1..Len(q)}
Flag(c) == IF bad = "" THEN c ELSE bad
TInit == Init /\ tid \in 1..NT /\ l = 1 /\ bad = ""
Silent == l <= Len(Tr) /\ wake < Tr[l].t /\ Wake /\ UNCHANGED <<tid, l, bad>>
Logged ==
    /\ l <= Len(Tr) /\ wake > Tr[l].t
    /\ l' = l + 1 /\ tid' = tid
    /\ LET e == Tr[l] IN
       CASE e.e = "obs" ->
              /\ UNCHANGED vars
              /\ bad' = IF Range(e.names) # {n \in Names : reg[n] # None}
                        THEN (IF \E n \in Names : reg[n] # None /\ n \notin Range(e.names) THEN Flag("AutoClean.RemovedTooEarlyOrWrongly")
                              ELSE Flag("AutoClean.NotRemovedInTime"))
                        ELSE bad
         [] e.a = "register" -> Register(e.n, e.s, e.t) /\ bad' = bad
         [] e.a = "remove" -> (IF reg[e.n] # None THEN Remove(e.n, e.t) ELSE UNCHANGED vars) /\ bad' = bad
         [] e.a = "down" -> (IF up[e.s] THEN GoDown(e.s, e.t) ELSE UNCHANGED vars) /\ bad' = bad
         [] e.a = "up" -> (IF ~up[e.s] THEN ComeUp(e.s, e.t) ELSE UNCHANGED vars) /\ bad' = bad
TNext == Silent \/ Logged
TSpec == TInit /\ [][TNext]_tvars
Verdict == (l = Len(Tr) + 1) => PrintT(<<"VERDICT", tid, bad>>)
=============================================================================
