INIT GInit
NEXT GNext
CONSTANTS MaxLen = 3
CHECK_DEADLOCK FALSE
