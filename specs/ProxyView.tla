------------------------------ MODULE ProxyView ------------------------------
(***************************************************************************)
(* What a client sees through a proxy (extra, beyond the listed            *)
(* properties): the client half of member access.                          *)
(*                                                                         *)
(* The daemon tells a connecting proxy which names are methods, which of   *)
(* them are oneway, and which are attributes.  From then on the proxy      *)
(* decides by itself what a name is:                                       *)
(*   a method name yields something callable (nothing is sent until it is  *)
(*     called; a oneway method returns nothing),                           *)
(*   an attribute name is read and written remotely,                       *)
(*   the proxy's own settings (_pyro...) stay local,                       *)
(*   every other name - unexposed, private, missing - is refused by the    *)
(*     proxy itself with an AttributeError, and nothing is sent.           *)
(* A proxy that has never been connected connects first to learn the       *)
(* names; one that was connected before keeps what it learnt.              *)
(***************************************************************************)
EXTENDS Naturals
NameKinds == {"method", "oneway", "attr_rw", "attr_ro", "unexposed", "private", "missing", "local"}
Ops == {"get", "set", "call", "hasattr", "indir"}
States == {"fresh", "connected", "released"}      \* released: was connected, knows the names, has no connection now
Remote(k) == k \in {"method", "oneway", "attr_rw", "attr_ro"}
Known(s) == s # "fresh"
\* the outcome the caller sees
Outcome(k, op, s) ==
    CASE op = "get" -> (IF k \in {"method", "oneway"} THEN "callable" ELSE IF k \in {"attr_rw", "attr_ro", "local"} THEN "value" ELSE "AttributeError")
      [] op = "set" -> (IF k \in {"attr_rw", "local"} THEN "ok" ELSE "AttributeError")
      [] op = "call" -> (IF k = "method" THEN "result" ELSE IF k = "oneway" THEN "none" ELSE IF k \in {"attr_rw", "attr_ro", "local"} THEN "notcallable" ELSE "AttributeError")
      [] op = "hasattr" -> (IF Remote(k) \/ k = "local" THEN "yes" ELSE "no")
      \* the listing is made from what the proxy knows already: it does not connect for it
      [] op = "indir" -> (IF k = "local" \/ (Remote(k) /\ Known(s)) THEN "yes" ELSE "no")
\* how many requests are sent to the target object for it
Requests(k, op, s) ==
    CASE op \in {"get", "hasattr"} -> (IF k \in {"attr_rw", "attr_ro"} THEN 1 ELSE 0)
      [] op = "set" -> (IF k \in {"attr_rw", "attr_ro"} THEN 1 ELSE 0)        \* the daemon is the one that refuses to write a read-only attribute
      [] op = "call" -> (IF k \in {"method", "oneway", "attr_rw", "attr_ro"} THEN 1 ELSE 0)
      [] op = "indir" -> 0
\* is the proxy connected afterwards
ConnectedAfter(k, op, s) ==
    IF s = "connected" THEN TRUE
    ELSE IF op = "indir" \/ k = "local" THEN FALSE
    ELSE IF s = "fresh" THEN TRUE                                    \* it had to ask for the names
    ELSE Requests(k, op, s) > 0                                       \* released: connects only if something is sent
VARIABLES k, op, s
Init == k \in NameKinds /\ op \in Ops /\ s \in States
Next == UNCHANGED <<k, op, s>>
Spec == Init /\ [][Next]_<<k, op, s>>
\* what is not exposed is never asked for over the wire, whatever the operation
RefusedLocally == (k \in {"unexposed", "private", "missing"}) => Requests(k, op, s) = 0 /\ Outcome(k, op, s) \in {"AttributeError", "no"}
\* looking at a method sends nothing
LookingIsFree == (k \in {"method", "oneway"} /\ op \in {"get", "hasattr", "indir"}) => Requests(k, op, s) = 0
=============================================================================
