------------------------------ MODULE Registry ------------------------------
(***************************************************************************)
(* The daemon's object registry (C16): ids -> registered objects.          *)
(* Objects 1 and 2 are instances, 3 is a class; the daemon's own object is *)
(* registered under the reserved id "daemon".  The operators give the      *)
(* meaning of every step; the model lets an environment take them in any   *)
(* order (it is also the generator of histories, Gen_Registry) and the     *)
(* trace specification replays recorded histories through them.            *)
(***************************************************************************)
EXTENDS Naturals, FiniteSets, Sequences
\* 4: an object that cannot carry the registry's attributes (it has no instance dict): it cannot be registered
Objects == {1, 2, 3, 4}
IsClass(o) == o = 3
Unregistrable(o) == o = 4
Ids == {"x", "y", "g1", "g2", "g3", "g4"}
\* ids no URI can carry (they contain white space or an at-sign): a registration under them is refused
BadIds == {"sp", "at"}
None == [obj |-> 0, weak |-> FALSE]

IdOf(reg, o) == IF \E i \in DOMAIN reg : reg[i].obj = o THEN CHOOSE i \in DOMAIN reg : reg[i].obj = o ELSE ""
Registered(reg, o) == \E i \in DOMAIN reg : reg[i].obj = o
Put(reg, i, o, w) == [x \in DOMAIN reg \cup {i} |-> IF x = i THEN [obj |-> o, weak |-> w] ELSE reg[x]]
Del(reg, S) == [x \in DOMAIN reg \ S |-> reg[x]]

\* result of register(o, id, force, weak): [reg, out]
DoRegister(reg, o, i, force, weak) ==
    IF IsClass(o) /\ weak THEN [reg |-> reg, out |-> "TypeError"]
    ELSE IF Unregistrable(o) \/ i \in BadIds THEN [reg |-> reg, out |-> "error"]      \* refused, whatever the flags, without effect
    ELSE IF i = "daemon" THEN [reg |-> reg, out |-> "DaemonError"]     \* the reserved id is always taken, and force does not take it away
    ELSE IF ~force /\ (i \in DOMAIN reg \/ Registered(reg, o)) THEN [reg |-> reg, out |-> "DaemonError"]
    \* (a forced registration of an object that is registered under another id already adds the second id: both reach it)
    ELSE [reg |-> Put(IF force THEN reg ELSE Del(reg, {j \in DOMAIN reg : reg[j].obj = o}), i, o, weak), out |-> "ok"]
DoUnregisterId(reg, i) == Del(reg, {i})
DoUnregisterObj(reg, o) == Del(reg, {j \in DOMAIN reg : reg[j].obj = o})
DoGc(reg, o) == Del(reg, {j \in DOMAIN reg : reg[j].obj = o /\ reg[j].weak})
CallTarget(reg, i) == IF i \in DOMAIN reg THEN reg[i].obj ELSE 0

-----------------------------------------------------------------------------
VARIABLES reg, held, ngen
\* held: objects the application still holds a strong reference to; ngen: generated ids handed out
vars == <<reg, held, ngen>>
EmptyReg == [x \in {} |-> None]
Init == reg = EmptyReg /\ held = Objects /\ ngen = 0
GenId == IF ngen = 0 THEN "g1" ELSE IF ngen = 1 THEN "g2" ELSE IF ngen = 2 THEN "g3" ELSE "g4"
\* the environment's choices are limited to what the statement covers: force only to displace a different object on an
\* occupied id or to re-register the same object under its own id; an object is never put under two ids at once
ForceOK(o, i) == i \in DOMAIN reg /\ (reg[i].obj = o \/ ~Registered(reg, o)) /\ ~Unregistrable(o)
Register(o, i, force, weak) ==
    /\ o \in held /\ (force => ForceOK(o, i)) /\ (weak => ~IsClass(o) \/ ~force)
    /\ reg' = DoRegister(reg, o, i, force, weak).reg /\ UNCHANGED <<held, ngen>>
RegisterGen(o, weak) ==
    /\ o \in held /\ ngen < 4
    /\ reg' = DoRegister(reg, o, GenId, FALSE, weak).reg
    /\ ngen' = IF DoRegister(reg, o, GenId, FALSE, weak).out = "ok" THEN ngen + 1 ELSE ngen
    /\ UNCHANGED held
UnregisterId(i) == reg' = DoUnregisterId(reg, i) /\ UNCHANGED <<held, ngen>>
UnregisterObj(o) == o \in held /\ reg' = DoUnregisterObj(reg, o) /\ UNCHANGED <<held, ngen>>
\* attempts on the daemon's own object (by object, or a registration under its id, forced or not) change nothing
UnregisterDaemonObj == UNCHANGED vars
RegisterAsDaemon(o, force, weak) == o \in held /\ reg' = DoRegister(reg, o, "daemon", force, weak).reg /\ UNCHANGED <<held, ngen>>
\* the application lets go of an instance; if it was only weakly registered it disappears from the registry
Gc(o) == /\ o \in held /\ ~IsClass(o) /\ (Registered(reg, o) => reg[IdOf(reg, o)].weak)
         /\ held' = held \ {o} /\ reg' = DoGc(reg, o) /\ UNCHANGED ngen
Next == \/ \E o \in Objects, i \in {"x", "y"}, f \in BOOLEAN, w \in BOOLEAN : Register(o, i, f, w)
        \/ \E o \in Objects \ {4}, i \in BadIds : Register(o, i, FALSE, FALSE)
        \/ \E o \in Objects, w \in BOOLEAN : RegisterGen(o, w)
        \/ \E i \in {"x", "y", "g1", "daemon"} : UnregisterId(i)
        \/ \E o \in Objects : UnregisterObj(o) \/ Gc(o)
        \/ UnregisterDaemonObj
        \/ \E o \in Objects, f \in BOOLEAN, w \in BOOLEAN : RegisterAsDaemon(o, f, w)
Spec == Init /\ [][Next]_vars

\* ---- property C16 (design level) ----
OneIdPerObject == \A i, j \in DOMAIN reg : reg[i].obj = reg[j].obj => i = j
OnlyHeldOrStrong == \A i \in DOMAIN reg : reg[i].obj \in held \/ ~reg[i].weak
NoDaemonIdInTable == "daemon" \notin DOMAIN reg      \* the reserved entry is kept outside this table and never goes away
=============================================================================
