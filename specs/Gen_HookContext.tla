-------------------------- MODULE Gen_HookContext --------------------------
(* Scripts for E14: every sequence of up to MaxLen steps (connect, call, drop) of up to three peers, each starting with its connect. *)
EXTENDS HookContext, TLC, Json
CONSTANT MaxLen
VARIABLE h
GInit == Init /\ h = <<>>
GNext == /\ Len(h) < MaxLen
         /\ \E c \in Conns :
              \/ Validate(c) /\ (c = 1 \/ (c - 1) \in connected \/ \E i \in 1..Len(h) : h[i].c = c - 1) /\ h' = Append(h, [a |-> "connect", c |-> c])
              \/ Call(c) /\ h' = Append(h, [a |-> "call", c |-> c])
              \/ Drop(c) /\ h' = Append(h, [a |-> "drop", c |-> c])
         /\ (\E i \in 1..Len(h') : h'[i].a = "connect" /\ i > 1) => PrintT("SCRIPT " \o ToJson([steps |-> h']))
=============================================================================
