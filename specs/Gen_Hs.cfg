INIT Init
NEXT Next
CONSTANTS MaxPipe = 1
CHECK_DEADLOCK FALSE
