------------------------------ MODULE Gen_Batch ------------------------------
(* Every call list up to MaxLen over the call alphabet of Batch.tla (C11). *)
EXTENDS Naturals, Sequences, TLC, Json
CONSTANT MaxLen
GCalls == {[m |-> "add", k |-> 1], [m |-> "add", k |-> 2], [m |-> "addkw", k |-> 5], [m |-> "read", k |-> 0], [m |-> "note", k |-> 4],
           [m |-> "fail", k |-> 0], [m |-> "failafter", k |-> 3], [m |-> "unexposed", k |-> 0], [m |-> "private", k |-> 0],
           [m |-> "missing", k |-> 0]}
VARIABLES h, done
Init == h = <<>> /\ done = FALSE
Next == \/ ~done /\ Len(h) < MaxLen /\ \E c \in GCalls : h' = Append(h, c) /\ done' = FALSE
        \/ ~done /\ PrintT("SCRIPT " \o ToJson(h)) /\ done' = TRUE /\ h' = h
=============================================================================
