SPECIFICATION Spec
INVARIANT OnlyAuthorised
INVARIANT InvokesOnlyNamed
CHECK_DEADLOCK FALSE
