----------------------------- MODULE Gen_Gateway -----------------------------
(* Cases for C20: the request space with the fields that cannot matter for a given decision folded to one representative
   (Canonical), so that every distinguishable situation is kept once. *)
EXTENDS Gateway, Sequences, TLC, Json
Canonical(x) ==
    LET d == Decide(x) IN
    /\ x.path \notin CallPaths =>
          /\ x.name = "exact" /\ x.member = "method" /\ x.params = "none" /\ ~x.oneway /\ x.par = "absent"
          /\ x.pattern = "default" \/ x.path = "index"
    /\ x.path \in {"root", "pyro_noslash", "outside"} => x.keycfg = "none" /\ x.hdr = "absent"
    /\ x.meth \notin {"GET", "POST"} => x.params = "none" /\ ~x.oneway /\ x.member = "method" /\ x.pattern = "default"
    /\ x.keycfg = "none" => x.hdr = "absent" /\ x.par \in {"absent", "wrong"}
    /\ x.member \in {"meta", "unknown", "private"} => x.params \in {"none", "one"}
    \* an attribute read cannot take parameters (with no key configured a $key parameter is an ordinary parameter)
    /\ x.member = "attribute" => x.params = "none" /\ (x.keycfg = "none" => x.par = "absent")
    /\ x.member \in {"method_slow", "method_streams", "method_vanishes"} => x.params = "none" /\ x.name = "exact" /\ x.pattern = "default" /\ x.path = "call"
    /\ (x.path \in CallPaths /\ ~Registered(x.name)) => x.member \in {"method", "meta"} /\ x.params \in {"none", "one"}
    /\ x.path \in {"extra_seg", "lead_seg"} => x.member = "method" /\ x.params \in {"none", "one"} /\ ~x.oneway
VARIABLE done
GInit == done = FALSE /\ r = [meth |-> "GET", path |-> "call", name |-> "exact", member |-> "method", keycfg |-> "none",
                              hdr |-> "absent", par |-> "absent", pattern |-> "default", oneway |-> FALSE, params |-> "none"]
GNext == /\ ~done /\ done' = TRUE /\ UNCHANGED r
         /\ \A x \in {y \in Requests : Canonical(y)} : PrintT("SCRIPT " \o ToJson([r |-> x, decide |-> Decide(x)]))
=============================================================================
