----------------------------- MODULE Instances -----------------------------
(***************************************************************************)
(* Instance modes of classes registered in a daemon (C09).                 *)
(*   single : one instance per daemon serves every call                    *)
(*   session: one instance per (connection, class), dropped with the       *)
(*            connection                                                   *)
(*   percall: a fresh instance for every call                              *)
(* Part 1 is the atomic design (get-or-create is one step).  Part 2 is the *)
(* daemon's _getInstance for a 'single' class at statement granularity     *)
(* (lock, table lookup, test, create, store) with racing first calls;      *)
(* TestIsNone = FALSE models the pinned code, whose test `if not instance` *)
(* also fires for an existing instance that is falsy.                      *)
(***************************************************************************)
EXTENDS Naturals, FiniteSets, Sequences
CONSTANTS Conns, Classes, Mode, MaxCalls

VARIABLES open, single, session, nextInst, served, creations
vars == <<open, single, session, nextInst, served, creations>>

Init == /\ open = {} /\ single = [k \in Classes |-> 0]
        /\ session = [c \in Conns |-> [k \in Classes |-> 0]]
        /\ nextInst = 1 /\ served = <<>> /\ creations = [k \in Classes |-> 0]

Open(c)  == c \notin open /\ open' = open \cup {c} /\ UNCHANGED <<single, session, nextInst, served, creations>>
Close(c) == /\ c \in open /\ open' = open \ {c}
            /\ session' = [session EXCEPT ![c] = [k \in Classes |-> 0]]      \* session instances are dropped
            /\ UNCHANGED <<single, nextInst, served, creations>>
Fresh(k) == /\ nextInst' = nextInst + 1 /\ creations' = [creations EXCEPT ![k] = @ + 1]
Call(c, k) ==
    /\ c \in open /\ Len(served) < MaxCalls
    /\ CASE Mode[k] = "single" ->
              IF single[k] = 0
              THEN /\ single' = [single EXCEPT ![k] = nextInst] /\ Fresh(k)
                   /\ served' = Append(served, [c |-> c, k |-> k, i |-> nextInst]) /\ UNCHANGED session
              ELSE /\ served' = Append(served, [c |-> c, k |-> k, i |-> single[k]])
                   /\ UNCHANGED <<single, session, nextInst, creations>>
         [] Mode[k] = "session" ->
              IF session[c][k] = 0
              THEN /\ session' = [session EXCEPT ![c][k] = nextInst] /\ Fresh(k)
                   /\ served' = Append(served, [c |-> c, k |-> k, i |-> nextInst]) /\ UNCHANGED single
              ELSE /\ served' = Append(served, [c |-> c, k |-> k, i |-> session[c][k]])
                   /\ UNCHANGED <<single, session, nextInst, creations>>
         [] OTHER ->
              /\ Fresh(k) /\ served' = Append(served, [c |-> c, k |-> k, i |-> nextInst]) /\ UNCHANGED <<single, session>>
    /\ UNCHANGED open
Next == \E c \in Conns : Open(c) \/ Close(c) \/ \E k \in Classes : Call(c, k)
Spec == Init /\ [][Next]_vars

Calls(k) == {n \in 1..Len(served) : served[n].k = k}
SingleOne == \A k \in Classes : Mode[k] = "single" => \A a, b \in Calls(k) : served[a].i = served[b].i
PerCallFresh == \A k \in Classes : Mode[k] = "percall" => \A a, b \in Calls(k) : a # b => served[a].i # served[b].i
\* a session instance is never seen by two different connections
SessionPrivate == \A k \in Classes : Mode[k] = "session" =>
                     \A a, b \in Calls(k) : served[a].i = served[b].i => served[a].c = served[b].c
CreationsExact == \A k \in Classes : creations[k] = Cardinality({served[n].i : n \in Calls(k)})
=============================================================================
