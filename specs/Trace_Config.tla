---------------------------- MODULE Trace_Config ----------------------------
(* Trace validation for the configuration (monitor): per case the outcome (default kept / value of the right type taken from
   the text / ValueError / another exception), and whether copy() and as_dict() agree with the configuration. *)
EXTENDS Naturals, Sequences, TLC, Json, IOUtils
VARIABLES k, t, useenv
C == INSTANCE Config
Traces == JsonDeserialize(IOEnv.TRACE_FILE)
NT == Len(Traces)
VARIABLES tn, l, bad
vars == <<tn, l, bad, k, t, useenv>>
X == Traces[tn]
Init == tn \in 1..NT /\ l = 1 /\ bad = "" /\ k = "switch" /\ t = "word" /\ useenv = TRUE
Check(x) ==
    LET exp == C!Outcome(x.k, x.t, x.useenv) IN
    IF x.out = exp THEN (IF x.out # "ValueError" /\ ~x.views_agree THEN "Config.CopyOrDictDisagrees" ELSE "")
    ELSE IF x.out = "other_exception" THEN "Config.FailsWithAnotherException"
    ELSE IF exp = "default" THEN "Config.EnvironmentUsedAlthoughSwitchedOff"
    ELSE IF exp = "ValueError" THEN "Config.UnfitTextAccepted"
    ELSE IF x.out = "ValueError" THEN "Config.FittingTextRefused"
    ELSE IF x.out = "wrong_value" THEN "Config.WrongValueOrType"
    ELSE "Config.EnvironmentIgnored"
Step == l = 1 /\ l' = 2 /\ tn' = tn /\ bad' = Check(X) /\ UNCHANGED <<k, t, useenv>>
Spec == Init /\ [][Step]_vars
Verdict == (l = 2) => PrintT(<<"VERDICT", tn, bad>>)
=============================================================================
