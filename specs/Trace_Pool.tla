----------------------------- MODULE Trace_Pool -----------------------------
(***************************************************************************)
(* Trace validation for C18 (search mode).  A trace is the call/return     *)
(* history of the real Pool running real Worker threads under the line-    *)
(* level scheduler:                                                        *)
(*   SubmitCall(j) / SubmitRet(j, ok | refused | closed | error)           *)
(*   JobStart(j, w) / JobEnd(j, w)          the job ran in worker thread w *)
(*   DoneCall(w) / DoneRet(w)               notify_done                    *)
(*   CloseCall / CloseRet, WorkerExit(w), Quiet, End(maxw, how)            *)
(*   Hand(j)      the job is put into its worker's slot (inside process)   *)
(*   ClosedSet    the pool's closed flag becomes true (inside close)       *)
(* The atomic effects (SubmitEffect, DoneEffect, CloseEffect, Drop) of     *)
(* Pool.tla are not logged; TLC places each between the call and the       *)
(* return.  A trace is accepted iff some placement explains it.  Hand and  *)
(* ClosedSet tie the placement to the two critical sections: the hand-over *)
(* belongs to the submission's effect and happens while the pool is open,  *)
(* and the flag is set by the close's effect.                              *)
(***************************************************************************)
EXTENDS Naturals, Sequences, TLC, TLCExt, Json, IOUtils, FiniteSets
Traces == JsonDeserialize(IOEnv.TRACE_FILE)
N == Len(Traces)
ASSUME \A i \in 1..N : TLCSet(i, FALSE)
MaxW == 8
MaxJ == 8
Workers == 1..MaxW
Jobs == 1..MaxJ
VARIABLES t, l, ws, js, jw, sub, subres, dn, closed, cls
vars == <<t, l, ws, js, jw, sub, subres, dn, closed, cls>>
Size == Traces[t][1].size
Ev == Traces[t][l]
More == l <= Len(Traces[t])
Live(s) == Cardinality({w \in Workers : s[w] \in {"idle", "busy", "fin"}})
Busy(s) == Cardinality({w \in Workers : s[w] \in {"busy", "fin"}})
Init == /\ t \in 1..N /\ l = 2
        /\ ws = [w \in Workers |-> IF w <= Traces[t][1].min THEN "idle" ELSE "none"]
        /\ js = [j \in Jobs |-> "new"] /\ jw = [j \in Jobs |-> 0]
        /\ sub = 0 /\ subres = "none" /\ dn = [w \in Workers |-> "no"] /\ closed = FALSE /\ cls = "no"
Adv == l' = l + 1 /\ UNCHANGED t

SubmitCall == /\ More /\ Ev.e = "SubmitCall" /\ sub = 0 /\ js[Ev.j] = "new"
              /\ sub' = Ev.j /\ subres' = "none" /\ js' = [js EXCEPT ![Ev.j] = "called"] /\ Adv
              /\ UNCHANGED <<ws, jw, dn, closed, cls>>
SubmitEffect ==
   /\ sub # 0 /\ subres = "none"
   /\ \/ /\ closed /\ subres' = "closed" /\ js' = [js EXCEPT ![sub] = "closedout"] /\ UNCHANGED <<ws, jw>>
      \/ /\ ~closed
         /\ \E w \in Workers : /\ ws[w] = "idle"
                               /\ ws' = [ws EXCEPT ![w] = "busy"] /\ jw' = [jw EXCEPT ![sub] = w]
                               /\ js' = [js EXCEPT ![sub] = "assigned"] /\ subres' = "ok"
      \/ /\ ~closed
         /\ \E w \in Workers : /\ ws[w] = "none" /\ Live(ws) < Size
                               /\ ws' = [ws EXCEPT ![w] = "busy"] /\ jw' = [jw EXCEPT ![sub] = w]
                               /\ js' = [js EXCEPT ![sub] = "assigned"] /\ subres' = "ok"
      \/ /\ ~closed /\ Busy(ws) = Size
         /\ subres' = "refused" /\ js' = [js EXCEPT ![sub] = "refused"] /\ UNCHANGED <<ws, jw>>
   /\ UNCHANGED <<t, l, sub, dn, closed, cls>>
SubmitRet == /\ More /\ Ev.e = "SubmitRet" /\ sub = Ev.j /\ subres = Ev.r
             /\ sub' = 0 /\ subres' = "none" /\ Adv /\ UNCHANGED <<ws, js, jw, dn, closed, cls>>
\* the hand-over is part of the submission's atomic effect: it happens after the worker was chosen and while the pool is still open
Hand == /\ More /\ Ev.e = "Hand" /\ sub = Ev.j /\ subres = "ok" /\ ~closed
        /\ Adv /\ UNCHANGED <<ws, js, jw, sub, subres, dn, closed, cls>>
ClosedSet == /\ More /\ Ev.e = "ClosedSet" /\ cls = "eff" /\ closed
             /\ Adv /\ UNCHANGED <<ws, js, jw, sub, subres, dn, closed, cls>>
\* once close() has returned no further job starts ("closing the pool starts no further job")
JobStart == /\ More /\ Ev.e = "JobStart" /\ js[Ev.j] = "assigned" /\ jw[Ev.j] = Ev.w /\ cls # "done"
            /\ js' = [js EXCEPT ![Ev.j] = "started"] /\ Adv /\ UNCHANGED <<ws, jw, sub, subres, dn, closed, cls>>
JobEnd == /\ More /\ Ev.e = "JobEnd" /\ js[Ev.j] = "started" /\ jw[Ev.j] = Ev.w
          /\ js' = [js EXCEPT ![Ev.j] = "ended"] /\ ws' = [ws EXCEPT ![Ev.w] = "fin"] /\ Adv
          /\ UNCHANGED <<jw, sub, subres, dn, closed, cls>>
\* after a close, a job that was assigned but not yet started may be given up by its worker
Drop(j) == /\ closed /\ js[j] = "assigned"
           /\ js' = [js EXCEPT ![j] = "dropped"] /\ ws' = [ws EXCEPT ![jw[j]] = "fin"]
           /\ UNCHANGED <<t, l, jw, sub, subres, dn, closed, cls>>
DoneCall == /\ More /\ Ev.e = "DoneCall" /\ dn[Ev.w] = "no" /\ ws[Ev.w] = "fin"
            /\ dn' = [dn EXCEPT ![Ev.w] = "called"] /\ Adv /\ UNCHANGED <<ws, js, jw, sub, subres, closed, cls>>
DoneEffect(w) == /\ dn[w] = "called" /\ ws[w] = "fin"
                 /\ \/ ~closed /\ ws' = [ws EXCEPT ![w] = "idle"]
                    \/ ws' = [ws EXCEPT ![w] = "retired"]
                 /\ dn' = [dn EXCEPT ![w] = "eff"] /\ UNCHANGED <<t, l, js, jw, sub, subres, closed, cls>>
DoneRet == /\ More /\ Ev.e = "DoneRet" /\ dn[Ev.w] = "eff"
           /\ dn' = [dn EXCEPT ![Ev.w] = "no"] /\ Adv /\ UNCHANGED <<ws, js, jw, sub, subres, closed, cls>>
WorkerExit == /\ More /\ Ev.e = "WorkerExit"
              /\ \/ ws[Ev.w] = "retired"
                 \/ closed /\ ws[Ev.w] = "fin" /\ dn[Ev.w] = "no"
              /\ ws' = [ws EXCEPT ![Ev.w] = "exited"] /\ Adv /\ UNCHANGED <<js, jw, sub, subres, dn, closed, cls>>
CloseCall == /\ More /\ Ev.e = "CloseCall" /\ cls = "no" /\ cls' = "called" /\ Adv
             /\ UNCHANGED <<ws, js, jw, sub, subres, dn, closed>>
CloseEffect == /\ cls = "called" /\ cls' = "eff" /\ closed' = TRUE
               /\ ws' = [w \in Workers |-> IF ws[w] = "idle" THEN "retired" ELSE ws[w]]
               /\ UNCHANGED <<t, l, js, jw, sub, subres, dn>>
CloseRet == /\ More /\ Ev.e = "CloseRet" /\ cls = "eff" /\ cls' = "done" /\ Adv
            /\ UNCHANGED <<ws, js, jw, sub, subres, dn, closed>>
\* all jobs were released, every thread is parked and the pool is still open: whatever was accepted has been served
Quiet == /\ More /\ Ev.e = "Quiet" /\ ~closed /\ cls = "no"
         /\ \A j \in Jobs : js[j] \in {"new", "ended", "refused"}
         /\ \A w \in Workers : ws[w] \in {"none", "idle", "retired", "exited"}
         /\ Adv /\ UNCHANGED <<ws, js, jw, sub, subres, dn, closed, cls>>
\* end of the run (everything released, quiescent): nothing left waiting, nobody left behind, bound respected
End == /\ More /\ Ev.e = "End" /\ Ev.how = "ok" /\ Ev.maxw <= Size
       /\ \A j \in Jobs : js[j] \in {"new", "ended", "refused", "dropped", "closedout"}
       /\ \A w \in Workers : ws[w] \in {"none", "exited"}
       /\ Adv /\ UNCHANGED <<ws, js, jw, sub, subres, dn, closed, cls>>
Next == SubmitCall \/ SubmitEffect \/ SubmitRet \/ JobStart \/ JobEnd \/ DoneCall \/ DoneRet
        \/ WorkerExit \/ CloseCall \/ CloseEffect \/ CloseRet \/ End \/ Quiet \/ Hand \/ ClosedSet
        \/ \E w \in Workers : DoneEffect(w)
        \/ \E j \in Jobs : Drop(j)
Spec == Init /\ [][Next]_vars
Constr == (l = Len(Traces[t]) + 1) => TLCSet(t, TRUE)
Post == LET bad == {i \in 1..N : TLCGet(i) # TRUE} IN
        IF bad = {} THEN TRUE ELSE PrintT(<<"REJECTED", bad>>) /\ FALSE
=============================================================================
