SPECIFICATION Spec
CONSTANTS N = 3
  WaitAll = TRUE
  Chunk = 2
  MaxCalls = 6
  Blocking = FALSE
INVARIANT ReturnExact
INVARIANT NeverOverAsk
INVARIANT NeverSurplus
INVARIANT PartialIsData
INVARIANT ErrorHasCause
INVARIANT EofCarriesData
INVARIANT PeerIsPrefix
INVARIANT ReturnComplete
CHECK_DEADLOCK FALSE
