INIT GInit
NEXT GNext
CONSTANTS Names = {"n1", "n2"}
  Tags = {"t1", "t2"}
  Targets = {"A", "B"}
CHECK_DEADLOCK FALSE
