------------------------------- MODULE Gen_URI -------------------------------
(* The complete abstract text space of URI.tla (C19), with what the design says about each text. *)
EXTENDS URI, TLC, Json
VARIABLE done
GInit == done = FALSE /\ t = CHOOSE x \in Texts : TRUE
GNext == /\ ~done /\ done' = TRUE /\ UNCHANGED t
         /\ \A x \in Texts : (x.loc \in {"none", "unix", "unix_empty", "unix_colon"} => x.port = "none") =>
               PrintT("SCRIPT " \o ToJson([text |-> x, model_accepts |-> Parse(x).ok]))
=============================================================================
