INIT GInit
NEXT GNext
CONSTANTS MaxLen = 5
  CanCombine = TRUE
CHECK_DEADLOCK FALSE
