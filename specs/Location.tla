------------------------------ MODULE Location ------------------------------
(***************************************************************************)
(* Where a daemon says it is (extra, beyond the listed properties).        *)
(* A daemon listens on an IPv4 address, an IPv6 address or a Unix socket.  *)
(* It can be told a second, outside address (for clients behind address    *)
(* translation): a host with a fixed port, or with port 0, which means     *)
(* "the port I am really listening on".  Uris the daemon hands out name    *)
(* the outside address if there is one, unless the inside one is asked     *)
(* for.  An outside address makes no sense for a Unix socket: refused.     *)
(* Every uri the daemon hands out can be parsed again and names exactly    *)
(* that host and port (IPv6 hosts in brackets).                            *)
(***************************************************************************)
HostKinds == {"ipv4", "ipv6", "unix"}
Nats == {"none", "fixed", "sameport"}
\* how the outside host is written: a name, or an IPv6 address (as the application knows it: without brackets)
NatHosts == {"name", "ipv6"}
\* which address a handed-out uri names
Names(h, n, asknat) ==
    IF h = "unix" THEN (IF n = "none" THEN "inside" ELSE "ValueError")
    ELSE IF n = "none" \/ ~asknat THEN "inside"
    ELSE IF n = "fixed" THEN "outside_fixed" ELSE "outside_actualport"
VARIABLES h, n, nh, asknat
Init == h \in HostKinds /\ n \in Nats /\ nh \in NatHosts /\ asknat \in BOOLEAN
Next == UNCHANGED <<h, n, nh, asknat>>
Spec == Init /\ [][Next]_<<h, n, nh, asknat>>
\* every kind of listening address can be combined with every outside address that makes sense for it
NetworkHostsCanBeTranslated == (h # "unix") => Names(h, n, asknat) # "ValueError"
=============================================================================
