------------------------------- MODULE Daemon -------------------------------
(***************************************************************************)
(* The daemon's treatment of network connections (C05, C08, C12, C13).     *)
(*                                                                         *)
(* A connection is accepted by the transport server, must complete the     *)
(* connect handshake (valid CONNECT for a registered object, accepted by   *)
(* the handshake validator) before any request on it is dispatched, then   *)
(* serves requests until it ends, and is then cleaned up exactly once:     *)
(* disconnect hook, tracked resources closed, session instances dropped,   *)
(* server socket closed, worker / selector slot released.                  *)
(*                                                                         *)
(* Client behaviour is arbitrary: the first item and every later item is   *)
(* drawn from Items (valid and hostile classes).  For hostile items the    *)
(* model says what MAY happen to the offending connection (error reply and *)
(* stay open, or closed) - the invariants say what MUST hold.              *)
(***************************************************************************)
EXTENDS Naturals, FiniteSets, Sequences

CONSTANTS Conns,           \* connection identities
          Resources,       \* resources that methods may track on their connection
          Sample,          \* the item classes the environment uses in this model run (a subset of Items)
          MaxSteps

\* classes of items a client can send (after concretisation: byte strings)
FirstOK     == {"connect_valid"}
FirstBad    == {"connect_unknown_object", "connect_validator_raises", "connect_bad_payload", "connect_unknown_serializer",
                "invoke_first", "ping_first", "result_first", "garbage", "bad_version", "bad_magic", "oversized",
                "truncated_then_close"}
\* later items: what they do to an established connection
StayOpen    == {"invoke_ok", "invoke_raises", "invoke_unknown_object", "invoke_unknown_member", "invoke_unserializable_exception",
                "invoke_bad_payload", "ping", "oneway_ok", "batch_ok", "invoke_track", "invoke_untrack"}
MayClose    == {"unknown_serializer", "unknown_msgtype", "bad_annotations"}     \* error reply or closed: both allowed
MustClose   == {"garbage", "bad_version", "bad_magic", "oversized", "truncated_then_close", "close", "reset", "timeout_midmessage"}
Items == FirstOK \cup FirstBad \cup StayOpen \cup MayClose \cup MustClose

VARIABLES cstate,     \* conn -> "none" | "accepted" | "ready" | "closed"
          wasReady,   \* conn -> BOOLEAN
          pipeline,   \* conn -> sequence of items written by the client and not yet consumed by the server
          execs,      \* log of [c, item] for every dispatched request (user code ran)
          hook,       \* conn -> number of disconnect-hook calls
          tracked,    \* conn -> set of resources tracked on it
          closes,     \* resource -> number of close() calls
          slots,      \* connections holding a worker / selector slot
          alive,      \* the request loop is running
          steps
vars == <<cstate, wasReady, pipeline, execs, hook, tracked, closes, slots, alive, steps>>

Init == /\ cstate = [c \in Conns |-> "none"] /\ wasReady = [c \in Conns |-> FALSE]
        /\ pipeline = [c \in Conns |-> <<>>] /\ execs = <<>> /\ hook = [c \in Conns |-> 0]
        /\ tracked = [c \in Conns |-> {}] /\ closes = [r \in Resources |-> 0]
        /\ slots = {} /\ alive = TRUE /\ steps = 0

Tick == steps' = steps + 1 /\ steps < MaxSteps

\* environment: a client connects / writes an item (possibly pipelined behind earlier ones)
Connect(c) == /\ cstate[c] = "none" /\ cstate' = [cstate EXCEPT ![c] = "accepted"] /\ slots' = slots \cup {c}
              /\ Tick /\ UNCHANGED <<wasReady, pipeline, execs, hook, tracked, closes, alive>>
Write(c, it) == /\ cstate[c] \in {"accepted", "ready"} /\ Len(pipeline[c]) < 2
                /\ pipeline' = [pipeline EXCEPT ![c] = Append(@, it)]
                /\ Tick /\ UNCHANGED <<cstate, wasReady, execs, hook, tracked, closes, slots, alive>>

\* the daemon ends a connection: cleanup exactly once
Teardown(c) == /\ cstate' = [cstate EXCEPT ![c] = "closed"]
               /\ hook' = [hook EXCEPT ![c] = IF wasReady[c] THEN @ + 1 ELSE @]
               /\ closes' = [r \in Resources |-> IF r \in tracked[c] THEN closes[r] + 1 ELSE closes[r]]
               /\ tracked' = [tracked EXCEPT ![c] = {}]
               /\ slots' = slots \ {c}
               /\ pipeline' = [pipeline EXCEPT ![c] = <<>>]        \* whatever the peer pipelined is never looked at

Handshake(c) ==
    /\ cstate[c] = "accepted" /\ pipeline[c] # <<>> /\ alive
    /\ LET it == Head(pipeline[c]) IN
       IF it \in FirstOK
       THEN /\ cstate' = [cstate EXCEPT ![c] = "ready"] /\ wasReady' = [wasReady EXCEPT ![c] = TRUE]
            /\ pipeline' = [pipeline EXCEPT ![c] = Tail(@)]
            /\ UNCHANGED <<execs, hook, tracked, closes, slots>>
       ELSE /\ Teardown(c) /\ UNCHANGED <<wasReady, execs>>
    /\ Tick /\ UNCHANGED alive

Serve(c) ==
    /\ cstate[c] = "ready" /\ pipeline[c] # <<>> /\ alive
    /\ LET it == Head(pipeline[c]) IN
       \/ /\ it \in StayOpen
          /\ pipeline' = [pipeline EXCEPT ![c] = Tail(@)]
          /\ execs' = IF it \in {"invoke_unknown_object", "invoke_unknown_member", "invoke_bad_payload", "ping"} THEN execs
                      ELSE Append(execs, [c |-> c, item |-> it])
          /\ \/ it = "invoke_track" /\ \E r \in Resources : tracked' = [tracked EXCEPT ![c] = @ \cup {r}]
             \/ it = "invoke_untrack" /\ \E r \in tracked[c] : tracked' = [tracked EXCEPT ![c] = @ \ {r}]
             \/ it = "invoke_untrack" /\ tracked[c] = {} /\ UNCHANGED tracked
             \/ it \notin {"invoke_track", "invoke_untrack"} /\ UNCHANGED tracked
          /\ UNCHANGED <<cstate, wasReady, hook, closes, slots>>
       \/ /\ it \in MayClose
          /\ \/ pipeline' = [pipeline EXCEPT ![c] = Tail(@)] /\ UNCHANGED <<cstate, hook, tracked, closes, slots>>
             \/ Teardown(c)
          /\ UNCHANGED <<wasReady, execs>>
       \/ /\ it \notin StayOpen \cup MayClose
          /\ Teardown(c) /\ UNCHANGED <<wasReady, execs>>
    /\ Tick /\ UNCHANGED alive

ASSUME Sample \subseteq Items
Next == \E c \in Conns : Connect(c) \/ Handshake(c) \/ Serve(c) \/ \E it \in Sample : Write(c, it)
Spec == Init /\ [][Next]_vars

\* ---- C08: nothing is dispatched on a connection that has not completed an accepted handshake
NoExecBeforeReady == \A i \in 1..Len(execs) : wasReady[execs[i].c]
\* ---- C13: cleanup exactly once for accepted connections, never for others; open connections untouched
CleanOnce == \A c \in Conns : /\ (cstate[c] = "closed" /\ wasReady[c]) => hook[c] = 1
                              /\ cstate[c] # "closed" => hook[c] = 0
                              /\ cstate[c] = "closed" => tracked[c] = {} /\ c \notin slots
ResourcesOnce == \A r \in Resources : closes[r] <= Cardinality({c \in Conns : TRUE})
OpenUntouched == \A c \in Conns : cstate[c] = "ready" => hook[c] = 0 /\ c \in slots
\* ---- C05: no client input stops the request loop; accounting matches the live connections
LoopAlive == alive
Accounting == slots = {c \in Conns : cstate[c] \in {"accepted", "ready"}}
=============================================================================
