----------------------------- MODULE Gen_NSLin -----------------------------
(* Concurrent scenarios for C15: an initial registration state over two shared names and one operation per
   thread, drawn from the operations the property names.  All scenarios of NThreads threads are enumerated. *)
EXTENDS Naturals, Sequences, FiniteSets, TLC, Json
CONSTANTS NThreads
N1 == <<1>>
N2 == <<1, 1>>
COps == [op : {"register"}, name : {N1, N2}, uri : {1}, safe : BOOLEAN, tags : {<<1>>}, meta : {FALSE}]
   \cup [op : {"remove"}, sel : {"name"}, arg : {N1, N2}, kind : {"none"}, meta : {FALSE}]
   \cup [op : {"remove"}, sel : {"prefix"}, arg : {N1}, kind : {"none"}, meta : {FALSE}]
   \cup [op : {"remove"}, sel : {"regex"}, arg : {N1}, kind : {"prefix"}, meta : {FALSE}]
   \cup [op : {"set_metadata"}, name : {N1}, tags : {<<2>>}, meta : {FALSE}]
   \cup [op : {"lookup"}, name : {N1}, meta : {TRUE}]
   \cup [op : {"list"}, sel : {"all"}, arg : {<<>>}, kind : {"none"}, meta : {TRUE}]
   \cup [op : {"list"}, sel : {"prefix"}, arg : {N1}, kind : {"none"}, meta : {FALSE}]
   \cup [op : {"list"}, sel : {"regex"}, arg : {N1}, kind : {"prefix"}, meta : {TRUE}]
   \cup [op : {"yplookup"}, mode : {"any"}, tags : {<<1, 2>>}, meta : {TRUE}]
   \cup [op : {"count"}, meta : {FALSE}]
VARIABLES init, ops
Init == init \in SUBSET {N1, N2} /\ ops = <<>>
\* operations are chosen in a canonical (non-decreasing) order of an arbitrary enumeration: threads are symmetric
Next == \/ Len(ops) < NThreads /\ \E o \in COps : ops' = Append(ops, o) /\ init' = init
        \/ Len(ops) = NThreads /\ PrintT("SCRIPT " \o ToJson([init |-> init, ops |-> ops]))
             /\ ops' = Append(ops, [op |-> "end"]) /\ init' = init
=============================================================================
