SPECIFICATION Spec
INVARIANT HeldEndsWithDaemon
CHECK_DEADLOCK FALSE
