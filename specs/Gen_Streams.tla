----------------------------- MODULE Gen_Streams -----------------------------
(* Environment scripts for C10: two proxies opening streams over sources of every shape, fetching, closing, disconnecting,
   reconnecting, with housekeeping runs and clock advances in between. *)
EXTENDS Naturals, Sequences, TLC, Json
CONSTANT MaxLen
Sources == {[len |-> 0, raiseAt |-> 0], [len |-> 1, raiseAt |-> 0], [len |-> 3, raiseAt |-> 0], [len |-> 3, raiseAt |-> 2],
            [len |-> 2, raiseAt |-> 1], [len |-> 2, raiseAt |-> 3]}
VARIABLES h, nopen
Steps(n) == [a : {"open"}, p : {1, 2}, i : {0}, src : Sources, dt : {0}]
       \* losenext: a fetch whose request is served but whose reply gets lost on the way back
       \cup [a : {"next", "close", "losenext"}, p : {0}, i : 1..n, src : {[len |-> 0, raiseAt |-> 0]}, dt : {0}]
       \* break: the connection is cut by the environment (the client only notices at its next request, which then fails)
       \* fail: another method of the object that hands out the streams is called and raises (nothing to do with any stream)
       \cup [a : {"disconnect", "reconnect", "break", "fail"}, p : {1, 2}, i : {0}, src : {[len |-> 0, raiseAt |-> 0]}, dt : {0}]
       \cup [a : {"housekeep"}, p : {0}, i : {0}, src : {[len |-> 0, raiseAt |-> 0]}, dt : {0}]
       \cup [a : {"tick"}, p : {0}, i : {0}, src : {[len |-> 0, raiseAt |-> 0]}, dt : {2, 5, 11}]
Init == h = <<>> /\ nopen = 0
Next == \/ /\ Len(h) < MaxLen
           /\ \E s \in Steps(nopen) :
                /\ (s.a = "open" => nopen < 3)
                /\ h' = Append(h, s)
                /\ nopen' = IF s.a = "open" THEN nopen + 1 ELSE nopen
        \/ /\ Len(h) = MaxLen /\ PrintT("SCRIPT " \o ToJson(h))
           /\ h' = Append(h, [a |-> "end", p |-> 0, i |-> 0, src |-> [len |-> 0, raiseAt |-> 0], dt |-> 0]) /\ UNCHANGED nopen
\* Straddle scripts (time in tenths of a second): housekeeping runs shortly before a deadline (end of the linger period after a
\* disconnect, or end of the lifetime of an idle stream) and again shortly after it, less than a second later; then the client
\* comes back.  Lifetime and Linger are the configured periods in seconds (0 = not configured: no script).
CONSTANTS Lifetime, Linger
Z == [len |-> 0, raiseAt |-> 0]
St(a, p, i, dt) == [a |-> a, p |-> p, i |-> i, src |-> Z, dt |-> dt]
OpenSt == [a |-> "open", p |-> 1, i |-> 0, src |-> [len |-> 3, raiseAt |-> 0], dt |-> 0]
Gaps == {<<4, 8>>, <<2, 5>>, <<7, 9>>, <<1, 2>>}
\* the second housekeeping step can also be the implicit one that follows another client's request
Waker == {St("housekeep", 0, 0, 0), [a |-> "open", p |-> 2, i |-> 0, src |-> [len |-> 1, raiseAt |-> 0], dt |-> 0]}
LingerScripts == IF Linger = 0 THEN {} ELSE
    {<<OpenSt, St("next", 0, 1, 0), St("disconnect", 1, 0, 0), St("tick", 0, 0, Linger * 10 - g[1]), St("housekeep", 0, 0, 0),
       St("tick", 0, 0, g[2]), w, St("reconnect", 1, 0, 0), St("next", 0, 1, 0)>> : g \in Gaps, w \in Waker}
LifetimeScripts == IF Lifetime = 0 THEN {} ELSE
    {<<OpenSt, St("next", 0, 1, 0), St("tick", 0, 0, Lifetime * 10 - g[1]), St("housekeep", 0, 0, 0),
       St("tick", 0, 0, g[2]), w, St("next", 0, 1, 0)>> : g \in Gaps, w \in Waker}
\* a client that came back within the linger period goes on for longer than that period: the stream is its own again, the
\* earlier disconnect no longer counts
ResumeScripts == IF Linger = 0 THEN {} ELSE
    {<<OpenSt, St("next", 0, 1, 0), St("disconnect", 1, 0, 0), St("tick", 0, 0, g), St("reconnect", 1, 0, 0), St("next", 0, 1, 0),
       St("tick", 0, 0, Linger * 10 - 2), w, St("tick", 0, 0, 7), St("housekeep", 0, 0, 0), St("next", 0, 1, 0), St("next", 0, 1, 0)>> :
         g \in {5, 12}, w \in Waker}
SInit == h = <<>> /\ nopen = 0
SNext == /\ h = <<>> /\ h' = <<St("end", 0, 0, 0)>> /\ UNCHANGED nopen
         /\ \A sc \in LingerScripts \cup LifetimeScripts \cup ResumeScripts : PrintT("SCRIPT " \o ToJson(sc))
=============================================================================
