----------------------------- MODULE Gen_Streams -----------------------------
(* Environment scripts for C10: two proxies opening streams over sources of every shape, fetching, closing, disconnecting,
   reconnecting, with housekeeping runs and clock advances in between. *)
EXTENDS Naturals, Sequences, TLC, Json
CONSTANT MaxLen
Sources == {[len |-> 0, raiseAt |-> 0], [len |-> 1, raiseAt |-> 0], [len |-> 3, raiseAt |-> 0], [len |-> 3, raiseAt |-> 2],
            [len |-> 2, raiseAt |-> 1], [len |-> 2, raiseAt |-> 3]}
VARIABLES h, nopen
Steps(n) == [a : {"open"}, p : {1, 2}, i : {0}, src : Sources, dt : {0}]
       \cup [a : {"next", "close"}, p : {0}, i : 1..n, src : {[len |-> 0, raiseAt |-> 0]}, dt : {0}]
       \* break: the connection is cut by the environment (the client only notices at its next request, which then fails)
       \cup [a : {"disconnect", "reconnect", "break"}, p : {1, 2}, i : {0}, src : {[len |-> 0, raiseAt |-> 0]}, dt : {0}]
       \cup [a : {"housekeep"}, p : {0}, i : {0}, src : {[len |-> 0, raiseAt |-> 0]}, dt : {0}]
       \cup [a : {"tick"}, p : {0}, i : {0}, src : {[len |-> 0, raiseAt |-> 0]}, dt : {2, 5, 11}]
Init == h = <<>> /\ nopen = 0
Next == \/ /\ Len(h) < MaxLen
           /\ \E s \in Steps(nopen) :
                /\ (s.a = "open" => nopen < 3)
                /\ h' = Append(h, s)
                /\ nopen' = IF s.a = "open" THEN nopen + 1 ELSE nopen
        \/ /\ Len(h) = MaxLen /\ PrintT("SCRIPT " \o ToJson(h))
           /\ h' = Append(h, [a |-> "end", p |-> 0, i |-> 0, src |-> [len |-> 0, raiseAt |-> 0], dt |-> 0]) /\ UNCHANGED nopen
=============================================================================
