----------------------------- MODULE ClientCall -----------------------------
(***************************************************************************)
(* One proxy calling one daemon over a faulty transport (property C03).    *)
(*                                                                         *)
(* The proxy numbers its requests (pseq, modulo M), sends the request,     *)
(* and - unless the call is oneway - reads one reply from its connection,  *)
(* checks that the reply carries the request's number, and returns the     *)
(* payload.  On any communication error it releases the connection; a      *)
(* timeout or lost connection is retried up to Retries times.  The server  *)
(* executes a request when it receives it and answers with the request's   *)
(* number.  An adversary picks one fault per attempt.                      *)
(*                                                                         *)
(* CheckSeq and ReleaseOnError are the proxy's two defences; with both on  *)
(* (the code) the invariants below hold.  TLC shows each is needed:        *)
(* without ReleaseOnError a late reply stays in the connection and is read *)
(* by the next call; without CheckSeq that reply is returned to it.        *)
(***************************************************************************)
EXTENDS Naturals, Sequences, FiniteSets

CONSTANTS M,               \* sequence numbers are 0..M-1 (65536 in the code)
          NCalls,          \* calls made by the proxy, tokens 1..NCalls
          Retries,         \* MAX_RETRIES
          CheckSeq, ReleaseOnError,
          Oneway           \* set of tokens whose call is oneway

Tokens == 1..NCalls
Faults == {"none", "lose", "delay", "cut", "reset_before", "reset_after", "stale", "seqalter", "dup"}

VARIABLES pseq,      \* proxy's sequence counter
          conn,      \* 0 = not connected, otherwise the number of the current connection
          nconn,     \* connections made so far
          buf,       \* replies sitting unread in the current connection: sequence of [seq, tok]
          late,      \* replies still in flight on the current connection (arrive before the next request is answered)
          seen,      \* every reply ever produced (what a replaying adversary can use)
          exec,      \* token -> number of executions at the server
          cur,       \* token of the call in progress, NCalls+1 when all are done
          attempt,   \* attempts made for the current call
          faulted,   \* some attempt of the current call had a fault, or the connection was polluted when it started
          polluted,  \* the connection holds a reply nobody is waiting for (duplicate delivered)
          outcome,   \* token -> "none" | "ret" | "comm"
          retval,    \* token -> token returned (0 = None)
          lastfault  \* the adversary's last choice (observation only)
vars == <<pseq, conn, nconn, buf, late, seen, exec, cur, attempt, faulted, polluted, outcome, retval, lastfault>>

Init == /\ pseq \in 0..(M - 1) /\ conn = 0 /\ nconn = 0 /\ buf = <<>> /\ late = <<>> /\ seen = {}
        /\ exec = [k \in Tokens |-> 0] /\ cur = 1 /\ attempt = 0 /\ faulted = FALSE /\ polluted = FALSE
        /\ outcome = [k \in Tokens |-> "none"] /\ retval = [k \in Tokens |-> 0] /\ lastfault = "none"

Finish(k, o, v) == /\ outcome' = [outcome EXCEPT ![k] = o] /\ retval' = [retval EXCEPT ![k] = v]
                   /\ cur' = cur + 1 /\ attempt' = 0 /\ faulted' = FALSE
\* the proxy's reaction to a communication error
Drop == IF ReleaseOnError THEN conn' = 0 /\ buf' = <<>> /\ late' = <<>> /\ polluted' = FALSE
        ELSE UNCHANGED <<conn, buf, late, polluted>>
Fail(k, retryable) ==
    IF retryable /\ attempt < Retries
    THEN /\ attempt' = attempt + 1 /\ faulted' = TRUE /\ UNCHANGED <<outcome, retval, cur>>
    ELSE Finish(k, "comm", 0)

Attempt(f) ==
    LET k == cur
        s == (pseq + 1) % M
        fresh == conn = 0
        c == IF fresh THEN nconn + 1 ELSE conn
        inbuf == IF fresh THEN <<>> ELSE buf \o late        \* late replies have arrived by now
        reply == [seq |-> s, tok |-> k] IN
    /\ cur \in Tokens /\ lastfault' = f
    /\ pseq' = s /\ nconn' = IF fresh THEN nconn + 1 ELSE nconn
    /\ IF k \in Oneway
       THEN \* request only; nothing is read.  A reset before delivery makes the send fail.
            /\ f \in {"none", "reset_before"}
            /\ IF f = "none"
               THEN /\ exec' = [exec EXCEPT ![k] = @ + 1] /\ conn' = c /\ buf' = inbuf /\ late' = <<>>
                    /\ Finish(k, "ret", 0) /\ UNCHANGED <<seen, polluted>>
               ELSE /\ UNCHANGED <<exec, seen>> /\ conn' = 0 /\ buf' = <<>> /\ late' = <<>> /\ polluted' = FALSE
                    /\ Finish(k, "comm", 0)
       ELSE
         CASE f = "reset_before" ->
                /\ UNCHANGED <<exec, seen>> /\ conn' = 0 /\ buf' = <<>> /\ late' = <<>> /\ polluted' = FALSE
                /\ Fail(k, TRUE)
           [] f \in {"lose", "cut", "reset_after"} ->
                /\ exec' = [exec EXCEPT ![k] = @ + 1] /\ seen' = seen \cup {reply}
                /\ IF f = "lose" /\ ~ReleaseOnError
                   THEN conn' = c /\ buf' = inbuf /\ late' = <<>> /\ UNCHANGED polluted
                   ELSE conn' = 0 /\ buf' = <<>> /\ late' = <<>> /\ polluted' = FALSE
                /\ Fail(k, TRUE)
           [] f = "delay" ->
                \* the reply arrives after the client gave up waiting
                /\ exec' = [exec EXCEPT ![k] = @ + 1] /\ seen' = seen \cup {reply}
                /\ IF ReleaseOnError THEN conn' = 0 /\ buf' = <<>> /\ late' = <<>> /\ polluted' = FALSE
                   ELSE conn' = c /\ buf' = inbuf /\ late' = <<reply>> /\ UNCHANGED polluted
                /\ Fail(k, TRUE)
           [] OTHER ->
                \* the server answers; what the client reads first depends on the fault
                LET real == IF f = "seqalter" THEN [seq |-> (s + 1) % M, tok |-> k] ELSE reply
                    stream == IF f = "stale" /\ seen # {}
                              THEN <<CHOOSE r \in seen : TRUE>> \o inbuf \o <<real>>
                              ELSE IF f = "dup" THEN inbuf \o <<real, real>> ELSE inbuf \o <<real>>
                    h == Head(stream) IN
                /\ exec' = [exec EXCEPT ![k] = @ + 1] /\ seen' = seen \cup {reply}
                /\ IF CheckSeq /\ h.seq # s
                   THEN /\ Drop /\ Fail(k, FALSE)                 \* ProtocolError: not retried
                   ELSE /\ conn' = c /\ buf' = Tail(stream) /\ late' = <<>>
                        /\ polluted' = (Tail(stream) # <<>>)
                        /\ Finish(k, "ret", h.tok)
Next == \E f \in Faults : Attempt(f)
Spec == Init /\ [][Next]_vars

\* ---- property C03 ----
ReturnOwn == \A k \in Tokens : outcome[k] = "ret" => retval[k] = (IF k \in Oneway THEN 0 ELSE k)
ExecBound == \A k \in Tokens : exec[k] <= 1 + Retries
ReturnedRanOnce == \A k \in Tokens : (outcome[k] = "ret" /\ Retries = 0) => exec[k] = 1
ReturnedRan == \A k \in Tokens : outcome[k] = "ret" => exec[k] >= 1
\* a call with no fault on a clean connection succeeds, having run exactly once
Recovery == [][(cur \in Tokens /\ lastfault' = "none" /\ ~polluted /\ buf \o late = <<>>) =>
                    (outcome'[cur] = "ret" /\ exec'[cur] = exec[cur] + 1)]_vars
=============================================================================
