--------------------------- MODULE Gen_Lifecycle ---------------------------
(* Scripts for the daemon life cycle: walks of the model with calls interleaved; CanCombine selects the server type. *)
EXTENDS Lifecycle, Sequences, TLC, Json
CONSTANTS MaxLen, CanCombine
VARIABLE h
Ev(a, d) == [a |-> a, d |-> d]
GInit == Init /\ h = <<>>
GNext == \/ /\ Len(h) < MaxLen
            /\ \/ \E d \in Daemons : \/ StartLoop(d) /\ h' = Append(h, Ev("start", d))
                                     \/ StopByCond(d) /\ h' = Append(h, Ev("stopcond", d))
                                     \/ Shutdown(d) /\ h' = Append(h, Ev("shutdown", d))
                                     \/ Close(d) /\ h' = Append(h, Ev("close", d))
                                     \/ UNCHANGED vars /\ h' = Append(h, Ev("call", d))
                                     \/ Hold(d) /\ h' = Append(h, Ev("hold", d))
                                     \/ Release(d) /\ h' = Append(h, Ev("release", d))
                                     \/ held[d] /\ UNCHANGED vars /\ h' = Append(h, Ev("heldcall", d))
                                     \/ HeldCallFails(d) /\ h' = Append(h, Ev("heldcall", d))
               \/ CanCombine /\ Combine /\ h' = Append(h, Ev("combine", "d2"))
         \/ Len(h) = MaxLen /\ PrintT("SCRIPT " \o ToJson(h)) /\ h' = Append(h, Ev("end", "d1")) /\ UNCHANGED vars
=============================================================================
