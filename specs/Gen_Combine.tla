---------------------------- MODULE Gen_Combine ----------------------------
(* Scripts for E13: up to two combinations (any order, any direction), then the request loop of one daemon is started. *)
EXTENDS Combine, Sequences, TLC, Json
VARIABLE h
GInit == Init /\ h = <<>>
GNext == \/ \E x, y \in Daemons : Combine(x, y) /\ h' = Append(h, [a |-> "combine", x |-> x, y |-> y])
         \/ \E r \in Daemons : /\ Start(r) /\ h' = Append(h, [a |-> "start", x |-> r, y |-> r])
                               /\ PrintT("SCRIPT " \o ToJson([steps |-> h', served |-> [d \in Daemons |-> d \in group[r]]]))
=============================================================================
