SPECIFICATION Spec
CONSTANTS Conns = {1, 2}
  Resources = {1, 2}
  Sample = {"connect_valid", "invoke_first", "connect_unknown_object", "invoke_ok", "invoke_track", "invoke_untrack", "unknown_serializer", "garbage"}
  MaxSteps = 8
INVARIANT NoExecBeforeReady
INVARIANT CleanOnce
INVARIANT ResourcesOnce
INVARIANT OpenUntouched
INVARIANT LoopAlive
INVARIANT Accounting
CHECK_DEADLOCK FALSE
