------------------------------ MODULE Trace_Wire ------------------------------
(***************************************************************************)
(* Trace validation for C06 (monitor).  One trace per case:                *)
(*   rec        structural view (Wire.tla) of the byte string offered to   *)
(*              the real recv_stub                                         *)
(*   accepted, consumed   what the decoder did and how many bytes it took  *)
(*   fields_ok  (encoded messages) every decoded field equals what was     *)
(*              encoded; reenc_ok: re-encoding what was accepted and       *)
(*              decoding again gives the same message                      *)
(*   sender     "built" | "refused" | "n/a": what SendingMessage did under *)
(*              the case's MAX_MESSAGE_SIZE                                *)
(***************************************************************************)
EXTENDS Naturals, Sequences, FiniteSets, TLC, Json, IOUtils
CONSTANTS PSizes, AnnShapes, Limits
VARIABLE m
W == INSTANCE Wire
Traces == JsonDeserialize(IOEnv.TRACE_FILE)
NT == Len(Traces)
VARIABLES t, l, bad
vars == <<t, l, bad, m>>
Tr == Traces[t]
Init == t \in 1..NT /\ l = 1 /\ bad = "" /\ m = 0
Check(x) ==
    LET r == x.rec
        wf == W!WellFormed(r) IN
    IF x.sender = "built" /\ ~W!WithinLimit(r) THEN "C06.SenderBuiltOversizeMessage"
    ELSE IF x.sender = "refused" /\ W!WithinLimit(r) THEN "C06.SenderRefusedMessageWithinLimit"
    ELSE IF x.encoded /\ x.sender = "built" /\ ~x.accepted THEN "C06.EncodedMessageNotDecodable"
    ELSE IF x.accepted /\ ~wf THEN
         (IF ~W!WithinLimit(r) THEN "C06.AcceptedOversize" ELSE IF ~W!Tiles(r) THEN "C06.AcceptedChunksNotTiling" ELSE "C06.AcceptedMalformed")
    ELSE IF ~x.accepted /\ wf THEN "C06.RejectedWellFormed"
    ELSE IF ~W!ConsumedOK(r, x.accepted, x.consumed) THEN
         (IF x.accepted THEN "C06.ConsumedNotExact" ELSE IF ~W!WithinLimit(r) THEN "C06.BodyReadBeforeSizeRefusal" ELSE "C06.ConsumedTooMuch")
    ELSE IF x.accepted /\ x.encoded /\ ~x.fields_ok THEN "C06.DecodedFieldsDiffer"
    ELSE IF x.accepted /\ ~x.reenc_ok THEN "C06.ReencodeNotEquivalent"
    ELSE ""
Step == l = 1 /\ l' = 2 /\ t' = t /\ bad' = Check(Tr) /\ UNCHANGED m
Spec == Init /\ [][Step]_vars
Verdict == (l = 2) => PrintT(<<"VERDICT", t, bad>>)
=============================================================================
