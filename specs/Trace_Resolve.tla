--------------------------- MODULE Trace_Resolve ---------------------------
(* Trace validation for name resolution (monitor).  One trace per case: the registrations, the query, what came back
   ("target" = a direct uri for that target, "NamingError", or something else) and whether a Proxy made from the same
   uri reached that target too. *)
EXTENDS Naturals, FiniteSets, Sequences, TLC, Json, IOUtils
CONSTANTS Names, Tags, Targets
VARIABLES regs, q
R == INSTANCE Resolve
Traces == JsonDeserialize(IOEnv.TRACE_FILE)
NT == Len(Traces)
VARIABLES t, l, bad
vars == <<t, l, bad, regs, q>>
X == Traces[t]
Range(s) == {s[i] : i \in 1..Len(s)}
RegSet(x) == {[ns |-> e.ns, name |-> e.name, target |-> e.target, tags |-> Range(e.tags), at |-> e.at] : e \in Range(x.regs)}
Query(x) == [kind |-> x.q.kind, target |-> x.q.target, name |-> x.q.name, tags |-> Range(x.q.tags), where |-> x.q.where, delay |-> x.q.delay]
Init == t \in 1..NT /\ l = 1 /\ bad = "" /\ regs = {} /\ q = [kind |-> "PYRO"]
Check(x) ==
    LET allowed == R!Allowed(RegSet(x), Query(x)) IN
    IF x.out = "hang" THEN "Resolve.Hang"
    ELSE IF allowed = {} THEN (IF x.out # "NamingError" THEN "Resolve.NothingRegisteredButNoNamingError"
                               ELSE IF x.proxy_out # "NamingError" THEN "Resolve.ProxyNothingRegisteredButNoNamingError" ELSE "")
    ELSE IF x.out = "NamingError" THEN "Resolve.RegisteredButNotFound"
    ELSE IF x.out # "target" THEN "Resolve.ResultIsNotADirectUri"
    ELSE IF x.target \notin allowed THEN "Resolve.WrongTarget"
    ELSE IF x.proxy_out = "NamingError" THEN "Resolve.ProxyRegisteredButNotFound"
    ELSE IF x.proxy_out # "target" \/ x.proxy_target \notin allowed THEN "Resolve.ProxyReachesSomethingElse"
    ELSE ""
Step == l = 1 /\ l' = 2 /\ t' = t /\ bad' = Check(X) /\ UNCHANGED <<regs, q>>
Spec == Init /\ [][Step]_vars
Verdict == (l = 2) => PrintT(<<"VERDICT", t, bad>>)
=============================================================================
