----------------------------- MODULE Gen_Hostile -----------------------------
(* Attack scripts for C05: two attackers and a well-behaved witness.  An attacker either starts with a hostile first
   message (pre = TRUE: the item replaces the CONNECT) or completes a valid handshake and then sends hostile items.
   Steps interleave attacker items, attacker disconnects and witness calls in every order up to MaxLen. *)
EXTENDS Naturals, Sequences, TLC, Json
CONSTANT MaxLen
Hostile == {"garbage", "bad_version", "bad_magic", "oversized", "datalen_short", "ann_overrun", "ann_badid", "ann_len_mismatch",
            "unknown_serializer", "unknown_msgtype", "undecodable_payload", "payload_wrong_shape",
            "trunc_prefix_close", "trunc_header_close", "trunc_ann_close", "trunc_payload_close",
            "unknown_object", "unknown_member", "private_member", "raises_plain", "raises_unserializable", "raises_str_raises",
            "raises_in_oneway", "raises_in_batch", "security_payload", "huge_batch_shape",
            \* every header field at a boundary value; a negative annotation chunk length; a message cut short followed by a
            \* reset instead of an orderly close; a reset on an idle connection; a message cut short followed by silence
            \* (meaningful with a communication timeout only)
            "hdr_boundary", "ann_negative", "trunc_reset", "reset_idle", "stall_partial",
            \* a streamed result is requested and then abandoned (the connection is dropped; stream lifetime and linger are
            \* configured in the configurations that have a communication timeout)
            "stream_abandon",
            \* a complete, valid message (the CONNECT, or a call) followed at once by a reset: the daemon still reads the message
            \* and only finds out when it answers
            "valid_then_reset",
            \* a well-formed call with the bytes of a second call behind it in the same payload; a payload in which the argument
            \* list, the keyword arguments or the whole payload (of a call, or of the connect message) is a serialized Proxy - an
            \* object that contacts its own daemon as soon as it is iterated, indexed or asked for an attribute
            "payload_trailing", "payload_proxy_shape"}
Steps == [a : {"attack"}, who : {1, 2}, item : Hostile, pre : BOOLEAN]
         \cup [a : {"wcall", "aclose1", "aclose2", "fresh"}, who : {0}, item : {""}, pre : {FALSE}]
VARIABLE h
Init == h = <<>>
Next == \/ Len(h) < MaxLen /\ \E s \in Steps : h' = Append(h, s)
        \/ Len(h) = MaxLen /\ PrintT("SCRIPT " \o ToJson(h)) /\ h' = Append(h, [a |-> "end", who |-> 0, item |-> "", pre |-> FALSE])
=============================================================================
