------------------------------ MODULE Gen_Serial ------------------------------
(* The abstract value space of Serial.tla (C01), printed completely. *)
EXTENDS Serial, TLC, Json
VARIABLE done
RECURSIVE ToJ(_), SetToSeqJ(_)
ToJ(x) == [k |-> x.k, c |-> SetToSeqJ({ToJ(y) : y \in x.c})]
SetToSeqJ(S) == IF S = {} THEN <<>> ELSE LET e == CHOOSE z \in S : TRUE IN <<e>> \o SetToSeqJ(S \ {e})
GInit == done = FALSE /\ v = Leaf("int") /\ s = "json"
GNext == ~done /\ done' = TRUE /\ UNCHANGED <<v, s>> /\ \A x \in Values : PrintT("SCRIPT " \o ToJson(ToJ(x)))
=============================================================================
