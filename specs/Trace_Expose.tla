---------------------------- MODULE Trace_Expose ----------------------------
(***************************************************************************)
(* Trace validation for C02 (monitor).  One trace per raw request:         *)
(*  m        the member shape (kind, where, mark, name, oneway)            *)
(*  rk, nv   request kind and how the requested name relates to the member *)
(*  ran      code of the target object other than the always-exposed       *)
(*           bystander method ran                                          *)
(*  bystanders  how often the bystander ran (batch: it is placed before    *)
(*           and after the requested name)                                 *)
(*  changed  the object's attributes or its class differ from before       *)
(*  reply    result | error | none | closed                                *)
(*  meta_method, meta_attr, meta_oneway, meta_extra                        *)
(*           what get_metadata said about the member's name; meta_extra:   *)
(*           it advertised a name that is neither the member nor the       *)
(*           bystander                                                     *)
(*  extra    an attribute request that carries more than the name (and the *)
(*           value): it may be refused even where the plain request is     *)
(*           served, but it must not reach anything else                   *)
(***************************************************************************)
EXTENDS Naturals, Sequences, TLC, Json, IOUtils
VARIABLES m, rk, nv
E == INSTANCE Expose
Traces == JsonDeserialize(IOEnv.TRACE_FILE)
NT == Len(Traces)
VARIABLES t, l, bad
vars == <<t, l, bad, m, rk, nv>>
X == Traces[t]
Init == t \in 1..NT /\ l = 1 /\ bad = "" /\ m = [kind |-> "", where |-> "", mark |-> "", name |-> "", oneway |-> FALSE] /\ rk = "" /\ nv = ""
Check(x) ==
    LET served == E!Served(x.m, x.rk, x.nv)
        silent == x.rk \in {"oneway", "batch_oneway"}
        rkk == IF x.rk = "batch_oneway" THEN "batch" ELSE x.rk
        srv == E!Served(x.m, rkk, x.nv) IN
    IF x.ran /\ ~srv THEN "C02.UnservedCodeRan"
    ELSE IF ~srv /\ x.changed THEN "C02.RefusedRequestChangedObject"
    ELSE IF srv /\ ~x.ran /\ ~x.extra THEN "C02.ExposedMemberRefused"
    ELSE IF srv /\ ~x.ran /\ x.reply = "result" THEN "C02.ServedWithoutRunning"
    ELSE IF silent /\ x.reply # "none" THEN "C02.OnewayGotReply"
    ELSE IF ~silent /\ srv /\ x.ran /\ x.reply # "result" THEN "C02.ServedWithoutResult"
    ELSE IF ~silent /\ srv /\ ~x.ran /\ x.reply # "error" THEN "C02.RefusalNotReported"
    ELSE IF ~silent /\ ~srv /\ x.reply # "error" THEN "C02.RefusalNotReported"
    ELSE IF rkk = "batch" /\ x.bystanders # (IF srv THEN 2 ELSE 1) THEN "C02.BatchContinuedPastRefusal"
    ELSE IF x.meta_method # E!AdvertisedAsMethod(x.m) THEN "C02.AdvertisedMethodsNotServedSet"
    ELSE IF x.meta_attr # E!AdvertisedAsAttr(x.m) THEN "C02.AdvertisedAttrsNotServedSet"
    ELSE IF x.meta_oneway # (E!AdvertisedAsMethod(x.m) /\ x.m.oneway) THEN "C02.AdvertisedOnewayWrong"
    ELSE IF x.meta_extra THEN "C02.AdvertisedUnknownName"
    ELSE ""
Step == l = 1 /\ l' = 2 /\ t' = t /\ bad' = Check(X) /\ UNCHANGED <<m, rk, nv>>
Spec == Init /\ [][Step]_vars
Verdict == (l = 2) => PrintT(<<"VERDICT", t, bad>>)
=============================================================================
