------------------------------- MODULE Gen_Wire -------------------------------
(* Cases for C06.  Three families, each enumerated completely:
   "msg"    payload class x annotation shape x correlation id x compression setting x MAX_MESSAGE_SIZE class
   "hdr"    message type x flags x sequence number x serializer id (boundary values of every 8/16-bit field)
   "mut"    base message x mutation of the encoded bytes                                                         *)
EXTENDS Naturals, Sequences, TLC, Json
PClasses == {"empty", "one", "t99", "t100", "t101", "t102", "big_text", "big_noise"}
AnnShapes == {"none", "one_empty", "one", "two", "three_mixed", "memoryview", "bytearray"}
Limits == {"huge", "exact", "minus1"}
Types == {0, 1, 2, 3, 4, 5, 6, 255}
FlagSets == {0, 1, 2, 4, 24, 32, 64, 65408, 65535}
Seqs == {0, 1, 255, 256, 65535}
Sers == {0, 1, 4, 42, 255}
Mutations == {"tag", "version", "magic", "reserved", "type", "flag_set_compressed", "flag_clear_compressed", "flag_toggle_corr",
              "seq", "ser", "decl_d_plus", "decl_d_minus", "decl_a_plus_comp", "decl_a_minus_comp", "decl_a_zero", "decl_a_plus",
              "chunk_len_plus", "chunk_len_minus", "chunk_len_huge", "chunk_len_into_payload", "chunk_id_nonascii", "chunk_id_dup",
              "truncate_header", "truncate_ann", "truncate_payload", "trailing_bytes", "over_limit", "empty", "short6", "random"}
Bases == {"plain", "ann2", "ann3_empty", "compressed", "corr", "big"}
Cases == [fam : {"msg"}, p : PClasses, a : AnnShapes, corr : BOOLEAN, comp : BOOLEAN, lim : Limits]
    \cup [fam : {"hdr"}, t : Types, f : FlagSets, s : Seqs, ser : Sers]
    \cup [fam : {"mut"}, base : Bases, mu : Mutations, k : {1, 3, 9}]
VARIABLE done
Init == done = FALSE
Next == ~done /\ done' = TRUE /\ \A c \in Cases : PrintT("SCRIPT " \o ToJson(c))
=============================================================================
