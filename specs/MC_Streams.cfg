SPECIFICATION Spec
CONSTANTS StreamIds = {1, 2}
  Conns = {1, 2}
  Lifetime = 3
  Linger = 2
  MaxTime = 5
  MaxLen = 2
INVARIANT Prefix
PROPERTY ForgottenStaysGone
PROPERTY NoExpiredAfterHousekeeping
CHECK_DEADLOCK FALSE
