----------------------------- MODULE ProxyState -----------------------------
(***************************************************************************)
(* What a proxy carries with it (extra module E11).                         *)
(*                                                                          *)
(* A proxy has things that say *what it talks to* - the uri, the member     *)
(* lists it has learnt (methods, attributes, oneway), the handshake data    *)
(* and the serializer chosen for it - and things that belong to *this*      *)
(* proxy object in *this* process: the timeout, the retry limit, the        *)
(* wire-level switch, the connection and the owning thread.                 *)
(*   copy    (copy.copy) gives a second proxy of the same class with all    *)
(*           the settings, not connected, owned by whoever made the copy    *)
(*   travel  (as argument or result of a remote call, under any serializer, *)
(*           at the top or nested in a container) gives, at the other side, *)
(*           a plain Proxy with what it talks to; timeout and retry limit   *)
(*           are the receiver's configured defaults, the wire-level switch  *)
(*           is off, it is not connected and belongs to the receiving       *)
(*           thread.  A proxy of a subclass the receiver does not know is   *)
(*           refused by the receiver; so is one that the serializer cannot  *)
(*           write where it sits.                                           *)
(* In both cases the original is left as it was (its connection included).  *)
(***************************************************************************)
EXTENDS Naturals
Carried == {"uri", "methods", "attrs", "oneway", "handshake", "serializer"}
Local == {"timeout", "retries", "rawwire"}
Routes == {"copy", "arg", "result", "nested_arg", "nested_result"}
Classes == {"plain", "subclass"}
\* the abstract value of a setting: "own" = what was set on the original, "default" = the receiving process's configured default,
\* "off" = switched off
After(route, setting) ==
    IF setting \in Carried THEN "own"
    ELSE IF route = "copy" THEN "own"
    ELSE IF setting = "rawwire" THEN "off" ELSE "default"
\* (the marshal serializer converts objects it cannot write natively only at the top of an argument or result and in the items of a
\* list there, not deeper)
Arrives(route, class, ser) == route = "copy" \/ (class = "plain" /\ ~(ser = "marshal" /\ route \in {"nested_arg", "nested_result"}))
ClassAfter(route, class) == IF route = "copy" THEN class ELSE "plain"

VARIABLES route, class, connected
Init == route \in Routes /\ class \in Classes /\ connected \in BOOLEAN
Next == UNCHANGED <<route, class, connected>>
Spec == Init /\ [][Next]_<<route, class, connected>>
\* what a proxy talks to survives every route; a second trip changes nothing more
KeepsTarget == \A s \in Carried : After(route, s) = "own"
\* nothing of this process's own arrangements travels to another process
TravelForgetsLocal == route # "copy" => \A s \in Local : After(route, s) # "own"
CopyKeepsAll == route = "copy" => \A s \in Carried \cup Local : After(route, s) = "own"
=============================================================================
