SPECIFICATION Spec
CONSTANTS Size = 2
  Min = 1
  Jobs = {1, 2, 3}
  Workers = {1, 2, 3, 4}
INVARIANT WorkerBound
INVARIANT OneWorkerEach
INVARIANT RefusedNeverRuns
PROPERTY NoSubmitAfterClose
PROPERTY Served
PROPERTY WorkersLeave
CHECK_DEADLOCK FALSE
