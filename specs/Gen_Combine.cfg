INIT GInit
NEXT GNext
CONSTANT Daemons = {"a", "b", "c"}
CHECK_DEADLOCK FALSE
