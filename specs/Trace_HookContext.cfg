SPECIFICATION Spec
CONSTRAINT Verdict
CHECK_DEADLOCK FALSE
