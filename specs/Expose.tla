------------------------------- MODULE Expose -------------------------------
(***************************************************************************)
(* Which members of a registered object a peer can reach (C02).            *)
(*                                                                         *)
(* A member: kind (what sits in the class / instance under that name),     *)
(* where it is defined relative to the registered class, how it was marked *)
(* with expose, what its name looks like, and whether it is oneway.        *)
(* A request: kind (call, oneway call, batch member, attribute read,       *)
(* attribute write) and how the requested name relates to the member.      *)
(* Served says when code of the member may run; everything else must be    *)
(* refused without effect.  Advertised is the member list the daemon must  *)
(* report: exactly what it serves.                                         *)
(***************************************************************************)
EXTENDS Naturals, FiniteSets
\* lazyattr: an attribute of the class whose value is computed by code of the class the first time it is read (a cached property,
\* or any other descriptor that has a getter only) - neither a method nor a property
MemberKinds == {"imethod", "smethod", "cmethod", "prop_ro", "prop_rw", "prop_wo", "classattr", "instattr",
                "helper_plain", "helper_exposed", "helper_exposed_callable", "nested_exposed_class", "lazyattr"}
\* own / inherited: defined by the registered class itself / by its base class; over_exposed / over_plain: defined by the registered
\* class, where the base class has an exposed method / an unexposed method of the same name (what the name denotes is what the most
\* derived class says)
Wheres == {"own", "inherited", "over_exposed", "over_plain"}
\* member: @expose on the member; class_definer: @expose on the class that defines it; class_other: @expose only on another
\* class of the hierarchy; forced: the exposure mark was put on by hand although the decorator refuses the name
Marks == {"none", "member", "class_definer", "class_other", "forced"}
NameClasses == {"public", "private", "mangled", "dunder_custom", "dunder_reserved"}
ReqKinds == {"call", "oneway", "batch", "getattr", "setattr"}
NameVariants == {"exact", "underscore", "dunder_of", "reserved", "dotted", "lookalike", "nonstring"}

Methods == {"imethod", "smethod", "cmethod"}
Readable == {"prop_ro", "prop_rw"}
Writable == {"prop_rw", "prop_wo"}
PrivateName(nc) == nc \in {"private", "mangled", "dunder_reserved"}
\* the decorator itself refuses private names, and a class-level mark skips them
Marked(m) == m.mark \in {"member", "class_definer", "forced"}
KindFits(m, rk) == \/ m.kind \in Methods /\ rk \in {"call", "oneway", "batch"}
                   \/ m.kind \in Readable /\ rk = "getattr"
                   \/ m.kind \in Writable /\ rk = "setattr"
Served(m, rk, nv) == nv = "exact" /\ Marked(m) /\ ~PrivateName(m.name) /\ KindFits(m, rk)
\* what the daemon advertises for the member's name
AdvertisedAsMethod(m) == Marked(m) /\ ~PrivateName(m.name) /\ m.kind \in Methods
AdvertisedAsAttr(m) == Marked(m) /\ ~PrivateName(m.name) /\ m.kind \in Readable \cup Writable

Members == [kind : MemberKinds, where : Wheres, mark : Marks, name : NameClasses, oneway : BOOLEAN]
VARIABLES m, rk, nv
Init == m \in Members /\ rk \in ReqKinds /\ nv \in NameVariants
Next == UNCHANGED <<m, rk, nv>>
Spec == Init /\ [][Next]_<<m, rk, nv>>
\* code of the target runs only for explicitly exposed, non-private members of the right kind
OnlyExposed == Served(m, rk, nv) => m.mark # "none" /\ m.mark # "class_other" /\ m.name \in {"public", "dunder_custom"}
\* the advertised list is exactly the served set: a name is advertised iff some request kind on it is served
AdvertisedIsServed == (AdvertisedAsMethod(m) \/ AdvertisedAsAttr(m)) <=> \E k \in ReqKinds : Served(m, k, "exact")
=============================================================================
