SPECIFICATION TSpec
CONSTANTS Threads = {"A", "B"}
  MaxProxies = 3
  MaxConns = 1000
CONSTRAINT Verdict
CHECK_DEADLOCK FALSE
