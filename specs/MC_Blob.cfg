SPECIFICATION Spec
INVARIANT Transparent
CHECK_DEADLOCK FALSE
