------------------------------- MODULE Serial -------------------------------
(***************************************************************************)
(* What a value becomes when it crosses the wire (C01), per serializer.    *)
(*                                                                         *)
(* Abstract values: a kind and, for containers, the set of the children's  *)
(* shapes.  Leaf kinds:                                                    *)
(*   none bool int bigint float inf nan str bytes bytearray complex uuid   *)
(*   decimal date datetime b64dict (what serpent makes of bytes) err       *)
(* Containers: list tuple set frozenset dictstr dictint, and the empty     *)
(* variants eset / efrozenset (serpent writes an empty set as ()).         *)
(* Map(s, v) is the serializer's fixed type mapping - the same for call    *)
(* arguments and for results; "err" = the serializer refuses the value.    *)
(***************************************************************************)
EXTENDS Naturals, FiniteSets, Sequences

\* serpentb: the serpent serializer with the configuration item SERPENT_BYTES_REPR switched on (bytes are written as literals)
Sers == {"serpent", "serpentb", "json", "marshal", "msgpack"}
Serp(s) == s \in {"serpent", "serpentb"}
Leaves == {"none", "bool", "int", "bigint", "float", "inf", "nan", "str", "bytes", "bytearray", "complex", "uuid",
           "decimal", "date", "datetime"}
CoreLeaves == {"none", "bool", "int", "bigint", "float", "inf", "nan", "str"}
Containers == {"list", "tuple", "set", "frozenset", "dictstr", "dictint"}
CoreContainers == {"list", "dictstr"}
Err == [k |-> "err", c |-> {}]
Leaf(k) == [k |-> k, c |-> {}]

\* top: the value is a call argument / the result itself, or an item of a list in that position (marshal converts objects it
\* cannot write natively only there)
LeafMap(s, k, top) ==
    CASE k \in CoreLeaves -> k
      [] k \in {"b64dict", "err"} -> k
      [] s = "serpent" -> (CASE k \in {"bytes", "bytearray"} -> "b64dict" [] k = "complex" -> "complex" [] OTHER -> "str")
      [] s = "serpentb" -> (CASE k \in {"bytes", "bytearray"} -> "bytes" [] k = "complex" -> "complex" [] OTHER -> "str")
      [] s = "json"    -> (CASE k \in {"bytes", "bytearray", "complex"} -> "err" [] OTHER -> "str")
      [] s = "marshal" -> (CASE k \in {"bytes", "bytearray"} -> (IF k = "bytearray" /\ ~top THEN "bytes" ELSE "bytes")
                             [] k = "complex" -> "complex" [] k = "uuid" -> (IF top THEN "str" ELSE "err") [] OTHER -> "err")
      [] s = "msgpack" -> (CASE k \in {"bytes", "bytearray"} -> "bytes" [] k \in {"complex", "date", "datetime"} -> k [] OTHER -> "str")
ContMap(s, k, empty) ==
    CASE Serp(s) -> (CASE k \in {"set", "frozenset"} -> (IF empty THEN "tuple" ELSE "set") [] OTHER -> k)
      [] s = "json"    -> (CASE k \in {"tuple", "set"} -> "list" [] k = "frozenset" -> "err" [] k = "dictint" -> "dictstr" [] OTHER -> k)
      [] s = "marshal" -> k
      [] s = "msgpack" -> (CASE k \in {"tuple", "set"} -> "list" [] k \in {"frozenset", "dictint"} -> "err" [] OTHER -> k)
\* serpent writes sets as literals: their members must be primitive hashable values
\* (with bytes written as literals a bytes value is such a member too; a bytearray cannot be in a set in the first place)
RECURSIVE SerpentHashable(_, _)
SerpentHashable(s, y) == /\ y.k \notin {"bytearray", "nan", "list", "set", "frozenset", "dictstr", "dictint"}
                         /\ (y.k = "bytes" => s = "serpentb")
                         /\ (y.k = "tuple" => \A z \in y.c : SerpentHashable(s, z))
SerpentSetMember(s, x) == \/ x.k \in {"bool", "int", "bigint", "float", "inf", "str", "complex", "decimal"}
                          \/ x.k = "bytes" /\ s = "serpentb"
                          \/ x.k = "tuple" /\ \A y \in x.c : SerpentHashable(s, y)

\* lvl 0 is the argument / result itself; marshal converts it, and the items of a list at that level, and nothing deeper
RECURSIVE MapAt(_, _, _, _)
MapAt(s, v, conv, lvl) ==
    IF v.k \notin Containers THEN Leaf(LeafMap(s, v.k, conv))
    ELSE LET kids == {MapAt(s, x, conv /\ lvl = 0 /\ v.k = "list", lvl + 1) : x \in v.c}
             k2 == ContMap(s, v.k, v.c = {}) IN
         IF k2 = "err" \/ Err \in kids THEN Err
         ELSE IF Serp(s) /\ v.k \in {"set", "frozenset"} /\ \E x \in v.c : ~SerpentSetMember(s, x) THEN Err
         ELSE [k |-> k2, c |-> kids]
Map(s, v) == MapAt(s, v, TRUE, 0)

RECURSIVE Core(_)
Core(v) == (v.k \in CoreLeaves /\ v.c = {}) \/ (v.k \in CoreContainers /\ \A x \in v.c : Core(x))

-----------------------------------------------------------------------------
CONSTANT Depth
Values0 == {Leaf(k) : k \in Leaves}
Kids(S) == {{}} \cup {{x} : x \in S} \cup {{x, y} : x \in {Leaf("int"), Leaf("str"), Leaf("bytes")}, y \in S}
Values1 == Values0 \cup {[k |-> kk, c |-> cc] : kk \in Containers, cc \in Kids(Values0)}
Values2 == Values1 \cup {[k |-> kk, c |-> {x}] : kk \in Containers, x \in Values1}
Values == IF Depth = 1 THEN Values1 ELSE Values2
VARIABLES v, s
Init == v \in Values /\ s \in Sers
Next == UNCHANGED <<v, s>>
Spec == Init /\ [][Next]_<<v, s>>
\* the mapping changes nothing when applied twice
Idempotent == Map(s, v) # Err => Map(s, Map(s, v)) = Map(s, v)
\* on the lossless core every serializer delivers exactly the value that was sent
CoreLossless == Core(v) => Map(s, v) = v
\* the mappings the statement names
NamedMappings == /\ (s \in {"json", "msgpack"} /\ v.k \in {"tuple", "set"} /\ Map(s, v) # Err) => Map(s, v).k = "list"
                 /\ (s = "serpent" /\ v.k = "bytes") => Map(s, v).k = "b64dict"
=============================================================================
