------------------------------- MODULE SockIO -------------------------------
(***************************************************************************)
(* Pyro5.socketutil.receive_data / send_data against a scripted socket.    *)
(*                                                                         *)
(* The byte stream is abstracted to units 0,1,2,...: the peer's stream is  *)
(* the sequence <<0,1,2,...>> and a read of N units must return exactly    *)
(* <<0,...,N-1>>.  The socket answers every recv/send call with one        *)
(* behaviour chosen by the environment: deliver k units, report end of     *)
(* stream, raise a retryable errno, raise a fatal errno, or time out.      *)
(*                                                                         *)
(* Reader: the algorithm of receive_data (optional MSG_WAITALL attempt,    *)
(* then the chunked loop, chunk limit Chunk) as an implementation-shaped   *)
(* model.  Writer: sendall in blocking mode, send loop otherwise.          *)
(* Invariants = property C17.                                              *)
(***************************************************************************)
EXTENDS Integers, Sequences, FiniteSets

CONSTANTS N,          \* requested size in units (reader) / buffer size (writer)
          WaitAll,    \* socket supports MSG_WAITALL
          Chunk,      \* chunk limit of the plain loop, in units (60000 bytes in the code)
          MaxCalls,   \* bound on socket calls explored
          Blocking    \* writer: socket has no timeout (sendall is used)

Retryable == {"eintr", "eagain", "ewouldblock"}
Fatal     == {"reset", "pipe"}
Behaviour == [k : {"deliver"}, n : 1..N] \cup [k : Retryable \cup Fatal \cup {"eof", "timeout"}, n : {0}]

Min(a, b) == IF a < b THEN a ELSE b
Units(a, b) == [i \in 1..(b - a) |-> a + i - 1]          \* <<a, ..., b-1>>

VARIABLES pc,        \* reader: "waitall" | "loop" | "done"
          got,       \* units received so far
          calls,     \* number of socket calls
          asked,     \* size of the last request made to the socket
          room,      \* what was still missing when that request was made
          outcome,   \* "none" | "return" | "closed" | "timeout"
          partial,   \* partialData carried by a ConnectionClosedError, or <<-1>> when absent
          sticky     \* "" or the terminal condition of the socket (eof / fatal are permanent)
vars == <<pc, got, calls, asked, room, outcome, partial, sticky>>

Init == /\ pc = IF WaitAll THEN "waitall" ELSE "loop"
        /\ got = <<>> /\ calls = 0 /\ asked = 0 /\ room = N
        /\ outcome = "none" /\ partial = <<-1>> /\ sticky = ""

\* what the socket answers: once end of stream or a fatal error was reported it is reported for ever
Answer(b) == IF sticky # "" THEN [k |-> sticky, n |-> 0] ELSE b

RecvWaitAll(b0) ==
    LET b == Answer(b0) IN
    /\ pc = "waitall" /\ outcome = "none" /\ calls < MaxCalls
    /\ calls' = calls + 1 /\ asked' = N /\ room' = N - Len(got)
    /\ sticky' = IF b.k \in Fatal \cup {"eof"} THEN b.k ELSE sticky
    /\ CASE b.k = "deliver" ->
              LET k == Min(b.n, N) IN
              IF k = N THEN /\ got' = Units(0, N) /\ outcome' = "return" /\ pc' = "done" /\ UNCHANGED partial
                       ELSE /\ got' = Units(0, k) /\ pc' = "loop" /\ UNCHANGED <<outcome, partial>>
         [] b.k = "eof" -> /\ pc' = "loop" /\ UNCHANGED <<got, outcome, partial>>     \* short (empty) read: fall into the loop
         [] b.k = "timeout" -> /\ outcome' = "timeout" /\ pc' = "done" /\ UNCHANGED <<got, partial>>
         [] b.k \in Fatal -> /\ outcome' = "closed" /\ partial' = got /\ pc' = "done" /\ UNCHANGED got
         [] b.k \in Retryable -> UNCHANGED <<pc, got, outcome, partial>>

RecvLoop(b0) ==
    LET b == Answer(b0)
        want == Min(Chunk, N - Len(got)) IN
    /\ pc = "loop" /\ outcome = "none" /\ calls < MaxCalls
    /\ calls' = calls + 1 /\ asked' = want /\ room' = N - Len(got)
    /\ sticky' = IF b.k \in Fatal \cup {"eof"} THEN b.k ELSE sticky
    /\ CASE b.k = "deliver" ->
              LET k == Min(b.n, want)
                  g == got \o Units(Len(got), Len(got) + k) IN
              /\ got' = g
              /\ IF Len(g) = N THEN outcome' = "return" /\ pc' = "done" ELSE UNCHANGED <<outcome, pc>>
              /\ UNCHANGED partial
         [] b.k = "eof" -> /\ outcome' = "closed" /\ partial' = got /\ pc' = "done" /\ UNCHANGED got
         [] b.k = "timeout" -> /\ outcome' = "timeout" /\ pc' = "done" /\ UNCHANGED <<got, partial>>
         [] b.k \in Fatal -> /\ outcome' = "closed" /\ partial' = got /\ pc' = "done" /\ UNCHANGED got
         [] b.k \in Retryable -> UNCHANGED <<pc, got, outcome, partial>>

ReaderNext == \E b \in Behaviour : RecvWaitAll(b) \/ RecvLoop(b)

\* ---- property C17, reader half ----
ReturnExact   == outcome = "return" => got = Units(0, N)
NeverOverAsk  == asked <= room
NeverSurplus  == Len(got) <= N /\ got = Units(0, Len(got))
PartialIsData == outcome = "closed" /\ partial # <<-1>> => partial = got
ErrorHasCause == /\ outcome = "closed" => sticky \in Fatal \cup {"eof"}
                 /\ outcome = "timeout" => sticky = ""
EofCarriesData == outcome = "closed" => partial = got        \* (early close or fatal error alike)

-----------------------------------------------------------------------------
(* Writer.  Blocking sockets use sendall (all or error); otherwise the send loop: the socket accepts k units of
   what is offered, and the loop continues with the rest. *)
VARIABLES wpc, peer, woutcome, wcalls
wvars == <<wpc, peer, woutcome, wcalls>>
WBehaviour == [k : {"accept"}, n : 1..N] \cup [k : Retryable \cup Fatal \cup {"timeout"}, n : {0}]

WInit == wpc = "send" /\ peer = <<>> /\ woutcome = "none" /\ wcalls = 0

Send(b) ==
    /\ wpc = "send" /\ woutcome = "none" /\ wcalls < MaxCalls /\ wcalls' = wcalls + 1
    /\ IF Blocking
       THEN CASE b.k = "accept" -> peer' = Units(0, N) /\ woutcome' = "return" /\ wpc' = "done"
              [] b.k = "timeout" -> woutcome' = "timeout" /\ wpc' = "done" /\ UNCHANGED peer
              [] OTHER -> woutcome' = "closed" /\ wpc' = "done" /\ UNCHANGED peer     \* any socket.error from sendall
       ELSE CASE b.k = "accept" ->
                   LET k == Min(b.n, N - Len(peer))
                       p == peer \o Units(Len(peer), Len(peer) + k) IN
                   /\ peer' = p
                   /\ IF Len(p) = N THEN woutcome' = "return" /\ wpc' = "done" ELSE UNCHANGED <<woutcome, wpc>>
              [] b.k = "timeout" -> woutcome' = "timeout" /\ wpc' = "done" /\ UNCHANGED peer
              [] b.k \in Fatal -> woutcome' = "closed" /\ wpc' = "done" /\ UNCHANGED peer
              [] b.k \in Retryable -> UNCHANGED <<peer, woutcome, wpc>>
WriterNext == \E b \in WBehaviour : Send(b)

\* reader and writer are independent; one specification runs both
Next == (ReaderNext /\ UNCHANGED wvars) \/ (WriterNext /\ UNCHANGED vars)
Spec == Init /\ WInit /\ [][Next]_<<vars, wvars>>

\* ---- property C17, writer half ----
PeerIsPrefix   == peer = Units(0, Len(peer)) /\ Len(peer) <= N        \* every byte at most once, in order
ReturnComplete == woutcome = "return" => peer = Units(0, N)
=============================================================================
