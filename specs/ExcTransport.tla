---------------------------- MODULE ExcTransport ----------------------------
(***************************************************************************)
(* How an exception raised by a remote method reaches the caller (C07).    *)
(* The raising side turns the exception into a class-tagged dict (class    *)
(* name, args, custom attributes, remote traceback), the serializer        *)
(* carries it (Serial!Map on the contents), the caller's side rebuilds it  *)
(* from the closed class set (ClassTag!Decide) and raises it.              *)
(*   known        the class exists on both sides (builtin or Pyro5 error)  *)
(*   carriable    class, args and attributes survive the serializer        *)
(* Expect gives what the caller must observe.                              *)
(***************************************************************************)
EXTENDS Naturals, FiniteSets
ClassKinds == {"builtin", "pyro", "unknown_to_receiver"}
CallKinds == {"call", "getattr", "batch", "stream"}
Expect(kind, carriable) ==
    IF kind \in {"builtin", "pyro"} /\ carriable
    THEN [what |-> "same", cls |-> TRUE, args |-> TRUE, attrs |-> TRUE, traceback |-> TRUE, usable |-> TRUE]
    ELSE [what |-> "pyro_error_describing_original", cls |-> FALSE, args |-> FALSE, attrs |-> FALSE, traceback |-> FALSE, usable |-> TRUE]
VARIABLES kind, carriable, ck
Init == kind \in ClassKinds /\ carriable \in BOOLEAN /\ ck \in CallKinds
Next == UNCHANGED <<kind, carriable, ck>>
Spec == Init /\ [][Next]_<<kind, carriable, ck>>
\* whatever happens the caller gets an exception and keeps a usable proxy: never a silent value, never a hang
AlwaysAnswered == Expect(kind, carriable).usable /\ Expect(kind, carriable).what \in {"same", "pyro_error_describing_original"}
=============================================================================
