SPECIFICATION Spec
CONSTANT Conns = {1, 2, 3}
PROPERTY ValidatorSeesItsOwnMessage
CHECK_DEADLOCK FALSE
