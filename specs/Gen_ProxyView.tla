--------------------------- MODULE Gen_ProxyView ---------------------------
(* every case of the proxy view with what the model expects *)
EXTENDS ProxyView, Sequences, TLC, Json
VARIABLE done
GInit == done = FALSE /\ k = "method" /\ op = "get" /\ s = "fresh"
GNext == /\ ~done /\ done' = TRUE /\ UNCHANGED <<k, op, s>>
         /\ \A kk \in NameKinds, oo \in Ops, ss \in States :
               PrintT("SCRIPT " \o ToJson([k |-> kk, op |-> oo, s |-> ss]))
=============================================================================
