-------------------------- MODULE Trace_ProxyView --------------------------
(* Trace validation for the proxy view (monitor): one record per case with the observed outcome, the number of requests that
   reached the target object, and whether the proxy is connected afterwards. *)
EXTENDS Naturals, Sequences, TLC, Json, IOUtils
VARIABLES k, op, s
V == INSTANCE ProxyView
Traces == JsonDeserialize(IOEnv.TRACE_FILE)
NT == Len(Traces)
VARIABLES t, l, bad
vars == <<t, l, bad, k, op, s>>
X == Traces[t]
Init == t \in 1..NT /\ l = 1 /\ bad = "" /\ k = "method" /\ op = "get" /\ s = "fresh"
Check(x) ==
    IF x.out # V!Outcome(x.k, x.op, x.s) THEN
         (IF V!Outcome(x.k, x.op, x.s) \in {"AttributeError", "no"} THEN "ProxyView.UnexposedNameNotRefused"
          ELSE IF x.out \in {"AttributeError", "no"} THEN "ProxyView.ExposedNameRefused" ELSE "ProxyView.WrongOutcome")
    ELSE IF x.requests # V!Requests(x.k, x.op, x.s) THEN
         (IF x.requests > V!Requests(x.k, x.op, x.s) THEN "ProxyView.RequestSentThoughNotNeeded" ELSE "ProxyView.NothingSent")
    ELSE IF x.connected # V!ConnectedAfter(x.k, x.op, x.s) THEN
         (IF x.connected THEN "ProxyView.ConnectedWithoutNeed" ELSE "ProxyView.NotConnected")
    ELSE IF x.op = "set" /\ x.out = "ok" /\ x.k = "attr_rw" /\ ~x.written THEN "ProxyView.WriteDidNotArrive"
    ELSE ""
Step == l = 1 /\ l' = 2 /\ t' = t /\ bad' = Check(X) /\ UNCHANGED <<k, op, s>>
Spec == Init /\ [][Step]_vars
Verdict == (l = 2) => PrintT(<<"VERDICT", t, bad>>)
=============================================================================
