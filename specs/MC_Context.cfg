SPECIFICATION Spec
CONSTANTS Clients = {1, 2}
  Threads = {1, 2}
  MaxReq = 4
  ClearAtStart = TRUE
INVARIANT AnnOwn
INVARIANT CtxOwn
CHECK_DEADLOCK FALSE
