SPECIFICATION Spec
INVARIANT KeepsTarget
INVARIANT TravelForgetsLocal
INVARIANT CopyKeepsAll
CHECK_DEADLOCK FALSE
