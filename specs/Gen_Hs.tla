------------------------------- MODULE Gen_Hs -------------------------------
(* Scenarios for C08: what a peer sends first, how the handshake validator behaves, and what the peer has already
   pipelined behind its first message.  The specification also states, per scenario, whether the handshake is to be
   accepted and whether a connect-failure carrying the reason is required (rather than merely allowed). *)
EXTENDS Naturals, Sequences, TLC, Json
CONSTANT MaxPipe
Firsts == {"connect_valid", "connect_unknown_object", "connect_bad_payload", "connect_unknown_serializer",
           "type_invoke", "type_result", "type_ping", "type_connectok", "type_connectfail", "type_zero", "type_unknown",
           "garbage", "bad_version", "bad_magic", "oversized", "truncated", "empty",
           \* something that is not this protocol at all and shorter than a header (an HTTP request line, another version's tag);
           \* the peer stays connected and waits for an answer
           "short_foreign",
           \* the header of a message of another type that announces a body which does not follow (in full); the peer closes
           \* its sending side and waits for the answer
           "type_partial",
           \* part of a connect message, then silence with the connection left open (generated for a daemon with a communication
           \* timeout only: it is that timeout which ends the wait)
           "stalled_partial"}
\* return:lock - the validator accepts but hands back something no serializer can encode: the handshake cannot be completed
\* return:huge - the validator accepts with an answer that does not fit into a message of the size the daemon may send
Validators == {"accept", "return:None", "return:False", "return:0", "return:list", "return:lock", "return:huge", "raise:ValueError", "raise:KeyError",
               "raise:SecurityError", "raise:ConnectionClosedError", "raise:PyroError", "raise:TimeoutError",
               \* the validator's reason contains text that is not valid unicode (a file name): the refusal must still be said
               "raise:OddTextError",
               \* the validator refuses with an exception that has no message: there is no reason text to demand, but it is a refusal
               "raise:EmptyPermissionError", "raise:EmptySecurityError"}
NoMessage == {"raise:EmptyPermissionError", "raise:EmptySecurityError"}
PipeItems == {"invoke_target", "invoke_daemon", "oneway_target", "batch_target", "getattr_target"}
Returns(v) == v = "accept" \/ SubSeq(v, 1, 7) = "return:"
DefinedTypes == {"type_invoke", "type_result", "type_ping", "type_connectok", "type_connectfail"}
Accept(f, v) == f = "connect_valid" /\ Returns(v) /\ v \notin {"return:lock", "return:huge"}
\* the validator is consulted for a decodable CONNECT payload only
MustReason(f, v) == \/ f \in DefinedTypes \cup {"type_partial", "stalled_partial"}
                    \/ f = "connect_unknown_serializer"       \* (the refusal cannot be written in the peer's serializer; any other will do)
                    \/ f \in {"connect_valid", "connect_unknown_object"} /\ ~Returns(v) /\ v \notin NoMessage      \* (whatever the validator raises, also one of Pyro's own connection errors)
                    \/ f = "connect_unknown_object" /\ Returns(v)
VARIABLES first, val, pipe, done
Init == first \in Firsts /\ val \in Validators /\ pipe = <<>> /\ done = FALSE
Next == \/ ~done /\ Len(pipe) < MaxPipe /\ \E i \in PipeItems : pipe' = Append(pipe, i) /\ UNCHANGED <<first, val, done>>
        \/ ~done /\ done' = TRUE /\ UNCHANGED <<first, val, pipe>>
             /\ PrintT("SCRIPT " \o ToJson([first |-> first, validator |-> val, pipe |-> pipe,
                                            accept |-> Accept(first, val), mustreason |-> MustReason(first, val)]))
=============================================================================
