INIT GInit
NEXT GNext
CONSTANTS Conns = {1, 2}
  Classes = {"S", "N", "P"}
  Mode <- GMode
  MaxCalls = 10
  MaxLen = 5
CHECK_DEADLOCK FALSE
