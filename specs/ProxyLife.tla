----------------------------- MODULE ProxyLife -----------------------------
(***************************************************************************)
(* Life cycle of client proxies (extra, beyond the listed properties):     *)
(* thread ownership, lazy connection, release, rebinding, copies.          *)
(*                                                                         *)
(* A proxy is owned by one thread; every operation that touches its        *)
(* connection (call, bind, release, reconnect) is refused for any other    *)
(* thread and then changes nothing; claiming transfers ownership and keeps *)
(* the connection.  A call connects when needed.  A copy is a new,         *)
(* unconnected proxy owned by the copying thread.  Connections are         *)
(* numbered in the order they are made; the daemon serves a call on the    *)
(* connection of the proxy it was made through, and holds exactly the      *)
(* connections of the connected proxies.                                   *)
(***************************************************************************)
EXTENDS Naturals, FiniteSets, Sequences
CONSTANTS Threads, MaxProxies, MaxConns
ASSUME "A" \in Threads      \* the thread that makes the first proxy
VARIABLES owner,    \* proxy -> thread            (proxies are 1..np)
          conn,     \* proxy -> connection number, 0 = not connected
          np,       \* number of proxies made so far
          nconn,    \* number of connections made so far
          last      \* result of the last operation: [out, served]  (served: connection number the call ran on, 0 = none)
vars == <<owner, conn, np, nconn, last>>
Proxies == 1..np
Init == /\ np = 1 /\ owner = [p \in 1..MaxProxies |-> "A"] /\ conn = [p \in 1..MaxProxies |-> 0]
        /\ nconn = 0 /\ last = [out |-> "init", served |-> 0]
Refused == /\ last' = [out |-> "notowner", served |-> 0] /\ UNCHANGED <<owner, conn, np, nconn>>
Connected(p) == conn[p] # 0
Call(t, p) == IF owner[p] # t THEN Refused
              ELSE /\ (Connected(p) \/ nconn < MaxConns)
                   /\ LET c == IF Connected(p) THEN conn[p] ELSE nconn + 1 IN
                      /\ conn' = [conn EXCEPT ![p] = c] /\ nconn' = IF Connected(p) THEN nconn ELSE nconn + 1
                      /\ last' = [out |-> "ok", served |-> c]
                   /\ UNCHANGED <<owner, np>>
Bind(t, p) == IF owner[p] # t THEN Refused
              ELSE /\ (Connected(p) \/ nconn < MaxConns)
                   /\ conn' = [conn EXCEPT ![p] = IF Connected(p) THEN conn[p] ELSE nconn + 1]
                   /\ nconn' = IF Connected(p) THEN nconn ELSE nconn + 1
                   /\ last' = [out |-> "ok", served |-> 0] /\ UNCHANGED <<owner, np>>
Release(t, p) == IF owner[p] # t THEN Refused
                 ELSE conn' = [conn EXCEPT ![p] = 0] /\ last' = [out |-> "ok", served |-> 0] /\ UNCHANGED <<owner, np, nconn>>
Reconnect(t, p) == IF owner[p] # t THEN Refused
                   ELSE /\ nconn < MaxConns
                        /\ conn' = [conn EXCEPT ![p] = nconn + 1] /\ nconn' = nconn + 1
                        /\ last' = [out |-> "ok", served |-> 0] /\ UNCHANGED <<owner, np>>
Claim(t, p) == owner' = [owner EXCEPT ![p] = t] /\ last' = [out |-> "ok", served |-> 0] /\ UNCHANGED <<conn, np, nconn>>
Copy(t, p) == /\ np < MaxProxies
              /\ np' = np + 1 /\ owner' = [owner EXCEPT ![np + 1] = t] /\ conn' = [conn EXCEPT ![np + 1] = 0]
              /\ last' = [out |-> "ok", served |-> 0] /\ UNCHANGED nconn
\* with proxy: proxy.call()   - the call, then the release on leaving the block (both refused for a non-owner)
Scoped(t, p) == IF owner[p] # t THEN Refused
                ELSE /\ (Connected(p) \/ nconn < MaxConns)
                     /\ last' = [out |-> "ok", served |-> IF Connected(p) THEN conn[p] ELSE nconn + 1]
                     /\ nconn' = IF Connected(p) THEN nconn ELSE nconn + 1
                     /\ conn' = [conn EXCEPT ![p] = 0] /\ UNCHANGED <<owner, np>>
Next == \E t \in Threads, p \in Proxies :
            Call(t, p) \/ Bind(t, p) \/ Release(t, p) \/ Reconnect(t, p) \/ Claim(t, p) \/ Copy(t, p) \/ Scoped(t, p)
Spec == Init /\ [][Next]_vars

OpenConns == {conn[p] : p \in {q \in Proxies : conn[q] # 0}}
\* no two proxies ever share a connection
ConnectionsNotShared == \A p, q \in Proxies : (p # q /\ conn[p] # 0) => conn[p] # conn[q]
\* a refused operation changes nothing; a call is served on the caller's own connection
RefusedIsNoOp == [][last'.out = "notowner" => UNCHANGED <<owner, conn, np, nconn>>]_vars
ServedOnOwn == [][\A t \in Threads, p \in Proxies : (Call(t, p) /\ last'.out = "ok") => last'.served = conn'[p]]_vars
=============================================================================
