------------------------------ MODULE Gen_Pool ------------------------------
(* Environment scripts for C18: every order in which the accept loop submits jobs, running jobs are released
   (the connection ends) and the pool is closed, up to the bounds.  The thread interleaving below each script
   is explored by the scheduler of the harness. *)
EXTENDS Naturals, Sequences, TLC, Json
CONSTANTS MaxJobs, MaxLen
VARIABLES h, nsub, nrel, closed
Init == h = <<>> /\ nsub = 0 /\ nrel = 0 /\ closed = FALSE
Submit  == nsub < MaxJobs /\ h' = Append(h, "submit") /\ nsub' = nsub + 1 /\ UNCHANGED <<nrel, closed>>
Release == nrel < nsub /\ h' = Append(h, "release") /\ nrel' = nrel + 1 /\ UNCHANGED <<nsub, closed>>
Close   == ~closed /\ nsub > 0 /\ h' = Append(h, "close") /\ closed' = TRUE /\ UNCHANGED <<nsub, nrel>>
Next == Len(h) < MaxLen /\ (Submit \/ Release \/ Close)
Emit == (Len(h) = MaxLen \/ (nsub = MaxJobs /\ nrel = nsub)) => PrintT("SCRIPT " \o ToJson(h))
=============================================================================
