-------------------------------- MODULE Wire --------------------------------
(***************************************************************************)
(* The Pyro wire message codec (C06) over an abstract view of byte strings.*)
(*                                                                         *)
(* A byte string offered to the decoder is described structurally:         *)
(*   tag_ok, ver_ok, magic_ok   the three constant header fields           *)
(*   decl_d, decl_a             declared payload and annotation-area sizes *)
(*   avail                      bytes that follow the 40-byte header       *)
(*   chunks                     the annotation area walked chunk by chunk  *)
(*                              from its start while the walk stays inside *)
(*                              the declared area: [len, ascii]            *)
(*   compressed, zlib_ok        flag bit and whether the payload inflates  *)
(*   limit                      MAX_MESSAGE_SIZE at the receiver           *)
(* WellFormed says when such a string is a message; the decoder must       *)
(* accept exactly those, consume exactly 40 + decl_a + decl_d bytes of     *)
(* them, and consume at most the header of one that is over the limit.     *)
(* The encoder side: Encoded(m) is the structural view of what the sender  *)
(* builds from message m; it is well formed and decodes to m.              *)
(***************************************************************************)
EXTENDS Naturals, Sequences, FiniteSets

HeaderSize == 40
SumChunks(ch) == LET f[i \in 0..Len(ch)] == IF i = 0 THEN 0 ELSE f[i - 1] + 8 + ch[i].len IN f[Len(ch)]
Tiles(r) == SumChunks(r.chunks) = r.decl_a /\ \A i \in 1..Len(r.chunks) : r.chunks[i].ascii
WithinLimit(r) == r.decl_d + r.decl_a <= r.limit
WellFormed(r) == /\ r.tag_ok /\ r.ver_ok /\ r.magic_ok
                 /\ WithinLimit(r)
                 /\ r.avail >= r.decl_d + r.decl_a
                 /\ Tiles(r)
                 /\ (r.compressed => r.zlib_ok)
\* bytes the decoder may take from the stream
ConsumedOK(r, accepted, consumed) ==
    IF accepted THEN consumed = HeaderSize + r.decl_a + r.decl_d
    ELSE IF ~r.tag_ok \/ ~r.ver_ok THEN consumed <= HeaderSize
    ELSE IF r.magic_ok /\ ~WithinLimit(r) THEN consumed <= HeaderSize       \* refused before any of its body is read
    ELSE consumed <= HeaderSize + r.decl_a + r.decl_d

-----------------------------------------------------------------------------
(* Encoder: message m = [psize, compressible, anns (sequence of value lengths), corr, cfgcompress, limit] *)
Threshold == 100
CompressedSize(m) == IF m.compressible THEN (m.psize + 3) \div 4 ELSE m.psize + 11     \* zlib grows incompressible data a little
WillCompress(m) == m.cfgcompress /\ m.psize > Threshold
WireSize(m) == IF WillCompress(m) THEN CompressedSize(m) ELSE m.psize
AnnSize(m) == LET f[i \in 0..Len(m.anns)] == IF i = 0 THEN 0 ELSE f[i - 1] + 8 + m.anns[i] IN f[Len(m.anns)]
SenderRefuses(m) == WireSize(m) + AnnSize(m) > m.limit
Encoded(m) == [tag_ok |-> TRUE, ver_ok |-> TRUE, magic_ok |-> TRUE, decl_d |-> WireSize(m), decl_a |-> AnnSize(m),
               avail |-> WireSize(m) + AnnSize(m), chunks |-> [i \in 1..Len(m.anns) |-> [len |-> m.anns[i], ascii |-> TRUE]],
               compressed |-> WillCompress(m), zlib_ok |-> TRUE, limit |-> m.limit]

CONSTANTS PSizes, AnnShapes, Limits
Messages == [psize : PSizes, compressible : BOOLEAN, anns : AnnShapes, corr : BOOLEAN, cfgcompress : BOOLEAN, limit : Limits]
VARIABLE m
Init == m \in Messages
Next == UNCHANGED m
Spec == Init /\ [][Next]_m
\* whatever the sender is willing to build is a well-formed message that the receiver (same limit) accepts in full
EncodeWellFormed == ~SenderRefuses(m) => WellFormed(Encoded(m))
\* and what the sender refuses, the receiver would refuse too (the limit means the same on both sides)
LimitSymmetric == SenderRefuses(m) <=> ~WithinLimit(Encoded(m))
=============================================================================
