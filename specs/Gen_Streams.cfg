INIT Init
NEXT Next
CONSTANTS MaxLen = 2
CHECK_DEADLOCK FALSE
