---------------------------- MODULE Gen_Location ----------------------------
EXTENDS Location, Sequences, TLC, Json
VARIABLE done
GInit == done = FALSE /\ h = "ipv4" /\ n = "none" /\ nh = "name" /\ asknat = TRUE
GNext == /\ ~done /\ done' = TRUE /\ UNCHANGED <<h, n, nh, asknat>>
         /\ \A hh \in HostKinds, nn \in Nats, k \in NatHosts, a \in BOOLEAN :
                (nn = "none" => k = "name") => PrintT("SCRIPT " \o ToJson([h |-> hh, n |-> nn, nh |-> k, asknat |-> a]))
=============================================================================
