---------------------------- MODULE Gen_Location ----------------------------
EXTENDS Location, Sequences, TLC, Json
VARIABLE done
GInit == done = FALSE /\ h = "ipv4" /\ n = "none" /\ asknat = TRUE
GNext == /\ ~done /\ done' = TRUE /\ UNCHANGED <<h, n, asknat>>
         /\ \A hh \in HostKinds, nn \in Nats, a \in BOOLEAN : PrintT("SCRIPT " \o ToJson([h |-> hh, n |-> nn, asknat |-> a]))
=============================================================================
