-------------------------------- MODULE Pool --------------------------------
(***************************************************************************)
(* The worker pool of the thread-pool server (Pyro5.svr_threads.Pool), as  *)
(* the atomic design that property C18 describes.                          *)
(*                                                                         *)
(*   Submit(j)  the accept loop hands connection job j to the pool: an idle*)
(*              worker takes it, or a new worker is created while fewer    *)
(*              than Size exist, or - only when Size workers are busy -    *)
(*              the job is refused (the client gets a connect-failure).    *)
(*   Start/End  the worker runs the job (the connection is served).        *)
(*   Done(w)    the worker reports back: it becomes idle again, or retires *)
(*              when enough idle workers exist or the pool is closed.      *)
(*   Close      no further job is accepted or started; idle workers retire.*)
(*   Exit(w)    a retired worker's thread ends.                            *)
(***************************************************************************)
EXTENDS Naturals, FiniteSets

CONSTANTS Size, Min, Jobs, Workers      \* Workers: identities available for worker threads (more than Size)

VARIABLES ws,       \* worker state: "none" | "idle" | "busy" | "fin" (job over, not yet reported) | "retired" | "exited"
          js,       \* job state: "new" | "assigned" | "started" | "ended" | "refused" | "dropped"
          jw,       \* job -> worker (0 = none)
          closed
vars == <<ws, js, jw, closed>>

Live   == {w \in Workers : ws[w] \in {"idle", "busy", "fin"}}
BusyWs == {w \in Workers : ws[w] \in {"busy", "fin"}}

Init == /\ \E init \in SUBSET Workers :
             /\ Cardinality(init) = Min
             /\ ws = [w \in Workers |-> IF w \in init THEN "idle" ELSE "none"]
        /\ js = [j \in Jobs |-> "new"]
        /\ jw = [j \in Jobs |-> 0]
        /\ closed = FALSE

Assign(j, w) == /\ ws' = [ws EXCEPT ![w] = "busy"]
                /\ jw' = [jw EXCEPT ![j] = w]
                /\ js' = [js EXCEPT ![j] = "assigned"]

Submit(j) ==
    /\ js[j] = "new" /\ ~closed
    /\ \/ \E w \in Workers : ws[w] = "idle" /\ Assign(j, w)
       \/ /\ \A w \in Workers : ws[w] # "idle"
          /\ Cardinality(Live) < Size
          /\ \E w \in Workers : ws[w] = "none" /\ Assign(j, w)
       \/ /\ Cardinality(BusyWs) = Size                         \* refusal only when every slot is busy
          /\ js' = [js EXCEPT ![j] = "refused"] /\ UNCHANGED <<ws, jw>>
    /\ UNCHANGED closed

Start(j) == /\ js[j] = "assigned" /\ ws[jw[j]] = "busy"
            /\ js' = [js EXCEPT ![j] = "started"] /\ UNCHANGED <<ws, jw, closed>>

\* a job that was assigned but not started when the pool closes may be dropped ("starts no further job")
Drop(j) == /\ js[j] = "assigned" /\ closed
           /\ js' = [js EXCEPT ![j] = "dropped"]
           /\ ws' = [ws EXCEPT ![jw[j]] = "fin"] /\ UNCHANGED <<jw, closed>>

End(j) == /\ js[j] = "started"
          /\ js' = [js EXCEPT ![j] = "ended"]
          /\ ws' = [ws EXCEPT ![jw[j]] = "fin"] /\ UNCHANGED <<jw, closed>>

Done(w) == /\ ws[w] = "fin"
           /\ \/ ~closed /\ ws' = [ws EXCEPT ![w] = "idle"]
              \/ ws' = [ws EXCEPT ![w] = "retired"]
           /\ UNCHANGED <<js, jw, closed>>

Close == /\ ~closed /\ closed' = TRUE
         /\ ws' = [w \in Workers |-> IF ws[w] = "idle" THEN "retired" ELSE ws[w]]
         /\ UNCHANGED <<js, jw>>

Exit(w) == /\ ws[w] = "retired" /\ ws' = [ws EXCEPT ![w] = "exited"] /\ UNCHANGED <<js, jw, closed>>

Next == \/ \E j \in Jobs : Submit(j) \/ Start(j) \/ End(j) \/ Drop(j)
        \/ \E w \in Workers : Done(w) \/ Exit(w)
        \/ Close

Fairness == /\ \A j \in Jobs : WF_vars(Start(j)) /\ WF_vars(End(j))
            /\ \A w \in Workers : WF_vars(Done(w)) /\ WF_vars(Exit(w))
Spec == Init /\ [][Next]_vars /\ Fairness

\* ---- property C18 ----
WorkerBound   == Cardinality(Live) <= Size
OneWorkerEach == \A j1, j2 \in Jobs : (j1 # j2 /\ jw[j1] # 0 /\ jw[j1] = jw[j2]) =>
                     ~(js[j1] \in {"assigned", "started"} /\ js[j2] \in {"assigned", "started"})
RefusedNeverRuns == \A j \in Jobs : js[j] = "refused" => jw[j] = 0
NoSubmitAfterClose == [][closed => \A j \in Jobs : js[j] = "new" => js'[j] = "new"]_vars
\* accepted jobs are served (or dropped by a close); after a close every worker thread ends
Served        == \A j \in Jobs : js[j] = "assigned" ~> js[j] \in {"ended", "dropped"}
WorkersLeave  == closed ~> \A w \in Workers : ws[w] \in {"none", "exited"}
=============================================================================
