----------------------------- MODULE MC_Oneway -----------------------------
EXTENDS Naturals, Sequences
Op(c, kind, m) == [c |-> c, kind |-> kind, m |-> m]
OpsA == <<Op("A", "ow", "slow"), Op("A", "call", "fast"), Op("B", "call", "fast"), Op("A", "owbatch", "slow"), Op("A", "ow", "raise")>>
OpsB == <<Op("A", "owbatch", "slow"), Op("B", "ow", "slow"), Op("A", "call", "raise"), Op("B", "call", "slow")>>
CONSTANTS WhichOps, Mux
VARIABLES Ops, Multiplex, st, ret, go, gate
INSTANCE Oneway
MCSpec == InitWith(IF WhichOps = "A" THEN OpsA ELSE OpsB, Mux) /\ Spec
=============================================================================
