SPECIFICATION Spec
CONSTANTS Depth = 2
INVARIANT Idempotent
INVARIANT CoreLossless
INVARIANT NamedMappings
CHECK_DEADLOCK FALSE
