SPECIFICATION Spec
INVARIANT NoServiceAfterClose
INVARIANT CombinedOrphan
PROPERTY ClosedForGood
CHECK_DEADLOCK FALSE
