------------------------------- MODULE Gen_Exc -------------------------------
(* Cases for C07: argument-tuple shape x attribute shape x call kind (the exception classes and serializers are crossed in by
   the harness, which takes the classes from the library's own whitelist). *)
EXTENDS ExcTransport, Sequences, TLC, Json
ArgShapes == {"none", "one_str", "str_int", "three_mixed", "nested_list", "big_int", "unicode", "none_value", "float_nan", "dict_arg"}
AttrShapes == {"none", "one_int", "nested", "several", "unserialisable", "tuple_value", "dunder_named"}
VARIABLE done
GInit == done = FALSE /\ kind = "builtin" /\ carriable = TRUE /\ ck = "call"
GNext == /\ ~done /\ done' = TRUE /\ UNCHANGED <<kind, carriable, ck>>
         /\ \A a \in ArgShapes, t \in AttrShapes, c \in CallKinds : PrintT("SCRIPT " \o ToJson([args |-> a, attrs |-> t, ck |-> c]))
=============================================================================
