--------------------------- MODULE Gen_ProxyState ---------------------------
(* Cases for E11: route x class of the proxy x connected or not. *)
EXTENDS ProxyState, Sequences, TLC, Json
VARIABLE done
GInit == done = FALSE /\ route = "copy" /\ class = "plain" /\ connected = FALSE
GNext == /\ ~done /\ done' = TRUE /\ UNCHANGED <<route, class, connected>>
         /\ \A r \in Routes, c \in Classes, k \in BOOLEAN : PrintT("SCRIPT " \o ToJson([route |-> r, class |-> c, connected |-> k]))
=============================================================================
