SPECIFICATION Spec
CONSTANTS PSizes = {0, 1, 99, 100, 101, 102, 400}
  AnnShapes <- MCAnnShapes
  Limits = {0, 11, 12, 100, 101, 112, 113, 500, 100000}
INVARIANT EncodeWellFormed
INVARIANT LimitSymmetric
CHECK_DEADLOCK FALSE
