--------------------------- MODULE InstancesImpl ---------------------------
(* Daemon._getInstance for a 'single' class, one label per statement, first calls of several connections racing.
   Truthy: what bool(instance) is for instances of the class.  TestIsNone: the test is `is None` (fixed code)
   rather than `not instance` (pinned code).  UseLock: create_single_instance_lock is taken. *)
EXTENDS Naturals, FiniteSets, TLC
CONSTANTS Threads, Truthy, TestIsNone, UseLock, CallsEach
(* --algorithm InstancesImpl
variables table = 0, lock = 0, nextInst = 1, created = {}, used = {};
process th \in Threads
variables inst = 0, n = 0;
begin
L0: while n < CallsEach do
L1:   if UseLock then await lock = 0; lock := self; end if;
L2:   inst := table;                                   \* self._pyroInstances.get(clazz)
L3:   if (TestIsNone /\ inst = 0) \/ (~TestIsNone /\ (inst = 0 \/ ~Truthy)) then
L4:     inst := nextInst; nextInst := nextInst + 1; created := created \cup {inst};   \* createInstance
L5:     table := inst;
      end if;
L6:   if UseLock then lock := 0; end if;
L7:   used := used \cup {inst}; n := n + 1;            \* the call is served by inst
    end while;
end process;
end algorithm; *)
\* BEGIN TRANSLATION
VARIABLES pc, table, lock, nextInst, created, used, inst, n

vars == << pc, table, lock, nextInst, created, used, inst, n >>

ProcSet == (Threads)

Init == (* Global variables *)
        /\ table = 0
        /\ lock = 0
        /\ nextInst = 1
        /\ created = {}
        /\ used = {}
        (* Process th *)
        /\ inst = [self \in Threads |-> 0]
        /\ n = [self \in Threads |-> 0]
        /\ pc = [self \in ProcSet |-> "L0"]

L0(self) == /\ pc[self] = "L0"
            /\ IF n[self] < CallsEach
                  THEN /\ pc' = [pc EXCEPT ![self] = "L1"]
                  ELSE /\ pc' = [pc EXCEPT ![self] = "Done"]
            /\ UNCHANGED << table, lock, nextInst, created, used, inst, n >>

L1(self) == /\ pc[self] = "L1"
            /\ IF UseLock
                  THEN /\ lock = 0
                       /\ lock' = self
                  ELSE /\ TRUE
                       /\ lock' = lock
            /\ pc' = [pc EXCEPT ![self] = "L2"]
            /\ UNCHANGED << table, nextInst, created, used, inst, n >>

L2(self) == /\ pc[self] = "L2"
            /\ inst' = [inst EXCEPT ![self] = table]
            /\ pc' = [pc EXCEPT ![self] = "L3"]
            /\ UNCHANGED << table, lock, nextInst, created, used, n >>

L3(self) == /\ pc[self] = "L3"
            /\ IF (TestIsNone /\ inst[self] = 0) \/ (~TestIsNone /\ (inst[self] = 0 \/ ~Truthy))
                  THEN /\ pc' = [pc EXCEPT ![self] = "L4"]
                  ELSE /\ pc' = [pc EXCEPT ![self] = "L6"]
            /\ UNCHANGED << table, lock, nextInst, created, used, inst, n >>

L4(self) == /\ pc[self] = "L4"
            /\ inst' = [inst EXCEPT ![self] = nextInst]
            /\ nextInst' = nextInst + 1
            /\ created' = (created \cup {inst'[self]})
            /\ pc' = [pc EXCEPT ![self] = "L5"]
            /\ UNCHANGED << table, lock, used, n >>

L5(self) == /\ pc[self] = "L5"
            /\ table' = inst[self]
            /\ pc' = [pc EXCEPT ![self] = "L6"]
            /\ UNCHANGED << lock, nextInst, created, used, inst, n >>

L6(self) == /\ pc[self] = "L6"
            /\ IF UseLock
                  THEN /\ lock' = 0
                  ELSE /\ TRUE
                       /\ lock' = lock
            /\ pc' = [pc EXCEPT ![self] = "L7"]
            /\ UNCHANGED << table, nextInst, created, used, inst, n >>

L7(self) == /\ pc[self] = "L7"
            /\ used' = (used \cup {inst[self]})
            /\ n' = [n EXCEPT ![self] = n[self] + 1]
            /\ pc' = [pc EXCEPT ![self] = "L0"]
            /\ UNCHANGED << table, lock, nextInst, created, inst >>

th(self) == L0(self) \/ L1(self) \/ L2(self) \/ L3(self) \/ L4(self)
               \/ L5(self) \/ L6(self) \/ L7(self)

(* Allow infinite stuttering to prevent deadlock on termination. *)
Terminating == /\ \A self \in ProcSet: pc[self] = "Done"
               /\ UNCHANGED vars

Next == (\E self \in Threads: th(self))
           \/ Terminating

Spec == Init /\ [][Next]_vars

Termination == <>(\A self \in ProcSet: pc[self] = "Done")

\* END TRANSLATION
OneInstance == Cardinality(used) <= 1
CreatedOnce == Cardinality(created) <= 1
=============================================================================
