SPECIFICATION Spec
CONSTANTS Names = {"a", "b"}
  Servers = {"s1", "s2"}
  Delay = 2
  Every = 3
  MaxUnreach = 8
  Horizon = 26
PROPERTY RemovesOnlyDeadStep
PROPERTY ReachableKept
INVARIANT DeadRemovedInTime
CHECK_DEADLOCK FALSE
