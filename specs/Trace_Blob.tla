----------------------------- MODULE Trace_Blob -----------------------------
(* Trace validation for serialized blobs (monitor): per case, what every node on the way saw (info, unpacked argument kinds, or a
   failure) is compared with Blob.tla's Unpacked, which depends on the writer only. *)
EXTENDS Naturals, Sequences, TLC, Json, IOUtils
VARIABLES writer, args, info, hops, seen
B == INSTANCE Blob
Traces == JsonDeserialize(IOEnv.TRACE_FILE)
NT == Len(Traces)
VARIABLES t, l, bad
vars == <<t, l, bad, writer, args, info, hops, seen>>
X == Traces[t]
Init == t \in 1..NT /\ l = 1 /\ bad = "" /\ writer = "serpent" /\ args = <<>> /\ info = "text" /\ hops = <<>> /\ seen = <<>>
Expected(x) == [i \in 1..Len(x.args) |-> B!Maps(x.writer, x.args[i])]
Check(x) ==
    IF x.outcome # "ok" THEN "Blob.CallFailed"
    ELSE IF Len(x.nodes) # Len(x.hops) THEN "Blob.NotEveryNodeReached"
    ELSE IF \E i \in 1..Len(x.nodes) : x.nodes[i].info_ok = FALSE THEN "Blob.InfoChanged"
    ELSE IF \E i \in 1..Len(x.nodes) : x.nodes[i].looked /\ x.nodes[i].failed THEN "Blob.CannotBeUnpacked"
    ELSE IF \E i \in 1..Len(x.nodes) : x.nodes[i].looked /\ x.nodes[i].args # Expected(x) THEN "Blob.ArgumentsDiffer"
    \* the info travels as an annotation of the blob call; an ordinary call made afterwards does not carry it
    ELSE IF ~x.later_clean THEN "Blob.InfoLeftInLaterRequests"
    ELSE ""
Step == l = 1 /\ l' = 2 /\ t' = t /\ bad' = Check(X) /\ UNCHANGED <<writer, args, info, hops, seen>>
Spec == Init /\ [][Step]_vars
Verdict == (l = 2) => PrintT(<<"VERDICT", t, bad>>)
=============================================================================
