INIT GInit
NEXT GNext
CONSTANT Conns = {1, 2, 3}
CONSTANT MaxLen = 5
CHECK_DEADLOCK FALSE
