SPECIFICATION Spec
CONSTANTS Conns = {1, 2}
  Classes = {"S", "N", "P"}
  Mode <- MCMode
  MaxCalls = 4
INVARIANT SingleOne
INVARIANT PerCallFresh
INVARIANT SessionPrivate
INVARIANT CreationsExact
CHECK_DEADLOCK FALSE
