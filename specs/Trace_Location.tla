--------------------------- MODULE Trace_Location ---------------------------
(* Trace validation for daemon locations (monitor): which address the handed-out uri names, whether it parses back to exactly that
   host and port, and whether a client can reach the object through the inside uri. *)
EXTENDS Naturals, Sequences, TLC, Json, IOUtils
VARIABLES h, n, nh, asknat
L == INSTANCE Location
Traces == JsonDeserialize(IOEnv.TRACE_FILE)
NT == Len(Traces)
VARIABLES t, l, bad
vars == <<t, l, bad, h, n, nh, asknat>>
X == Traces[t]
Init == t \in 1..NT /\ l = 1 /\ bad = "" /\ h = "ipv4" /\ n = "none" /\ nh = "name" /\ asknat = TRUE
Check(x) ==
    LET exp == L!Names(x.h, x.n, x.asknat) IN
    IF x.names # exp THEN (IF x.names = "other_exception" THEN "Location.DaemonCannotBeCreated"
                           ELSE IF exp = "ValueError" THEN "Location.OutsideAddressForUnixSocketAccepted"
                           ELSE IF x.names = "ValueError" THEN "Location.Refused" ELSE "Location.WrongAddressNamed")
    ELSE IF exp = "ValueError" THEN ""
    ELSE IF ~x.parses_back THEN "Location.UriDoesNotParseBack"
    ELSE IF ~x.register_agrees THEN "Location.RegisterAndUriForDisagree"
    ELSE IF ~x.reachable THEN "Location.InsideUriNotReachable"
    ELSE ""
Step == l = 1 /\ l' = 2 /\ t' = t /\ bad' = Check(X) /\ UNCHANGED <<h, n, nh, asknat>>
Spec == Init /\ [][Step]_vars
Verdict == (l = 2) => PrintT(<<"VERDICT", t, bad>>)
=============================================================================
