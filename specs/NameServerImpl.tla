--------------------------- MODULE NameServerImpl ---------------------------
(***************************************************************************)
(* NameServer.register(safe=True) / register / remove(name) at statement   *)
(* granularity with the re-entrant lock, for one shared name.  UseLock =   *)
(* TRUE is the code with remove() holding the lock around its membership   *)
(* test and the deletion; UseLock = FALSE is the pinned code, whose test   *)
(* is outside the lock (TLC finds the KeyError interleaving).              *)
(* Ops is a function thread -> operation; Present = name registered first. *)
(***************************************************************************)
EXTENDS Naturals, FiniteSets, TLC
CONSTANTS Threads, Ops, Present, UseLock
(* --algorithm NameServerImpl
variables present = Present, owner = 0, winner = 0,
          res = [x \in Threads |-> "none"];
macro Acquire(me) begin await owner = 0; owner := me; end macro;
macro Release() begin owner := 0; end macro;
process th \in Threads
begin
S0: if Ops[self] = "regsafe" then
G1:   Acquire(self);
G2:   if present then
        res[self] := "NamingError";
      else
G3:     present := TRUE; winner := self; res[self] := "ok";
      end if;
G4:   Release();
    elsif Ops[self] = "register" then
U1:   Acquire(self);
U2:   present := TRUE; winner := self; res[self] := "ok";
U3:   Release();
    else  \* remove(name)
      if UseLock then
K1:     Acquire(self);
K2:     if present then
K3:       present := FALSE; res[self] := "1";
        else
          res[self] := "0";
        end if;
K4:     Release();
      else
R1:     if present then                 \* membership test outside the lock
R2:       Acquire(self);
R3:       if present then present := FALSE; res[self] := "1";
          else res[self] := "KeyError";  \* del self.storage[name] on a name that is gone
          end if;
R4:       Release();
        else
          res[self] := "0";
        end if;
      end if;
    end if;
end process;
end algorithm; *)
\* BEGIN TRANSLATION
VARIABLES pc, present, owner, winner, res

vars == << pc, present, owner, winner, res >>

ProcSet == (Threads)

Init == (* Global variables *)
        /\ present = Present
        /\ owner = 0
        /\ winner = 0
        /\ res = [x \in Threads |-> "none"]
        /\ pc = [self \in ProcSet |-> "S0"]

S0(self) == /\ pc[self] = "S0"
            /\ IF Ops[self] = "regsafe"
                  THEN /\ pc' = [pc EXCEPT ![self] = "G1"]
                  ELSE /\ IF Ops[self] = "register"
                             THEN /\ pc' = [pc EXCEPT ![self] = "U1"]
                             ELSE /\ IF UseLock
                                        THEN /\ pc' = [pc EXCEPT ![self] = "K1"]
                                        ELSE /\ pc' = [pc EXCEPT ![self] = "R1"]
            /\ UNCHANGED << present, owner, winner, res >>

G1(self) == /\ pc[self] = "G1"
            /\ owner = 0
            /\ owner' = self
            /\ pc' = [pc EXCEPT ![self] = "G2"]
            /\ UNCHANGED << present, winner, res >>

G2(self) == /\ pc[self] = "G2"
            /\ IF present
                  THEN /\ res' = [res EXCEPT ![self] = "NamingError"]
                       /\ pc' = [pc EXCEPT ![self] = "G4"]
                  ELSE /\ pc' = [pc EXCEPT ![self] = "G3"]
                       /\ res' = res
            /\ UNCHANGED << present, owner, winner >>

G3(self) == /\ pc[self] = "G3"
            /\ present' = TRUE
            /\ winner' = self
            /\ res' = [res EXCEPT ![self] = "ok"]
            /\ pc' = [pc EXCEPT ![self] = "G4"]
            /\ owner' = owner

G4(self) == /\ pc[self] = "G4"
            /\ owner' = 0
            /\ pc' = [pc EXCEPT ![self] = "Done"]
            /\ UNCHANGED << present, winner, res >>

U1(self) == /\ pc[self] = "U1"
            /\ owner = 0
            /\ owner' = self
            /\ pc' = [pc EXCEPT ![self] = "U2"]
            /\ UNCHANGED << present, winner, res >>

U2(self) == /\ pc[self] = "U2"
            /\ present' = TRUE
            /\ winner' = self
            /\ res' = [res EXCEPT ![self] = "ok"]
            /\ pc' = [pc EXCEPT ![self] = "U3"]
            /\ owner' = owner

U3(self) == /\ pc[self] = "U3"
            /\ owner' = 0
            /\ pc' = [pc EXCEPT ![self] = "Done"]
            /\ UNCHANGED << present, winner, res >>

K1(self) == /\ pc[self] = "K1"
            /\ owner = 0
            /\ owner' = self
            /\ pc' = [pc EXCEPT ![self] = "K2"]
            /\ UNCHANGED << present, winner, res >>

K2(self) == /\ pc[self] = "K2"
            /\ IF present
                  THEN /\ pc' = [pc EXCEPT ![self] = "K3"]
                       /\ res' = res
                  ELSE /\ res' = [res EXCEPT ![self] = "0"]
                       /\ pc' = [pc EXCEPT ![self] = "K4"]
            /\ UNCHANGED << present, owner, winner >>

K3(self) == /\ pc[self] = "K3"
            /\ present' = FALSE
            /\ res' = [res EXCEPT ![self] = "1"]
            /\ pc' = [pc EXCEPT ![self] = "K4"]
            /\ UNCHANGED << owner, winner >>

K4(self) == /\ pc[self] = "K4"
            /\ owner' = 0
            /\ pc' = [pc EXCEPT ![self] = "Done"]
            /\ UNCHANGED << present, winner, res >>

R1(self) == /\ pc[self] = "R1"
            /\ IF present
                  THEN /\ pc' = [pc EXCEPT ![self] = "R2"]
                       /\ res' = res
                  ELSE /\ res' = [res EXCEPT ![self] = "0"]
                       /\ pc' = [pc EXCEPT ![self] = "Done"]
            /\ UNCHANGED << present, owner, winner >>

R2(self) == /\ pc[self] = "R2"
            /\ owner = 0
            /\ owner' = self
            /\ pc' = [pc EXCEPT ![self] = "R3"]
            /\ UNCHANGED << present, winner, res >>

R3(self) == /\ pc[self] = "R3"
            /\ IF present
                  THEN /\ present' = FALSE
                       /\ res' = [res EXCEPT ![self] = "1"]
                  ELSE /\ res' = [res EXCEPT ![self] = "KeyError"]
                       /\ UNCHANGED present
            /\ pc' = [pc EXCEPT ![self] = "R4"]
            /\ UNCHANGED << owner, winner >>

R4(self) == /\ pc[self] = "R4"
            /\ owner' = 0
            /\ pc' = [pc EXCEPT ![self] = "Done"]
            /\ UNCHANGED << present, winner, res >>

th(self) == S0(self) \/ G1(self) \/ G2(self) \/ G3(self) \/ G4(self)
               \/ U1(self) \/ U2(self) \/ U3(self) \/ K1(self) \/ K2(self)
               \/ K3(self) \/ K4(self) \/ R1(self) \/ R2(self) \/ R3(self)
               \/ R4(self)

(* Allow infinite stuttering to prevent deadlock on termination. *)
Terminating == /\ \A self \in ProcSet: pc[self] = "Done"
               /\ UNCHANGED vars

Next == (\E self \in Threads: th(self))
           \/ Terminating

Spec == Init /\ [][Next]_vars

Termination == <>(\A self \in ProcSet: pc[self] = "Done")

\* END TRANSLATION

AllDone == \A x \in Threads : pc[x] = "Done"
Count(v) == Cardinality({x \in Threads : res[x] = v})
AllSafe == \A x \in Threads : Ops[x] = "regsafe"
AllRemove == \A x \in Threads : Ops[x] = "remove"
\* of any number of concurrent safe registrations of one name exactly one succeeds
OneSafeWinner == (AllDone /\ AllSafe /\ ~Present) => Count("ok") = 1 /\ Count("NamingError") = Cardinality(Threads) - 1
\* concurrent removals of one name report a total of exactly one removed entry and never fail internally
RemoveTotalOne == (AllDone /\ AllRemove /\ Present) => Count("1") = 1 /\ Count("0") = Cardinality(Threads) - 1
NoInternalError == Count("KeyError") = 0
\* mixed: a safe registration never succeeds while the name is present at its linearization point
SafeRespectsPresence == \A x \in Threads : (Ops[x] = "regsafe" /\ res[x] = "ok" /\ pc[x] = "G4") => winner = x
=============================================================================
