----------------------------- MODULE Trace_Batch -----------------------------
(***************************************************************************)
(* Trace validation for C11 (monitor).  One trace is one comparison:       *)
(*   pre    calls of an earlier batch submitted through the same           *)
(*          BatchProxy (re-use), possibly empty                            *)
(*   calls  the call list                                                  *)
(*   seq    what making the calls one by one on an identical object gave    *)
(*   bat    what the batch gave: results, exc, where ("position" |         *)
(*          "submit" | ""), pos, journal, ret_none                         *)
(* Both are compared with Run of Batch.tla, hence with each other.         *)
(***************************************************************************)
EXTENDS Naturals, Sequences, TLC, Json, IOUtils
CONSTANTS Calls, MaxLen
VARIABLES batch, i, journal, results, failed
B == INSTANCE Batch
Traces == JsonDeserialize(IOEnv.TRACE_FILE)
NT == Len(Traces)
VARIABLES t, l, bad
vars == <<t, l, bad, batch, i, journal, results, failed>>
Tr == Traces[t]
Init == t \in 1..NT /\ l = 1 /\ bad = "" /\ batch = <<>> /\ i = 0 /\ journal = <<>> /\ results = <<>> /\ failed = ""
Check(x) ==
    LET j0 == B!Run(x.pre, <<>>).journal
        r == B!Run(x.calls, j0) IN
    IF x.hang THEN "C11.Hang"
    ELSE IF x.seq.results # r.results \/ x.seq.exc # r.exc \/ x.seq.pos # r.pos \/ x.seq.journal # r.journal
         THEN "C11.SequentialRunNotAsModel"
    ELSE IF x.bat.journal # r.journal THEN
         (IF Len(x.bat.journal) > Len(r.journal) THEN "C11.ExecutedBeyondFailureOrTwice" ELSE "C11.EffectDiffers")
    ELSE IF x.oneway THEN (IF ~x.bat.ret_none THEN "C11.OnewayBatchReturned" ELSE "")
    ELSE IF r.exc = "" THEN
         (IF x.bat.exc # "" THEN "C11.SpuriousFailure" ELSE IF x.bat.results # r.results THEN "C11.ResultsDiffer" ELSE "")
    ELSE IF x.bat.exc # r.exc THEN "C11.NotOwnException"
    \* fp: class, args and attributes of the exception the caller caught; the batch must deliver the one the single call delivers
    ELSE IF x.bat.fp # x.seq.fp THEN "C11.NotOwnException.content"
    ELSE IF x.bat.where = "position" /\ (x.bat.pos # r.pos \/ x.bat.results # r.results) THEN "C11.ResultsDiffer"
    ELSE ""
Step == /\ l = 1 /\ l' = 2 /\ t' = t /\ bad' = Check(Tr) /\ UNCHANGED <<batch, i, journal, results, failed>>
Spec == Init /\ [][Step]_vars
Verdict == (l = 2) => PrintT(<<"VERDICT", t, bad>>)
=============================================================================
