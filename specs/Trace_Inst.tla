----------------------------- MODULE Trace_Inst -----------------------------
(***************************************************************************)
(* Trace validation for C09 (monitor).  Events recorded from a real daemon *)
(* serving classes S (single), N (session), P (percall):                   *)
(*   cfg(creator, race)  none | ok | failfirst | wrongtype; race: the      *)
(*                       calls of several connections overlapped (the log  *)
(*                       has them in the order they returned, which need   *)
(*                       not be the order in which the creator was called) *)
(*   open(c) / close(c, alive)  c numbers connection incarnations; alive = *)
(*                       its session instances still alive after the close *)
(*   call(c, k, inst, ok) inst = serial number the serving instance got in *)
(*                        its constructor; ok = FALSE when the call raised *)
(*   stats(creates, creator_ok, alive_session)                             *)
(* The monitor is the atomic model of Instances.tla, plus the rule that a  *)
(* failing creator creates nothing and the failure reaches the caller.     *)
(***************************************************************************)
EXTENDS Naturals, Sequences, FiniteSets, TLC, Json, IOUtils
Traces == JsonDeserialize(IOEnv.TRACE_FILE)
NT == Len(Traces)
Classes == {"S", "N", "P"}
ModeOf(k) == IF k = "S" THEN "single" ELSE IF k = "N" THEN "session" ELSE "percall"
ConnIds == 1..12
VARIABLES t, l, single, sess, used, attempts, distinct, fails, bad
vars == <<t, l, single, sess, used, attempts, distinct, fails, bad>>
Tr == Traces[t]
Creator == Tr[1].creator
Race == "race" \in DOMAIN Tr[1] /\ Tr[1].race
Flag(c) == IF bad = "" THEN c ELSE bad

Init == /\ t \in 1..NT /\ l = 2 /\ single = [k \in Classes |-> 0]
        /\ sess = [c \in ConnIds |-> [k \in Classes |-> 0]]
        /\ used = {} /\ attempts = [k \in Classes |-> 0] /\ distinct = [k \in Classes |-> 0] /\ fails = [k \in Classes |-> 0] /\ bad = ""

NeedsCreate(c, k) == CASE ModeOf(k) = "single" -> single[k] = 0
                       [] ModeOf(k) = "session" -> sess[c][k] = 0
                       [] OTHER -> TRUE
\* must this call fail because the creator fails?
MustFail(c, k) == NeedsCreate(c, k) /\ (Creator = "wrongtype" \/ (Creator = "failfirst" /\ attempts[k] = 0))
\* overlapping calls and a creator that fails its first invocation: that invocation belongs to exactly one of the calls, which
\* one cannot be told from the order of the returns - one failing call per class is in order (the count is checked at the end)
RaceFail(e) == Race /\ Creator = "failfirst" /\ ~e.ok /\ fails[e.k] = 0

PlainCall(e) ==
    LET c == e.c  k == e.k IN
    IF MustFail(c, k) /\ ~(Race /\ Creator = "failfirst")
    THEN /\ attempts' = [attempts EXCEPT ![k] = @ + 1]
         /\ bad' = IF e.ok THEN Flag("C09.CreatorFailureSwallowed") ELSE bad
         /\ UNCHANGED <<single, sess, used, distinct>>
    ELSE /\ attempts' = IF NeedsCreate(c, k) THEN [attempts EXCEPT ![k] = @ + 1] ELSE attempts
         /\ IF ~e.ok
            THEN bad' = Flag("C09.CallFailed") /\ UNCHANGED <<single, sess, used, distinct>>
            ELSE /\ used' = used \cup {e.inst}
                 /\ distinct' = IF e.inst \in used THEN distinct ELSE [distinct EXCEPT ![k] = @ + 1]
                 /\ CASE ModeOf(k) = "single" ->
                           /\ single' = IF single[k] = 0 THEN [single EXCEPT ![k] = e.inst] ELSE single
                           /\ bad' = IF single[k] = 0 /\ e.inst \in used THEN Flag("C09.Single.NotFresh")
                                     ELSE IF single[k] # 0 /\ e.inst # single[k] THEN Flag("C09.Single.SecondInstance")
                                     ELSE bad
                           /\ UNCHANGED sess
                      [] ModeOf(k) = "session" ->
                           /\ sess' = IF sess[c][k] = 0 THEN [sess EXCEPT ![c][k] = e.inst] ELSE sess
                           /\ bad' = IF sess[c][k] = 0 /\ e.inst \in used THEN Flag("C09.Session.SharedOrReused")
                                     ELSE IF sess[c][k] # 0 /\ e.inst # sess[c][k] THEN Flag("C09.Session.SecondInstance")
                                     ELSE bad
                           /\ UNCHANGED single
                      [] OTHER ->
                           /\ bad' = IF e.inst \in used THEN Flag("C09.PerCall.Reused") ELSE bad
                           /\ UNCHANGED <<single, sess>>

CallStep(e) ==
    IF RaceFail(e)
    THEN /\ fails' = [fails EXCEPT ![e.k] = @ + 1]
         /\ UNCHANGED <<single, sess, used, distinct, attempts, bad>>
    ELSE UNCHANGED fails /\ PlainCall(e)

StatsStep(e) ==
    /\ UNCHANGED <<single, sess, used, attempts, distinct, fails>>
    /\ bad' = IF \E k \in Classes : e.creates[k] # distinct[k] THEN Flag("C09.ConstructionsNotExact")
              ELSE IF Race /\ Creator = "failfirst" /\ \E k \in Classes : fails[k] # (IF e.creator_calls[k] > 0 THEN 1 ELSE 0)
                   THEN Flag("C09.CreatorFailureSwallowed")
              ELSE IF Creator \in {"ok", "failfirst"} /\ \E k \in Classes : e.creator_ok[k] # distinct[k]
                   THEN Flag("C09.CreatorCallsNotExact")
              ELSE IF e.alive_session # 0 THEN Flag("C09.SessionNotDropped")
              ELSE bad

Step == /\ l <= Len(Tr) /\ l' = l + 1 /\ t' = t
        /\ LET e == Tr[l] IN
           CASE e.e = "open"  -> UNCHANGED <<single, sess, used, attempts, distinct, fails, bad>>
             [] e.e = "close" -> /\ sess' = [sess EXCEPT ![e.c] = [k \in Classes |-> 0]]
                                 /\ bad' = IF e.alive # 0 THEN Flag("C09.SessionNotDropped") ELSE bad
                                 /\ UNCHANGED <<single, used, attempts, distinct, fails>>
             \* a second daemon in the same process registers the same classes: it has no 'single' instance yet
             [] e.e = "newdaemon" -> /\ single' = [k \in Classes |-> 0]
                                     /\ UNCHANGED <<sess, used, attempts, distinct, fails, bad>>
             [] e.e = "call"  -> CallStep(e)
             [] e.e = "stats" -> StatsStep(e)
             [] OTHER -> bad' = Flag("Monitor.UnknownEvent") /\ UNCHANGED <<single, sess, used, attempts, distinct, fails>>
Spec == Init /\ [][Step]_vars
Verdict == (l = Len(Tr) + 1) => PrintT(<<"VERDICT", t, bad>>)
=============================================================================
