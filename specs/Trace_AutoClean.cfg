SPECIFICATION TSpec
CONSTANTS Names = {"a", "b"}
  Servers = {"s1", "s2"}
  Delay = 2
  Every = 3
  MaxUnreach = 20
  Horizon = 100000
CONSTRAINT Verdict
CHECK_DEADLOCK FALSE
