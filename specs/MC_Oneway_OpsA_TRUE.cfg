SPECIFICATION MCSpec
CONSTANTS WhichOps = "A"
  Mux = TRUE
INVARIANT OnewayNeverWaitedFor
INVARIANT ReplyAfterEnd
INVARIANT OneAtATime
PROPERTY AllDone
PROPERTY Forward
CHECK_DEADLOCK FALSE
