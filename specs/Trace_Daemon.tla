---------------------------- MODULE Trace_Daemon ----------------------------
(***************************************************************************)
(* Trace validation (monitor) for the connection-level properties of the   *)
(* daemon: C08 (nothing is invoked before an accepted handshake), C13      *)
(* (cleanup exactly once) and C05 (no client input stops the daemon or     *)
(* disturbs other clients).  It is the model of Daemon.tla seen through    *)
(* the events that a real daemon lets an outside observer record:          *)
(*                                                                         *)
(*  Conn(c)          a client connected; c numbers connections             *)
(*  First(c, accept, mustreason)   what the script sends first on c:       *)
(*                   accept = valid CONNECT for a registered object with   *)
(*                   an accepting validator; mustreason = a connect-failure*)
(*                   carrying the reason is required (vs. merely allowed)  *)
(*  Exec(c)          a method of a registered object ran for connection c  *)
(*  Hook(c)          the daemon's disconnect hook ran for c                *)
(*  Track/Untrack(c, r), ResClose(r)                                       *)
(*  Ended(c)         the script ended connection c (any way) or sent it    *)
(*                   something after which the daemon must drop it         *)
(*  Snap(c, srvclosed, first, reason, alive_sessions)  at quiescence       *)
(*  End(slots, open, loop_alive, witness_ok, fresh_ok)                     *)
(* One verdict string per property, so that each check reads its own.      *)
(***************************************************************************)
EXTENDS Naturals, Sequences, FiniteSets, TLC, Json, IOUtils
Traces == JsonDeserialize(IOEnv.TRACE_FILE)
NT == Len(Traces)
CIds == 1..16
RIds == 1..8
VARIABLES t, l, ready, ended, hooks, tracked, closes, b08, b13, b05
vars == <<t, l, ready, ended, hooks, tracked, closes, b08, b13, b05>>
Tr == Traces[t]
F(b, c) == IF b = "" THEN c ELSE b

Init == /\ t \in 1..NT /\ l = 1
        /\ ready = [c \in CIds |-> FALSE] /\ ended = [c \in CIds |-> FALSE]
        /\ hooks = [c \in CIds |-> 0] /\ tracked = [c \in CIds |-> {}] /\ closes = [r \in RIds |-> 0]
        /\ b08 = "" /\ b13 = "" /\ b05 = ""

Same(v) == UNCHANGED v

Step ==
  /\ l <= Len(Tr) /\ l' = l + 1 /\ t' = t
  /\ LET e == Tr[l] IN
     CASE e.e = "First" ->
            /\ ready' = [ready EXCEPT ![e.c] = e.accept]
            /\ ended' = [ended EXCEPT ![e.c] = ~e.accept]        \* a refused connection is over
            /\ Same(<<hooks, tracked, closes, b08, b13, b05>>)
       [] e.e = "Exec" ->
            /\ b08' = IF ~ready[e.c] THEN F(b08, "C08.ExecWithoutAcceptedHandshake") ELSE b08
            /\ Same(<<ready, ended, hooks, tracked, closes, b13, b05>>)
       [] e.e = "Hook" ->
            /\ hooks' = [hooks EXCEPT ![e.c] = @ + 1]
            /\ b13' = IF hooks[e.c] >= 1 THEN F(b13, "C13.HookTwice")
                      ELSE IF ~ended[e.c] THEN F(b13, "C13.HookOnLiveConnection") ELSE b13
            /\ Same(<<ready, ended, tracked, closes, b08, b05>>)
       [] e.e = "Track" -> /\ tracked' = [tracked EXCEPT ![e.c] = @ \cup {e.r}]
                           /\ Same(<<ready, ended, hooks, closes, b08, b13, b05>>)
       [] e.e = "Untrack" -> /\ tracked' = [tracked EXCEPT ![e.c] = @ \ {e.r}]
                             /\ Same(<<ready, ended, hooks, closes, b08, b13, b05>>)
       [] e.e = "ResClose" ->
            /\ closes' = [closes EXCEPT ![e.r] = @ + 1]
            /\ b13' = IF closes[e.r] >= 1 THEN F(b13, "C13.ResourceClosedTwice")
                      ELSE IF \E c \in CIds : e.r \in tracked[c] /\ ~ended[c] THEN F(b13, "C13.ResourceOfLiveConnectionClosed")
                      ELSE IF ~\E c \in CIds : e.r \in tracked[c] THEN F(b13, "C13.UntrackedResourceClosed")
                      ELSE b13
            /\ Same(<<ready, ended, hooks, tracked, b08, b05>>)
       [] e.e = "Ended" -> /\ ended' = [ended EXCEPT ![e.c] = TRUE]
                           /\ Same(<<ready, hooks, tracked, closes, b08, b13, b05>>)
       [] e.e = "Snap" ->
            \* quiescence: what holds for connection e.c now
            /\ b08' = IF ended[e.c] /\ ~ready[e.c] /\ e.checkfirst
                      THEN IF e.first \notin {"fail", "none"} THEN F(b08, "C08.RefusedHandshakeAnswered_" \o e.first)
                           ELSE IF e.mustreason /\ ~(e.first = "fail" /\ e.reason) THEN F(b08, "C08.NoConnectFailureWithReason")
                           ELSE IF ~e.srvclosed THEN F(b08, "C08.ConnectionNotClosed")
                           ELSE b08
                      ELSE b08
            /\ b13' = IF ended[e.c]
                      THEN IF ~e.srvclosed THEN F(b13, "C13.ServerSocketNotClosed")
                           ELSE IF ready[e.c] /\ hooks[e.c] # 1 THEN F(b13, "C13.HookNotOnce")
                           ELSE IF \E r \in tracked[e.c] : closes[r] # 1 THEN F(b13, "C13.TrackedResourceNotClosedOnce")
                           ELSE IF e.alive_sessions # 0 THEN F(b13, "C13.SessionInstanceNotDropped")
                           ELSE b13
                      ELSE IF hooks[e.c] # 0 THEN F(b13, "C13.HookOnLiveConnection")
                           ELSE IF \E r \in tracked[e.c] : closes[r] # 0 THEN F(b13, "C13.ResourceOfLiveConnectionClosed")
                           ELSE IF e.srvclosed THEN F(b13, "C13.LiveConnectionClosed")
                           ELSE b13
            /\ b05' = IF ~ended[e.c] /\ ready[e.c] /\ e.srvclosed THEN F(b05, "C05.InnocentConnectionClosed") ELSE b05
            /\ Same(<<ready, ended, hooks, tracked, closes>>)
       [] e.e = "End" ->
            /\ b13' = IF e.slots # e.open THEN F(b13, "C13.SlotNotReleased") ELSE b13
            /\ b05' = IF ~e.loop_alive THEN F(b05, "C05.RequestLoopDied")
                      ELSE IF ~e.witness_ok THEN F(b05, "C05.WitnessDisturbed")
                      ELSE IF ~e.fresh_ok THEN F(b05, "C05.NoNewConnections")
                      ELSE IF e.slots # e.open THEN F(b05, "C05.AccountingNotRestored")
                      ELSE IF e.hang THEN F(b05, "C05.Hang")
                      ELSE b05
            /\ Same(<<ready, ended, hooks, tracked, closes, b08>>)
       [] OTHER -> Same(<<ready, ended, hooks, tracked, closes, b08, b13, b05>>)
Spec == Init /\ [][Step]_vars
Verdict == (l = Len(Tr) + 1) => PrintT(<<"VERDICT", t, b08 \o "|" \o b13 \o "|" \o b05>>)
=============================================================================
