------------------------- MODULE Trace_HookContext -------------------------
(***************************************************************************)
(* Trace validation for E14 (monitor).  One trace per script: per step the *)
(* action and the connection; for a connect step what the validator found  *)
(* in each field of the call context: "own" (of the connect message being  *)
(* validated), "stale" (of the message the thread served before) or        *)
(* "other"; whether the step was answered as it should be.                  *)
(***************************************************************************)
EXTENDS Naturals, Sequences, TLC, Json, IOUtils
Conns == {1, 2, 3}
VARIABLES ctx, connected
H == INSTANCE HookContext
Traces == JsonDeserialize(IOEnv.TRACE_FILE)
NT == Len(Traces)
VARIABLES t, l, bad
vars == <<t, l, bad, ctx, connected>>
X == Traces[t]
Init == t \in 1..NT /\ l = 1 /\ bad = "" /\ H!Init
Flag(c) == IF bad = "" THEN c ELSE bad
Step == /\ l <= Len(X.steps)
        /\ LET s == X.steps[l] IN
           /\ CASE s.a = "connect" -> H!Validate(s.c)
                [] s.a = "call" -> H!Call(s.c)
                [] OTHER -> H!Drop(s.c)
           /\ bad' = IF X.hang THEN Flag("E14.Hang")
                     ELSE IF ~s.ok THEN Flag("E14.StepNotAnswered")
                     ELSE IF s.a = "connect" /\ \E f \in H!Fields : s.saw[f] # "own"
                          THEN Flag("E14.ValidatorSaw_" \o (CHOOSE f \in H!Fields : s.saw[f] # "own") \o "_" \o s.saw[CHOOSE f \in H!Fields : s.saw[f] # "own"])
                     ELSE bad
        /\ l' = l + 1 /\ t' = t
Spec == Init /\ [][Step]_vars
Verdict == (l = Len(X.steps) + 1) => PrintT(<<"VERDICT", t, bad>>)
=============================================================================
