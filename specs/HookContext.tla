---------------------------- MODULE HookContext ----------------------------
(***************************************************************************)
(* What the handshake validator sees in the call context (extra module     *)
(* E14).                                                                    *)
(*                                                                          *)
(* A server thread serves one message after the other, of one connection   *)
(* (a worker of the thread pool, re-used for the next connection when one  *)
(* ends) or of many (the multiplex loop).  The call context is a property  *)
(* of the thread.  The library tells authors of a handshake validator that *)
(* they can inspect it (client, peer address, sequence number, flags,      *)
(* serializer, correlation id - examples/handshake); so while the          *)
(* validator runs for a connect message, every one of these describes that *)
(* message and its connection - not the request the thread served before,  *)
(* which may have been another peer's (a validator that admits peers by    *)
(* their address would otherwise judge the wrong one).                     *)
(***************************************************************************)
EXTENDS Naturals, Sequences
CONSTANT Conns
Fields == {"client", "addr", "seq", "flags", "serializer", "corr"}
VARIABLES ctx, connected
vars == <<ctx, connected>>
\* ctx: which message the thread's context describes: <<connection, kind>> with kind "connect" | "call", or <<0, "none">>
Init == ctx = <<0, "none">> /\ connected = {}
Validate(c) == c \notin connected /\ ctx' = <<c, "connect">> /\ connected' = connected \cup {c}
Call(c) == c \in connected /\ ctx' = <<c, "call">> /\ UNCHANGED connected
Drop(c) == c \in connected /\ connected' = connected \ {c} /\ UNCHANGED ctx
Next == \E c \in Conns : Validate(c) \/ Call(c) \/ Drop(c)
Spec == Init /\ [][Next]_vars
\* what the validator of connection c must find in every field while it runs
ValidatorSees(c) == <<c, "connect">>
ValidatorSeesItsOwnMessage == [][\A c \in Conns : Validate(c) => ctx' = ValidatorSees(c)]_vars
=============================================================================
