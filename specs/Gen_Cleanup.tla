----------------------------- MODULE Gen_Cleanup -----------------------------
(* Scenarios for C13: how an established connection ends, what it tracked before, and who else is connected.
   Derived from Daemon.tla's Teardown: every way of ending x resources tracked/untracked x a bystander connection. *)
EXTENDS Naturals, Sequences, TLC, Json
Endings == {"release", "reset", "abrupt_prefix", "abrupt_header", "abrupt_body", "reset_mid", "garbage", "bad_version",
            "wrong_msgtype", "oversized", "security", "timeout_mid", "timeout_idle", "unknown_serializer", "bad_annotations"}
VARIABLES ending, ntrack, untrack, bystander, session, hookraise, resraise, stream, done
Init == /\ ending \in Endings /\ ntrack \in 0..2 /\ untrack \in BOOLEAN /\ bystander \in BOOLEAN
        /\ session \in BOOLEAN /\ hookraise \in BOOLEAN /\ done = FALSE
        /\ resraise \in BOOLEAN      \* closing the first tracked resource raises
        /\ stream \in BOOLEAN        \* the connection has an unfinished streamed result when it ends
        /\ (untrack => ntrack > 0) /\ (resraise => ntrack > 0) /\ (stream => ~untrack /\ ~resraise)
Next == /\ ~done /\ done' = TRUE /\ UNCHANGED <<ending, ntrack, untrack, bystander, session, hookraise, resraise, stream>>
        /\ PrintT("SCRIPT " \o ToJson([ending |-> ending, ntrack |-> ntrack, untrack |-> untrack, bystander |-> bystander,
                                       session |-> session, hookraise |-> hookraise, resraise |-> resraise, stream |-> stream]))
=============================================================================
