---------------------------- MODULE Trace_Streams ----------------------------
(***************************************************************************)
(* Trace validation for C10 (monitor): the recorded run is replayed        *)
(* through the operators of Streams.tla; every fetch must give exactly     *)
(* what the model's table gives.  Events:                                  *)
(*  cfg(lifetime, linger, streaming)                                       *)
(*  Open(i, c, len, raiseAt, now, ok)   stream i opened on connection c    *)
(*  Next(i, c, out, item, now)  out: item | stop | raise | gone | other    *)
(*  BrokenNext(i, out), LostNext(i, c, out)  fetches that never reached    *)
(*    the server / whose reply never reached the client                    *)
(*  Close(i), Disconnect(c, now), Housekeep(now), End(size)                *)
(***************************************************************************)
EXTENDS Naturals, Sequences, FiniteSets, TLC, Json, IOUtils
CONSTANTS StreamIds, Conns, Lifetime, Linger, MaxTime, MaxLen
VARIABLES table, now, live, got, ended, opened
St == INSTANCE Streams
Traces == JsonDeserialize(IOEnv.TRACE_FILE)
NT == Len(Traces)
VARIABLES t, l, bad
vars == <<t, l, bad, table, now, live, got, ended, opened>>
Tr == Traces[t]
Cfg == Tr[1]
Flag(c) == IF bad = "" THEN c ELSE bad
Init == /\ t \in 1..NT /\ l = 2 /\ bad = "" /\ table = St!EmptyTbl /\ now = 0 /\ live = {} /\ opened = {}
        /\ got = <<>> /\ ended = <<>>
Keep == UNCHANGED <<now, live, got, ended, opened>>
Step ==
  /\ l <= Len(Tr) /\ l' = l + 1 /\ t' = t /\ Keep
  /\ LET e == Tr[l] IN
     CASE e.e = "Open" ->
            IF ~Cfg.streaming
            THEN /\ table' = table /\ bad' = IF e.ok THEN Flag("C10.StreamedAlthoughDisabled") ELSE bad
            ELSE /\ table' = St!DoOpen(table, e.i, e.c, e.now, e.len, e.raiseAt)
                 /\ bad' = IF ~e.ok THEN Flag("C10.OpenFailed") ELSE bad
       [] e.e = "Next" ->
            LET r == St!DoNext(table, e.i, e.c, e.now, Cfg.lifetime, Cfg.linger)
                \* exactly at the deadline the period "has passed" or has not, as one likes: an error is accepted there too
                atDeadline == /\ St!Has(table, e.i)
                              /\ \/ Cfg.lifetime > 0 /\ e.now - table[e.i].created = Cfg.lifetime
                                 \/ Cfg.linger > 0 /\ table[e.i].linger > 0 /\ e.now - table[e.i].linger = Cfg.linger IN
            IF atDeadline /\ e.out \in {"gone", "other"} THEN table' = St!Del(table, {e.i}) /\ bad' = bad ELSE
            /\ table' = r.tbl
            /\ bad' = IF e.out = "hang" THEN Flag("C10.Hang")
                      ELSE IF r.out = "gone" /\ e.out = "item" THEN Flag("C10.ItemFromForgottenStream")
                      ELSE IF r.out = "gone" /\ e.out \notin {"gone", "other"} THEN Flag("C10.ForgottenStreamNotAnError")
                      ELSE IF r.out = "item" /\ e.out = "item" /\ e.item # r.item THEN
                           (IF e.item < r.item THEN Flag("C10.ItemRepeated") ELSE Flag("C10.ItemSkippedOrForeign"))
                      ELSE IF r.out # "gone" /\ e.out # r.out THEN Flag("C10.WrongOutcome_" \o r.out \o "_got_" \o e.out)
                      ELSE bad
       \* a fetch on a connection the environment had cut: it never reaches the server; the client must see a communication error
       [] e.e = "BrokenNext" -> table' = table /\ bad' = IF e.out # "commerror" THEN Flag("C10.BrokenFetchNotACommunicationError_" \o e.out) ELSE bad
       \* a fetch that the server took up and answered, but the answer got lost: the stream has moved on, the client must see a
       \* communication error (not an item, not the end of the stream)
       [] e.e = "LostNext" -> /\ table' = St!DoNext(table, e.i, e.c, e.now, Cfg.lifetime, Cfg.linger).tbl
                              /\ bad' = IF e.out # "commerror" THEN Flag("C10.LostReplyNotACommunicationError_" \o e.out) ELSE bad
       [] e.e = "Close" -> table' = St!DoClose(table, e.i) /\ bad' = bad
       [] e.e = "Disconnect" -> table' = St!DoDisconnect(table, e.c, e.now, Cfg.linger) /\ bad' = bad
       [] e.e = "Housekeep" -> /\ table' = St!DoHousekeep(table, e.now, Cfg.lifetime, Cfg.linger)
                               /\ bad' = IF e.failed THEN Flag("C10.HousekeepingFailed") ELSE bad
       [] e.e = "End" -> /\ table' = table
                         /\ bad' = IF e.size # Cardinality(DOMAIN table) THEN
                                      (IF e.size > Cardinality(DOMAIN table) THEN Flag("C10.StreamNotForgotten") ELSE Flag("C10.StreamForgottenEarly"))
                                   ELSE bad
       [] OTHER -> table' = table /\ bad' = bad
Spec == Init /\ [][Step]_vars
Verdict == (l = Len(Tr) + 1) => PrintT(<<"VERDICT", t, bad>>)
=============================================================================
