INIT GInit
NEXT GNext
CHECK_DEADLOCK FALSE
