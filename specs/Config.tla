------------------------------- MODULE Config -------------------------------
(***************************************************************************)
(* Configuration from the environment (extra, beyond the listed            *)
(* properties).  Every configuration item has a default; a variable        *)
(* PYRO_<ITEM> in the environment overrides it when the configuration is   *)
(* (re)set with the environment in use.  The text of the variable is       *)
(* turned into the type of the item's default: a truth word for a switch,  *)
(* a number for a number, comma separated words for a list, and kept as    *)
(* text for a text item - including the items that have no default value   *)
(* (host names that are None unless set).  A text that does not fit, and a *)
(* variable that names no item, are refused with a ValueError.  With the   *)
(* environment not in use nothing of it matters.                           *)
(***************************************************************************)
ItemKinds == {"switch", "int", "float", "text", "list", "nodefault", "nosuchitem"}
Texts == {"true_word", "false_word", "decimal", "padded_decimal", "negative", "fraction", "word", "empty", "commas"}
Fits(k, t) ==
    CASE k = "switch" -> t \in {"true_word", "false_word", "decimal"}     \* (the decimal used is "1", which is a truth word too)
      [] k = "int" -> t \in {"decimal", "padded_decimal", "negative"}
      [] k = "float" -> t \in {"decimal", "padded_decimal", "negative", "fraction"}
      [] k \in {"text", "list", "nodefault"} -> TRUE
      [] k = "nosuchitem" -> FALSE
Outcome(k, t, useenv) == IF ~useenv THEN "default" ELSE IF Fits(k, t) THEN "value" ELSE "ValueError"
VARIABLES k, t, useenv
Init == k \in ItemKinds /\ t \in Texts /\ useenv \in BOOLEAN
Next == UNCHANGED <<k, t, useenv>>
Spec == Init /\ [][Next]_<<k, t, useenv>>
\* every item that exists can be set from the environment with some text
EveryItemSettable == \A kk \in ItemKinds \ {"nosuchitem"} : \E tt \in Texts : Outcome(kk, tt, TRUE) = "value"
Ignored == ~useenv => Outcome(k, t, useenv) = "default"
=============================================================================
