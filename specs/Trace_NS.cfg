SPECIFICATION Spec
CONSTANTS Names = {}
  Uris = {}
  Tags = {}
  Prefixes = {}
CONSTRAINT Verdict
CHECK_DEADLOCK FALSE
