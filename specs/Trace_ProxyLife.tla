-------------------------- MODULE Trace_ProxyLife --------------------------
(***************************************************************************)
(* Trace validation for the proxy life cycle (monitor).  One event per     *)
(* operation: op, thread, proxy, outcome (ok | notowner | other), the      *)
(* connection number the daemon served the call on (0 = nothing ran), the  *)
(* connected flag of every proxy afterwards, and the connection numbers    *)
(* the daemon holds afterwards.  The monitor steps ProxyLife's own action  *)
(* and compares.                                                           *)
(***************************************************************************)
EXTENDS ProxyLife, TLC, Json, IOUtils
Traces == JsonDeserialize(IOEnv.TRACE_FILE)
NT == Len(Traces)
VARIABLES tid, l, bad
tvars == <<vars, tid, l, bad>>
Tr == Traces[tid]
Range(q) == {q[i] : i \in 1..Len(q)}
Flag(c) == IF bad = "" THEN c ELSE bad
TInit == Init /\ tid \in 1..NT /\ l = 1 /\ bad = ""
Act(e) == CASE e.op = "call" -> Call(e.t, e.p) [] e.op = "bind" -> Bind(e.t, e.p) [] e.op = "release" -> Release(e.t, e.p)
            [] e.op = "reconnect" -> Reconnect(e.t, e.p) [] e.op = "claim" -> Claim(e.t, e.p) [] e.op = "copy" -> Copy(e.t, e.p)
            [] e.op = "scoped" -> Scoped(e.t, e.p)
TStep == /\ l <= Len(Tr) /\ l' = l + 1 /\ tid' = tid
         /\ LET e == Tr[l] IN
            /\ Act(e)
            /\ bad' = IF e.out # last'.out THEN
                         (IF last'.out = "notowner" THEN Flag("ProxyLife.NonOwnerNotRefused." \o e.op)
                          ELSE IF e.out = "notowner" THEN Flag("ProxyLife.OwnerRefused." \o e.op)
                          ELSE Flag("ProxyLife.OperationFailed." \o e.op))
                      ELSE IF e.served # last'.served THEN
                         (IF last'.served = 0 THEN Flag("ProxyLife.RefusedOperationReachedServer." \o e.op)
                          ELSE Flag("ProxyLife.ServedOnWrongConnection." \o e.op))
                      ELSE IF {p \in 1..np' : e.connected[p]} # {p \in 1..np' : conn'[p] # 0} THEN Flag("ProxyLife.ConnectedStateDiffers." \o e.op)
                      ELSE IF Range(e.server_conns) # {conn'[p] : p \in {q \in 1..np' : conn'[q] # 0}} THEN Flag("ProxyLife.ServerConnectionsDiffer." \o e.op)
                      ELSE bad
TSpec == TInit /\ [][TStep]_tvars
Verdict == (l = Len(Tr) + 1) => PrintT(<<"VERDICT", tid, bad>>)
=============================================================================
