------------------------------- MODULE Gen_NS -------------------------------
(* Operation histories for C14 (and the per-thread operations of C15): the full operation alphabet of the name server
   over an adversarial name pool.  Used with exhaustive search for short histories and with -simulate for long ones.
   Emits the history when it reaches the length bound. *)
EXTENDS Naturals, Sequences, FiniteSets, TLC, Json
CONSTANTS MaxLen
GNames == {<<>>, <<1>>, <<2>>, <<1, 1>>, <<1, 3>>, <<3>>, <<1, 4, 1>>, <<5>>, <<1, 6>>, <<7>>}
GArgs  == {<<>>, <<1>>, <<2>>, <<3>>, <<4>>, <<1, 3>>, <<1, 4>>, <<5>>, <<6>>, <<1, 6>>, <<7>>}
GTagSeqs == {<<>>, <<1>>, <<2>>, <<1, 2>>, <<1, 1>>, <<3>>, <<3, 1>>}
Kinds == {"prefix", "exact", "suffix", "contains", "any", "invalid"}
GOps == [op : {"register"}, name : GNames, uri : {1, 2}, safe : BOOLEAN, tags : GTagSeqs, meta : {FALSE}]
   \cup [op : {"remove"}, sel : {"name"}, arg : GNames, kind : {"none"}, meta : {FALSE}]
   \cup [op : {"remove"}, sel : {"prefix"}, arg : GArgs, kind : {"none"}, meta : {FALSE}]
   \cup [op : {"remove"}, sel : {"regex"}, arg : GArgs, kind : Kinds, meta : {FALSE}]
   \cup [op : {"set_metadata"}, name : GNames, tags : GTagSeqs, meta : {FALSE}]
   \cup [op : {"lookup"}, name : GNames, meta : BOOLEAN]
   \cup [op : {"list"}, sel : {"all"}, arg : {<<>>}, kind : {"none"}, meta : BOOLEAN]
   \cup [op : {"list"}, sel : {"prefix"}, arg : GArgs, kind : {"none"}, meta : BOOLEAN]
   \cup [op : {"list"}, sel : {"regex"}, arg : GArgs, kind : Kinds, meta : BOOLEAN]
   \cup [op : {"yplookup"}, mode : {"all", "any"}, tags : GTagSeqs, meta : BOOLEAN]
   \cup [op : {"count"}, meta : {FALSE}]
VARIABLE h
Init == h = <<>>
\* the history is printed by the action that leaves a full-length state, so that in -simulate mode only the state
\* actually chosen for the walk prints (a state constraint would print for every candidate successor)
Next == \/ Len(h) < MaxLen /\ \E o \in GOps : h' = Append(h, o)
        \/ Len(h) = MaxLen /\ PrintT("SCRIPT " \o ToJson(h)) /\ h' = Append(h, [op |-> "end"])
=============================================================================
