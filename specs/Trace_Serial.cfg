SPECIFICATION Spec
CONSTANTS Depth = 1
CONSTRAINT Verdict
CHECK_DEADLOCK FALSE
