SPECIFICATION Spec
CONSTANTS PSizes = {}
  AnnShapes = {}
  Limits = {}
CONSTRAINT Verdict
CHECK_DEADLOCK FALSE
