SPECIFICATION Spec
CONSTANTS Server = "thread"
  S = 0
  R = 0
  Durations = {}
  Idles = {}
  Timeouts = {}
  MaxTime = 0
CONSTRAINT Verdict
CHECK_DEADLOCK FALSE
