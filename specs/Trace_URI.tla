------------------------------ MODULE Trace_URI ------------------------------
(***************************************************************************)
(* Trace validation for C19 (monitor).  Two kinds of traces:               *)
(*  one  a concrete string s fed to the real URI parser: accepted?; then   *)
(*       reparse_ok / reparse_eq (URI(str(u)) accepted and equal),         *)
(*       fixed (str is a fixed point), hash_ok, and for every route        *)
(*       (serpent, json, marshal, msgpack, proxy state per serializer,     *)
(*       name server) whether what arrives equals what was sent            *)
(*  pair two accepted URIs: eq, hash_eq, and same = same protocol, object, *)
(*       host, port and socket name                                        *)
(*  made a daemon is asked to register an object under an id and hands out *)
(*       a uri for it (unless it refuses the id): the text of that uri     *)
(*       must be accepted again and designate that id at that daemon,      *)
(*       also after a trip through each serializer                         *)
(***************************************************************************)
EXTENDS Naturals, Sequences, TLC, Json, IOUtils
Traces == JsonDeserialize(IOEnv.TRACE_FILE)
NT == Len(Traces)
VARIABLES tr, l, bad
vars == <<tr, l, bad>>
X == Traces[tr]
Init == tr \in 1..NT /\ l = 1 /\ bad = ""
FirstBadRoute(x) == IF \E i \in 1..Len(x.routes) : ~x.routes[i].eq
                    THEN x.routes[CHOOSE i \in 1..Len(x.routes) : ~x.routes[i].eq /\ \A j \in 1..(i - 1) : x.routes[j].eq].name ELSE ""
Check(x) ==
    IF x.kind = "one" THEN
       IF ~x.accepted THEN ""
       ELSE IF ~x.reparse_ok THEN "C19.TextFormNotAccepted"
       ELSE IF ~x.reparse_eq THEN "C19.TextFormParsesToDifferentURI"
       ELSE IF ~x.fixed THEN "C19.TextFormNotFixedPoint"
       ELSE IF ~x.hash_ok THEN "C19.EqualButDifferentHash"
       ELSE IF FirstBadRoute(x) # "" THEN "C19.ChangedInTransit." \o FirstBadRoute(x)
       ELSE ""
    ELSE IF x.kind = "made" THEN
       IF x.refused THEN ""
       ELSE IF ~x.reparse_ok THEN "C19.TextFormNotAccepted"
       ELSE IF ~x.designates THEN "C19.HandedOutUriDesignatesAnother"
       ELSE IF FirstBadRoute(x) # "" THEN "C19.ChangedInTransit." \o FirstBadRoute(x)
       ELSE ""
    ELSE
       IF x.eq /\ ~x.same THEN "C19.UnequalLocationsCompareEqual"
       ELSE IF x.same /\ ~x.eq THEN "C19.SameURIComparesUnequal"
       ELSE IF x.eq /\ ~x.hash_eq THEN "C19.EqualButDifferentHash"
       ELSE ""
Step == l = 1 /\ l' = 2 /\ tr' = tr /\ bad' = Check(X)
Spec == Init /\ [][Step]_vars
Verdict == (l = 2) => PrintT(<<"VERDICT", tr, bad>>)
=============================================================================
