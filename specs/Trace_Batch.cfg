SPECIFICATION Spec
CONSTANTS Calls = {}
  MaxLen = 0
CONSTRAINT Verdict
CHECK_DEADLOCK FALSE
