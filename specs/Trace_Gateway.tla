---------------------------- MODULE Trace_Gateway ----------------------------
(***************************************************************************)
(* Trace validation for C20 (monitor).  One trace per HTTP request:        *)
(*  r         the abstract request                                         *)
(*  status    HTTP status                                                  *)
(*  traffic   Pyro messages the gateway sent while handling it             *)
(*  inv       executions of any member of any object behind the gateway    *)
(*  inv_right every execution was the named member of the named object     *)
(*            with exactly the query parameters                            *)
(*  body      result (the JSON value that execution returned) | exception  *)
(*            (JSON of the error it raised) | meta | other                 *)
(*  index_leak  the index page names a registered object that does not     *)
(*            match the pattern                                            *)
(***************************************************************************)
EXTENDS Naturals, Sequences, TLC, Json, IOUtils
VARIABLE r
G == INSTANCE Gateway
Traces == JsonDeserialize(IOEnv.TRACE_FILE)
NT == Len(Traces)
VARIABLES t, l, bad
vars == <<t, l, bad, r>>
X == Traces[t]
Init == t \in 1..NT /\ l = 1 /\ bad = "" /\ r = [meth |-> ""]
FwdVerdict(x) ==
    LET fw == G!Forward(x.r) IN
    IF x.inv # fw.inv THEN (IF x.inv > fw.inv THEN "C20.InvokedMoreThanAsked" ELSE "C20.NotInvoked")
    ELSE IF fw.inv = 1 /\ ~x.inv_right THEN "C20.WrongInvocation"
    ELSE IF x.status # fw.status THEN "C20.WrongStatus"
    ELSE IF fw.body \notin {"any", "error"} /\ x.body # fw.body THEN "C20.WrongBody"
    ELSE ""
Check(x) ==
    LET d == G!Decide(x.r) IN
    IF d \in {"redirect", "notfound", "badmethod", "preflight", "denied"} THEN
         (IF x.traffic > 0 \/ x.inv > 0 THEN "C20.TrafficForRefusedRequest"
          ELSE IF d = "notfound" /\ x.status # 404 THEN "C20.WrongRefusalStatus"
          ELSE IF d = "badmethod" /\ x.status # 405 THEN "C20.WrongRefusalStatus"
          ELSE IF d = "denied" /\ x.status # 403 THEN "C20.WrongRefusalStatus"
          ELSE IF d = "redirect" /\ ~(x.status \in 300..399 \/ x.status = 404) THEN "C20.WrongRefusalStatus"
          ELSE "")
    ELSE IF d = "index" THEN
         (IF x.inv > 0 THEN "C20.IndexInvokesMembers"
          ELSE IF x.index_leak THEN "C20.IndexListsUnexposedObject"
          ELSE IF x.status # 200 THEN "C20.WrongStatus"
          ELSE "")
    ELSE IF d = "forward" THEN FwdVerdict(x)
    ELSE (IF x.traffic = 0 /\ x.inv = 0 /\ x.status = 403 THEN ""
          ELSE IF FwdVerdict(x) = "" THEN ""
          ELSE "C20.NeitherDeniedNorForwarded")
Step == l = 1 /\ l' = 2 /\ t' = t /\ bad' = Check(X) /\ UNCHANGED r
Spec == Init /\ [][Step]_vars
Verdict == (l = 2) => PrintT(<<"VERDICT", t, bad>>)
=============================================================================
