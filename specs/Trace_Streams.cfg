SPECIFICATION Spec
CONSTANTS StreamIds = {}
  Conns = {}
  Lifetime = 0
  Linger = 0
  MaxTime = 0
  MaxLen = 0
CONSTRAINT Verdict
CHECK_DEADLOCK FALSE
