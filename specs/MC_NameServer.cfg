SPECIFICATION Spec
CONSTANTS
  Names <- MCNames
  Uris = {1, 2}
  Tags = {1, 2}
  Prefixes <- MCPrefixes
INVARIANT ReservedStays
PROPERTY RemoveCountExact
PROPERTY SafeNeverOverwrites
PROPERTY PrefixIsLiteral
CHECK_DEADLOCK FALSE
