----------------------------- MODULE Trace_Serial -----------------------------
(***************************************************************************)
(* Trace validation for C01 (monitor).  One trace per (value, serializer,  *)
(* compression, level): the abstract value sent and, per position          *)
(* (positional, keyword, nested, result, batch, stream), whether it was    *)
(* accepted and the abstract shape of what arrived; plus the exact facts   *)
(* computed on the Python values: sym (what the method saw equals what the *)
(* caller got), idem (sending the received value again changes nothing),   *)
(* exact (every position equals the value sent).                           *)
(***************************************************************************)
EXTENDS Naturals, Sequences, FiniteSets, TLC, Json, IOUtils
CONSTANT Depth
VARIABLES v, s
Sr == INSTANCE Serial
Traces == JsonDeserialize(IOEnv.TRACE_FILE)
NT == Len(Traces)
VARIABLES t, l, bad
vars == <<t, l, bad, v, s>>
X == Traces[t]
Range(q) == {q[i] : i \in 1..Len(q)}
RECURSIVE Norm(_)
Norm(j) == [k |-> j.k, c |-> {Norm(x) : x \in Range(j.c)}]
Init == t \in 1..NT /\ l = 1 /\ bad = "" /\ v = 0 /\ s = ""
\* expN: what is expected one container level down inside an argument (marshal converts foreign objects only at the top)
\* expB: a batch result is an item of the list of results, i.e. it sits one level down in a list at the top
PosCheck(x, exp0, expN, expB) ==
    LET Exp(i) == IF x.pos[i].name = "nested" THEN expN ELSE IF x.pos[i].name = "batch" THEN expB ELSE exp0
        badpos == {i \in 1..Len(x.pos) :
                     \/ (Exp(i) = Sr!Err /\ x.pos[i].out # "err")
                     \/ (Exp(i) # Sr!Err /\ (x.pos[i].out # "ok" \/ Norm(x.pos[i].shape) # Exp(i)))} IN
    IF badpos = {} THEN ""
    ELSE LET i == CHOOSE j \in badpos : \A m \in badpos : j <= m
             exp == Exp(i) IN
         IF exp = Sr!Err THEN "C01.RefusedTypeAccepted." \o x.pos[i].name
         ELSE IF x.pos[i].out # "ok" THEN "C01.SupportedValueRefused." \o x.pos[i].name
         ELSE "C01.MappingDiffers." \o x.pos[i].name
Check(x) ==
    LET sent == Norm(x.v)
        exp == Sr!Map(x.ser, sent)
        expB == Sr!MapAt(x.ser, sent, TRUE, 1)
        pc == PosCheck(x, exp, Sr!MapAt(x.ser, sent, FALSE, 1), expB) IN
    IF x.hang THEN "C01.Hang"
    ELSE IF ~x.sym THEN "C01.ArgumentsAndResultsMappedDifferently"
    ELSE IF pc # "" THEN pc
    ELSE IF exp # Sr!Err /\ expB = exp /\ ~x.bsame THEN "C01.BatchResultDiffersFromResult"
    ELSE IF exp # Sr!Err /\ ~x.ssame THEN "C01.StreamedItemDiffersFromResult"
    ELSE IF ~x.idem THEN "C01.MappingNotIdempotent"
    ELSE IF Sr!Core(sent) /\ ~x.exact THEN "C01.CoreValueChanged"
    ELSE ""
Step == l = 1 /\ l' = 2 /\ t' = t /\ bad' = Check(X) /\ UNCHANGED <<v, s>>
Spec == Init /\ [][Step]_vars
Verdict == (l = 2) => PrintT(<<"VERDICT", t, bad>>)
=============================================================================
