INIT Init
NEXT Next
CONSTANTS MaxN = 2
  MaxLen = 2
CONSTRAINT Emit
CHECK_DEADLOCK FALSE
