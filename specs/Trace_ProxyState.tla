-------------------------- MODULE Trace_ProxyState --------------------------
(***************************************************************************)
(* Trace validation for E11 (monitor).  One trace per case: the route, the  *)
(* class, whether the original was connected, the serializer; whether the   *)
(* proxy arrived; per setting what it is at the other side (own | default | *)
(* off | other); the class it has there; connected / owner there; whether   *)
(* a call through it reaches the original's object; and whether the         *)
(* original is as it was.                                                   *)
(***************************************************************************)
EXTENDS Naturals, Sequences, TLC, Json, IOUtils
VARIABLES route, class, connected
PS == INSTANCE ProxyState
Traces == JsonDeserialize(IOEnv.TRACE_FILE)
NT == Len(Traces)
VARIABLES t, l, bad
vars == <<t, l, bad, route, class, connected>>
X == Traces[t]
Init == t \in 1..NT /\ l = 1 /\ bad = "" /\ route = "" /\ class = "" /\ connected = FALSE
Settings == PS!Carried \cup PS!Local
Check(x) ==
    IF x.hang THEN "E11.Hang"
    ELSE IF ~PS!Arrives(x.route, x.class, x.ser) THEN (IF x.arrived THEN "E11.UnknownSubclassAccepted" ELSE "")
    ELSE IF ~x.arrived THEN "E11.ProxyRefused"
    ELSE IF \E s \in Settings : x.after[s] # PS!After(x.route, s)
         THEN "E11.Setting_" \o (CHOOSE s \in Settings : x.after[s] # PS!After(x.route, s)) \o "_is_" \o x.after[CHOOSE s \in Settings : x.after[s] # PS!After(x.route, s)]
    ELSE IF x.class_after # PS!ClassAfter(x.route, x.class) THEN "E11.ClassAfter"
    ELSE IF x.connected_after THEN "E11.ArrivesConnected"
    ELSE IF ~x.owned_by_receiver THEN "E11.NotOwnedByReceiver"
    ELSE IF ~x.reaches THEN "E11.DoesNotReachTheObject"
    ELSE IF ~x.original_intact THEN "E11.OriginalChanged"
    ELSE ""
Step == l = 1 /\ l' = 2 /\ t' = t /\ bad' = Check(X) /\ UNCHANGED <<route, class, connected>>
Spec == Init /\ [][Step]_vars
Verdict == (l = 2) => PrintT(<<"VERDICT", t, bad>>)
=============================================================================
