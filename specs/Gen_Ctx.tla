------------------------------- MODULE Gen_Ctx -------------------------------
(* Call histories for C12: two clients issuing requests of every kind that can set a response annotation, raise, run in a
   oneway thread, be batched, or be answered outside the normal reply path (ping, stream result, new handshake). *)
EXTENDS Naturals, Sequences, TLC, Json
CONSTANT MaxLen
Kinds == {"setann", "setann_inplace", "setann_raise", "plain", "raise", "oneway_setann", "oneway_inplace", "batch_setann",
          "batch_raise", "ping", "reconnect", "getattr_setann", "stream_setann", "unknown_member",
          \* a request that carries no annotations at all; a method that writes into the request annotations it was given;
          \* a oneway request whose connection is reset before the daemon has read it
          "plain_noann", "mutate_reqann", "oneway_then_reset"}
Steps == [c : {1, 2}, kind : Kinds]
VARIABLE h
Init == h = <<>>
Next == \/ Len(h) < MaxLen /\ \E s \in Steps : h' = Append(h, s)
        \/ Len(h) = MaxLen /\ PrintT("SCRIPT " \o ToJson(h)) /\ h' = Append(h, [c |-> 0, kind |-> "end"])
=============================================================================
