SPECIFICATION MCSpec
CONSTANTS WhichOps = "B"
  Mux = FALSE
INVARIANT OnewayNeverWaitedFor
INVARIANT ReplyAfterEnd
INVARIANT OneAtATime
PROPERTY AllDone
PROPERTY Forward
CHECK_DEADLOCK FALSE
