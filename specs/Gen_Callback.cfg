INIT GInit
NEXT GNext
CONSTANT R = 0
CONSTANT MaxLen = 3
CHECK_DEADLOCK FALSE
