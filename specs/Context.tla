------------------------------ MODULE Context ------------------------------
(***************************************************************************)
(* Per-call context and response annotations (C12).                        *)
(*                                                                         *)
(* A serving thread handles one request at a time for whichever client the *)
(* transport gives it (multiplex: one thread for all clients; thread pool: *)
(* a worker reused by successive connections).  Its thread-local state is  *)
(* the call context (connection, sequence number, ...) and the response    *)
(* annotations a method may set.  A request is handled by: taking it,      *)
(* optionally clearing the response annotations (ClearAtStart: the fixed   *)
(* code; the pinned code cleared them only after a normal reply), running  *)
(* the method (which may set an annotation and may raise), replying with   *)
(* the thread's response annotations.  A oneway call runs in a thread of   *)
(* its own that received a snapshot of the context.                        *)
(***************************************************************************)
EXTENDS Naturals, FiniteSets, Sequences
CONSTANTS Clients, Threads, MaxReq, ClearAtStart
Kinds == {"setann", "setann_raise", "plain", "oneway_setann", "ping", "handshake"}
VARIABLES nreq,       \* requests issued so far (request ids 1..nreq)
          respAnn,    \* thread -> set of request ids whose annotation is currently in the thread's response annotations
          ctx,        \* thread -> request id the thread's call context describes (0 = none)
          replies,    \* log: [req, anns] annotations that travelled with the reply to request req
          seen,       \* log: [req, ctx] the context a method observed while serving req
          owner       \* request id -> client
vars == <<nreq, respAnn, ctx, replies, seen, owner>>
Init == nreq = 0 /\ respAnn = [th \in Threads |-> {}] /\ ctx = [th \in Threads |-> 0]
        /\ replies = <<>> /\ seen = <<>> /\ owner = <<>>

Handle(th, c, k) ==
    LET r == nreq + 1
        start == IF ClearAtStart THEN {} ELSE respAnn[th]
        during == IF k \in {"setann", "setann_raise"} THEN {r} ELSE start      \* the method assigns its own annotation
        sent == IF k = "oneway_setann" THEN {} ELSE during                      \* a oneway request gets no reply at all
        after == IF k \in {"setann", "plain"} THEN {} ELSE during               \* cleared after a normal reply only
    IN
    /\ nreq < MaxReq /\ nreq' = r /\ owner' = Append(owner, c)
    /\ ctx' = [ctx EXCEPT ![th] = IF k \in {"ping", "handshake"} THEN @ ELSE r]
    /\ seen' = IF k \in {"ping", "handshake"} THEN seen ELSE Append(seen, [req |-> r, ctx |-> r])
    /\ replies' = IF k = "oneway_setann" THEN replies ELSE Append(replies, [req |-> r, anns |-> sent])
    /\ respAnn' = [respAnn EXCEPT ![th] = IF k \in {"ping", "handshake"} THEN start ELSE after]
Next == \E th \in Threads, c \in Clients, k \in Kinds : Handle(th, c, k)
Spec == Init /\ [][Next]_vars

\* response annotations a method sets travel at most with the reply to that same call
AnnOwn == \A i \in 1..Len(replies) : replies[i].anns \subseteq {replies[i].req}
\* the context a method reads is that of the request being served
CtxOwn == \A i \in 1..Len(seen) : seen[i].ctx = seen[i].req
=============================================================================
