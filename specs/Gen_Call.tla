------------------------------ MODULE Gen_Call ------------------------------
(* Fault scripts for C03: every sequence (up to MaxLen) of calls on one proxy, each with a call kind and the fault the
   adversary applies to its first attempt.  Oneway requests have no reply, so only the request-side fault applies. *)
EXTENDS Naturals, Sequences, TLC, Json
CONSTANTS MaxLen
\* fetch: the next item of a remote iterator that the script opened (fault free) on the same proxy
Kinds == {"normal", "oneway", "batch", "getattr", "raise", "fetch"}
Faults == {"none", "lose", "delay", "cut", "cut_reset", "reset_before", "reset_after", "stale", "seqalter", "dup"}
\* sticky: the fault hits every attempt of the call (retries included), not only the first
Retryable == {"lose", "delay", "cut", "cut_reset", "reset_before", "reset_after"}
Steps == {s \in [kind : Kinds, fault : Faults, sticky : BOOLEAN] :
             /\ (s.kind = "oneway" => s.fault \in {"none", "reset_before"})
             /\ (s.sticky => s.fault \in Retryable /\ s.kind \in {"normal", "raise"})}
VARIABLE h
Init == h = <<>>
Next == \/ Len(h) < MaxLen /\ \E s \in Steps : h' = Append(h, s)
        \/ Len(h) = MaxLen /\ PrintT("SCRIPT " \o ToJson(h)) /\ h' = Append(h, [kind |-> "end", fault |-> "none", sticky |-> FALSE])
=============================================================================
