--------------------------- MODULE Trace_Registry ---------------------------
(***************************************************************************)
(* Trace validation for C16 (monitor): a recorded history on a real daemon *)
(* is replayed through the operators of Registry.tla.  Events:             *)
(*  register(o, id, force, weak, out, gotid)  out: ok | DaemonError |      *)
(*            TypeError | other; id "gen" = generated id, named gotid      *)
(*  unregister_id(id, out) / unregister_obj(o, out) / gc(o)                *)
(*  call(id, target)      target = object whose log recorded the call,     *)
(*                        0 = "unknown object" error, -1 = anything else   *)
(*  listing(ids)          ids the daemon reports (without its own and the  *)
(*                        harness helper)                                  *)
(*  return(o, kind, target, autoproxy)  kind: proxy | value | error        *)
(*  urifor(o, id)         id = "" when refused                             *)
(***************************************************************************)
EXTENDS Naturals, Sequences, FiniteSets, TLC, Json, IOUtils
VARIABLES reg, held, ngen
R == INSTANCE Registry
Traces == JsonDeserialize(IOEnv.TRACE_FILE)
NT == Len(Traces)
VARIABLES t, l, bad
vars == <<t, l, bad, reg, held, ngen>>
Tr == Traces[t]
Flag(c) == IF bad = "" THEN c ELSE bad
Range(s) == {s[i] : i \in 1..Len(s)}
Init == t \in 1..NT /\ l = 1 /\ bad = "" /\ reg = R!EmptyReg /\ held = R!Objects /\ ngen = 0
Step ==
  /\ l <= Len(Tr) /\ l' = l + 1 /\ t' = t /\ UNCHANGED ngen
  /\ LET e == Tr[l] IN
     CASE e.a = "register" ->
            LET i == IF e.id = "gen" THEN e.gotid ELSE e.id
                r == R!DoRegister(reg, e.o, i, e.force, e.weak) IN
            /\ reg' = (IF e.id = "gen" /\ r.out # "ok" THEN reg ELSE r.reg)
            /\ held' = held
            /\ bad' = IF ~e.daemon_kept THEN Flag("C16.DaemonObjectGoneOrReplaced")
                      ELSE IF e.out # r.out THEN
                         (IF r.out = "ok" THEN Flag("C16.RegistrationRefused")
                          ELSE IF e.out = "ok" THEN Flag("C16.SecondRegistrationNotRefused") ELSE Flag("C16.RegisterWrongError"))
                      ELSE bad
       [] e.a = "unregister_id" ->
            /\ reg' = (IF e.id = "daemon" THEN reg ELSE R!DoUnregisterId(reg, e.id))
            /\ held' = held
            /\ bad' = IF ~e.daemon_kept THEN Flag("C16.DaemonObjectGoneOrReplaced")
                      ELSE IF e.out # "ok" THEN Flag("C16.UnregisterFailed") ELSE bad
       [] e.a = "unregister_obj" ->
            /\ reg' = R!DoUnregisterObj(reg, e.o) /\ held' = held
            /\ bad' = IF ~e.daemon_kept THEN Flag("C16.DaemonObjectGoneOrReplaced")
                      ELSE IF R!Registered(reg, e.o) /\ e.out # "ok" THEN Flag("C16.UnregisterFailed")
                      ELSE IF e.out \notin {"ok", "DaemonError"} THEN Flag("C16.UnregisterWrongError") ELSE bad
       [] e.a = "gc" -> reg' = R!DoGc(reg, e.o) /\ held' = held \ {e.o} /\ bad' = bad
       [] e.a = "call" ->
            /\ UNCHANGED <<reg, held>>
            /\ bad' = IF e.target # R!CallTarget(reg, e.id) THEN
                         (IF R!CallTarget(reg, e.id) = 0 THEN Flag("C16.UnregisteredIdStillReachable")
                          ELSE IF e.target = 0 THEN Flag("C16.RegisteredIdUnknown") ELSE Flag("C16.CallReachedWrongObject"))
                      ELSE bad
       [] e.a = "listing" ->
            /\ UNCHANGED <<reg, held>>
            /\ bad' = IF Range(e.ids) # DOMAIN reg THEN Flag("C16.ListingNotRegistry")
                      ELSE IF ~e.daemon_listed THEN Flag("C16.DaemonObjectGone") ELSE bad
       [] e.a = "return" ->
            /\ UNCHANGED <<reg, held>>
            /\ bad' = IF ~e.autoproxy THEN bad
                      ELSE IF R!Registered(reg, e.o)
                      THEN (IF e.kind # "proxy" THEN Flag("C16.RegisteredObjectNotProxied_" \o e.kind)
                            ELSE IF e.target # e.o THEN Flag("C16.ProxyReachesWrongObject") ELSE bad)
                      ELSE (IF e.kind # "value" THEN Flag("C16.UnregisteredObjectNotByValue_" \o e.kind) ELSE bad)
       [] e.a = "urifor" ->
            /\ UNCHANGED <<reg, held>>
            /\ bad' = IF R!Registered(reg, e.o) /\ ~(e.id \in DOMAIN reg /\ reg[e.id].obj = e.o) THEN Flag("C16.UriForWrong")
                      ELSE IF ~R!Registered(reg, e.o) /\ e.id # "" THEN Flag("C16.UriForUnregisteredObject") ELSE bad
       [] OTHER -> UNCHANGED <<reg, held>> /\ bad' = Flag("Monitor.UnknownEvent")
Spec == Init /\ [][Step]_vars
Verdict == (l = Len(Tr) + 1) => PrintT(<<"VERDICT", t, bad>>)
=============================================================================
