INIT Init
NEXT Next
CONSTANTS NThreads = 2
CHECK_DEADLOCK FALSE
