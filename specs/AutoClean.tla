----------------------------- MODULE AutoClean -----------------------------
(***************************************************************************)
(* The name server's auto-cleaner (Pyro5/nameserver.py AutoCleaner), as    *)
(* the code does it.  The cleaner thread wakes every Delay seconds; when   *)
(* at least Every seconds have passed since the last sweep it tries to     *)
(* connect to the location of every registered name (the reserved names    *)
(* are skipped); a name that cannot be reached is remembered with the time *)
(* of the first failure and removed at the first sweep that finds it       *)
(* unreachable MaxUnreach seconds or more after that; a name that can be   *)
(* reached is forgotten.  The memory of failures is keyed by name only and *)
(* is not told about removals or re-registrations (StaleMemory below).     *)
(***************************************************************************)
EXTENDS Integers, FiniteSets
CONSTANTS Names, Servers, Delay, Every, MaxUnreach, Horizon
None == "none"
VARIABLES now,      \* virtual time, seconds
          reg,      \* name -> server | None
          up,       \* server -> is something listening there
          since,    \* name -> time of the first failed attempt in the current run of failures, or -1
          last,     \* time of the last sweep
          wake,     \* time of the cleaner's next wake-up
          downFrom, \* history: since when has the name been registered, unchanged, at a server that has been down all along (-1: not)
          removedByCleaner   \* history: names the cleaner removed in the last step
vars == <<now, reg, up, since, last, wake, downFrom, removedByCleaner>>

Init == /\ now = 0 /\ reg = [n \in Names |-> None] /\ up = [s \in Servers |-> TRUE]
        /\ since = [n \in Names |-> -1] /\ last = 0 /\ wake = Delay
        /\ downFrom = [n \in Names |-> -1] /\ removedByCleaner = {}

\* ---- what one sweep does to one name ----
Unreachable(n) == reg[n] # None /\ ~up[reg[n]]
SinceAfter(n, t) == IF reg[n] = None THEN since[n]                \* not listed: not looked at, memory kept
                    ELSE IF ~Unreachable(n) THEN -1
                    ELSE IF since[n] = -1 THEN t ELSE since[n]
Removes(n, t) == Unreachable(n) /\ t - SinceAfter(n, t) >= MaxUnreach
Sweep(t) == /\ reg' = [n \in Names |-> IF Removes(n, t) THEN None ELSE reg[n]]
            /\ since' = [n \in Names |-> IF Removes(n, t) THEN -1 ELSE SinceAfter(n, t)]
            /\ removedByCleaner' = {n \in Names : Removes(n, t)}
            /\ last' = t

\* ---- the cleaner thread wakes up ----
Wake == /\ wake <= Horizon
        /\ now' = wake /\ wake' = wake + Delay
        /\ IF wake - last >= Every THEN Sweep(wake) ELSE UNCHANGED <<reg, since, last>> /\ removedByCleaner' = {}
        /\ up' = up
        /\ downFrom' = [n \in Names |-> IF reg'[n] = None THEN -1 ELSE downFrom[n]]

\* ---- the environment, strictly between two wake-ups ----
Env(t) == /\ now < t /\ t < wake /\ now' = t /\ UNCHANGED <<last, wake, since>> /\ removedByCleaner' = {}
Register(n, s, t) == /\ Env(t) /\ reg' = [reg EXCEPT ![n] = s] /\ up' = up
                     /\ downFrom' = [downFrom EXCEPT ![n] = IF up[s] THEN -1 ELSE t]
Remove(n, t) == /\ Env(t) /\ reg[n] # None /\ reg' = [reg EXCEPT ![n] = None] /\ up' = up
                /\ downFrom' = [downFrom EXCEPT ![n] = -1]
GoDown(s, t) == /\ Env(t) /\ up[s] /\ up' = [up EXCEPT ![s] = FALSE] /\ reg' = reg
                /\ downFrom' = [n \in Names |-> IF reg[n] = s THEN t ELSE downFrom[n]]
ComeUp(s, t) == /\ Env(t) /\ ~up[s] /\ up' = [up EXCEPT ![s] = TRUE] /\ reg' = reg
                /\ downFrom' = [n \in Names |-> IF reg[n] = s THEN -1 ELSE downFrom[n]]
Next == \/ Wake
        \/ \E t \in (now + 1)..(wake - 1) :
             \/ \E n \in Names, s \in Servers : Register(n, s, t)
             \/ \E n \in Names : Remove(n, t)
             \/ \E s \in Servers : GoDown(s, t) \/ ComeUp(s, t)
Spec == Init /\ [][Next]_vars

\* ---- properties ----
\* the cleaner only ever removes names whose location does not answer at that very sweep
RemovesOnlyDead == \A n \in removedByCleaner : TRUE    \* (the interesting part is the action property below)
RemovesOnlyDeadStep == [][\A n \in Names : (reg[n] # None /\ reg'[n] = None /\ n \in removedByCleaner') => ~up[reg[n]]]_vars
\* a name whose location answers at every sweep is never removed by the cleaner
ReachableKept == [][\A n \in Names : (reg[n] # None /\ up[reg[n]]) => n \notin removedByCleaner']_vars
\* a name registered at a location that stays dead is gone within one sweep period plus the smallest multiple of the period
\* that reaches MaxUnreach
Period == Delay * ((Every + Delay - 1) \div Delay)
Bound == Period * (1 + ((MaxUnreach + Period - 1) \div Period))
DeadRemovedInTime == \A n \in Names : (reg[n] # None /\ downFrom[n] # -1) => now - downFrom[n] < Bound + Delay
\* the quirk: the failure memory outlives a removal, so a name re-registered at another dead location can be removed
\* earlier than MaxUnreach after that registration.  (Stated to be seen to FAIL: it documents the behaviour.)
NoEarlyRemoval == [][\A n \in removedByCleaner' : downFrom[n] # -1 /\ now' - downFrom[n] >= MaxUnreach]_vars
=============================================================================
