----------------------------- MODULE Gen_Config -----------------------------
EXTENDS Config, Sequences, TLC, Json
VARIABLE done
GInit == done = FALSE /\ k = "switch" /\ t = "word" /\ useenv = TRUE
GNext == /\ ~done /\ done' = TRUE /\ UNCHANGED <<k, t, useenv>>
         /\ \A kk \in ItemKinds, tt \in Texts, u \in BOOLEAN : PrintT("SCRIPT " \o ToJson([k |-> kk, t |-> tt, useenv |-> u]))
=============================================================================
