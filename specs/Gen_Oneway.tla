----------------------------- MODULE Gen_Oneway -----------------------------
(* Scripts for E05: a list of requests (connection A: one to three, connection B: none or one) and an order of environment
   steps - go(c): client c may issue its next request; release(k): the slow method of request k may finish.  Every order of
   the environment steps is a script; the daemon's and the clients' own steps follow from the model. *)
EXTENDS Naturals, Sequences, FiniteSets, TLC, Json
Kinds == {"call", "ow", "owbatch"}
Ms == {"fast", "slow", "raise"}
OpA == [c : {"A"}, kind : Kinds, m : Ms]
OpB == [c : {"B"}, kind : Kinds, m : {"fast", "slow"}]
VARIABLES ops, h, goleft, relleft
Count(s, c) == Cardinality({k \in 1..Len(s) : s[k].c = c})
Init == /\ \E na \in 1..3 : \E a \in [1..na -> OpA] : \E pos \in 0..na : \E b \in OpB \cup {[c |-> "-", kind |-> "-", m |-> "-"]} :
             ops = IF b.c = "-" THEN a ELSE SubSeq(a, 1, pos) \o <<b>> \o SubSeq(a, pos + 1, na)
        /\ h = <<>>
        /\ goleft = [c \in {"A", "B"} |-> Count(ops, c)]
        /\ relleft = {k \in 1..Len(ops) : ops[k].m = "slow"}
Next == \/ \E c \in {"A", "B"} : goleft[c] > 0 /\ goleft' = [goleft EXCEPT ![c] = @ - 1] /\ h' = Append(h, [a |-> "go", c |-> c, k |-> 0])
                                 /\ UNCHANGED <<ops, relleft>>
        \/ \E k \in relleft : relleft' = relleft \ {k} /\ h' = Append(h, [a |-> "release", c |-> "-", k |-> k]) /\ UNCHANGED <<ops, goleft>>
        \/ /\ goleft = [c \in {"A", "B"} |-> 0] /\ relleft = {} /\ Len(h) > 0 /\ h[Len(h)].a # "end"
           /\ PrintT("SCRIPT " \o ToJson([ops |-> ops, env |-> h]))
           /\ h' = Append(h, [a |-> "end", c |-> "-", k |-> 0]) /\ UNCHANGED <<ops, goleft, relleft>>
=============================================================================
