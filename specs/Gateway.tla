------------------------------ MODULE Gateway ------------------------------
(***************************************************************************)
(* The HTTP gateway as a decision procedure (C20).                         *)
(*                                                                         *)
(* A request: HTTP method, path shape, the class of the object name in the *)
(* path relative to what is registered and exposed, the member asked for,  *)
(* the key configuration and the keys presented (header, $key parameter),  *)
(* the expose pattern, the oneway option and the query parameter shape.    *)
(* Decide says what the gateway may do: refuse without Pyro traffic,       *)
(* answer the CORS preflight, serve its index page, or forward.  Forward   *)
(* says what exactly is invoked and what the HTTP client gets back.        *)
(***************************************************************************)
EXTENDS Naturals, FiniteSets
HttpMethods == {"GET", "POST", "OPTIONS", "PUT", "DELETE", "HEAD"}
\* root: "/"; pyro_noslash: "/pyro"; index: "/pyro/"; one_seg: "/pyro/obj"; obj_trailing: "/pyro/obj/";
\* call: "/pyro/obj/member"; extra_seg: "/pyro/obj/x/member" (what an encoded slash in the name becomes); outside: "/other/obj/member"
\* lead_seg: "/pyro//obj/member" or "/pyro/./obj/member" - the object name begins with an empty or a dot segment
PathShapes == {"root", "pyro_noslash", "index", "one_seg", "obj_trailing", "call", "extra_seg", "lead_seg", "outside"}
CallPaths == {"call", "extra_seg", "lead_seg"}
\* the object name relative to the registered name http.echo: itself; with a suffix / prefix; in another case; another
\* registered name under the default pattern; a registered name outside the default pattern; a name nobody registered
NameClasses == {"exact", "suffix", "prefix", "case", "other_exposed", "unexposed_registered", "unknown"}
\* method_slow: a method that takes longer than the gateway's communication timeout (the timeout is configured for these requests)
\* method_streams: a method whose result is an iterator (a generator): not something that fits into one HTTP answer
\* method_vanishes: a method after whose execution the connection to the daemon is lost, so that its answer never arrives
MemberClasses == {"method", "method_raises", "attribute", "meta", "unknown", "private", "method_slow", "method_streams", "method_vanishes"}
KeyCfgs == {"none", "set"}
Presented == {"absent", "wrong", "right"}
\* default: http\.   anchored: http\.echo$   empty: no pattern configured (everything is exposed)
Patterns == {"default", "anchored", "empty"}
\* blank: one of the parameters has the empty text as its value (it is a parameter all the same)
ParamShapes == {"none", "one", "two", "repeated", "encoded", "blank"}

Requests == [meth : HttpMethods, path : PathShapes, name : NameClasses, member : MemberClasses, keycfg : KeyCfgs,
             hdr : Presented, par : Presented, pattern : Patterns, oneway : BOOLEAN, params : ParamShapes]

Registered(n) == n \in {"exact", "other_exposed", "unexposed_registered"}
\* does the object name (with the extra path segment, if any) match the pattern, as a regular expression matched at the start
Matches(p, n, path) ==
    CASE p = "empty" -> TRUE
      [] path = "lead_seg" -> FALSE          \* the name as written begins with "/" or "./": neither pattern matches there
      [] p = "default" -> n \in {"exact", "suffix", "other_exposed", "unknown"}
      [] p = "anchored" -> n = "exact" /\ path # "extra_seg"
\* yes / no / either (the two places disagree and the statement does not say which one counts)
KeyOK(r) == IF r.keycfg = "none" THEN "yes"
            ELSE IF r.hdr = "right" /\ r.par # "wrong" THEN "yes"
            ELSE IF r.hdr = "absent" /\ r.par = "right" THEN "yes"
            ELSE IF r.hdr = "right" \/ r.par = "right" THEN "either"
            ELSE "no"

\* redirect | notfound | badmethod | preflight | index | denied | forward | denied_or_forward
Decide(r) ==
    IF r.path = "root" THEN "redirect"
    ELSE IF r.path \in {"pyro_noslash", "outside"} THEN "notfound"
    ELSE IF r.meth \notin {"GET", "POST", "OPTIONS"} THEN "badmethod"
    ELSE IF r.meth = "OPTIONS" THEN "preflight"
    ELSE IF r.path = "index" THEN "index"
    ELSE IF r.path \in {"one_seg", "obj_trailing"} THEN "notfound"
    ELSE IF KeyOK(r) = "no" THEN "denied"
    ELSE IF ~Matches(r.pattern, r.name, r.path) THEN "denied"
    ELSE IF KeyOK(r) = "either" THEN "denied_or_forward"
    ELSE "forward"
\* may the gateway contact the name server or any object at all
TrafficAllowed(r) == Decide(r) \in {"index", "forward", "denied_or_forward"}

\* what a forwarded request does: how often the named member runs, the status, and what the body is
Forward(r) ==
    IF ~Registered(r.name) \/ r.path \in {"extra_seg", "lead_seg"} THEN [inv |-> 0, status |-> 500, body |-> "error"]
    ELSE CASE r.member = "meta" -> [inv |-> 0, status |-> 200, body |-> "meta"]
           [] r.member \in {"unknown", "private"} -> [inv |-> 0, status |-> 500, body |-> "error"]
           [] r.member = "method" -> [inv |-> 1, status |-> 200, body |-> IF r.oneway THEN "any" ELSE "result"]
           [] r.member = "method_raises" -> IF r.oneway THEN [inv |-> 1, status |-> 200, body |-> "any"]
                                            ELSE [inv |-> 1, status |-> 500, body |-> "exception"]
           [] r.member = "method_slow" -> IF r.oneway THEN [inv |-> 1, status |-> 200, body |-> "any"]
                                          ELSE [inv |-> 1, status |-> 500, body |-> "error"]       \* once, never again
           [] r.member = "method_streams" -> IF r.oneway THEN [inv |-> 1, status |-> 200, body |-> "any"]
                                             ELSE [inv |-> 1, status |-> 500, body |-> "error"]       \* never 200 with nothing in it
           [] r.member = "method_vanishes" -> IF r.oneway THEN [inv |-> 1, status |-> 200, body |-> "any"]
                                              ELSE [inv |-> 1, status |-> 500, body |-> "error"]       \* once: the gateway does not try again
           [] r.member = "attribute" -> [inv |-> 1, status |-> 200, body |-> IF r.oneway THEN "any" ELSE "result"]

VARIABLE r
Init == r \in Requests
Next == UNCHANGED r
Spec == Init /\ [][Next]_r
\* traffic only for requests that present the key (when configured) and name an object matching the pattern - or the index page
OnlyAuthorised == (TrafficAllowed(r) /\ Decide(r) # "index") =>
                     /\ r.keycfg = "set" => (r.hdr = "right" \/ r.par = "right")
                     /\ Matches(r.pattern, r.name, r.path)
                     /\ r.meth \in {"GET", "POST"} /\ r.path \in CallPaths
\* something runs behind the gateway only for a registered object's existing public member
InvokesOnlyNamed == (Decide(r) \in {"forward", "denied_or_forward"} /\ Forward(r).inv = 1) =>
                        Registered(r.name) /\ r.member \in {"method", "method_raises", "attribute", "method_slow", "method_streams", "method_vanishes"}
=============================================================================
