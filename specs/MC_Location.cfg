SPECIFICATION Spec
INVARIANT NetworkHostsCanBeTranslated
CHECK_DEADLOCK FALSE
