------------------------------ MODULE Trace_NS ------------------------------
(***************************************************************************)
(* Trace validation for C14: one trace = one operation history executed on *)
(* a real NameServer over the in-memory storage and on a real NameServer   *)
(* over the sqlite storage.  Events:                                       *)
(*   op      the operation, both results, both full listings afterwards;   *)
(*           fired = a storage statement was made to fail inside it        *)
(*           (sqlite only; the in-memory server is not called then)        *)
(*   reopen  the sqlite storage was closed and opened again; its listing   *)
(*   bulk    several hundred registrations at once; both listings          *)
(* The monitor replays the history on the map of NameServer.tla and        *)
(* requires every result and every listing to be the model's.              *)
(***************************************************************************)
EXTENDS Naturals, Sequences, FiniteSets, TLC, Json, IOUtils
CONSTANTS Names, Uris, Tags, Prefixes     \* unused here (model constants of NameServer)
VARIABLES map, last, lastop
NS == INSTANCE NameServer

Traces == JsonDeserialize(IOEnv.TRACE_FILE)
NT == Len(Traces)
VARIABLES t, l, bad
vars == <<t, l, map, bad, last, lastop>>
Tr == Traces[t]
Flag(c) == IF bad = "" THEN c ELSE bad

NormItems(s) == {[name |-> s[i].name, uri |-> s[i].uri, tags |-> NS!Range(s[i].tags)] : i \in 1..Len(s)}
Strip(S) == {[e EXCEPT !.tags = {}] : e \in S}

\* does the recorded result r match the expected result x (for operation o)?
Match(r, x, o) ==
    CASE x.r = "error"       -> r.r \in {"NamingError", "other"}
      [] x.r = "NamingError" -> r.r = "NamingError"
      [] x.r = "ok"          -> r.r = "ok"
      [] x.r = "count"       -> r.r = "count" /\ r.n = x.n
      [] x.r = "entry"       -> r.r = "entry" /\ r.uri = x.uri /\ NS!Range(r.tags) = (IF o.meta THEN x.tags ELSE {})
      [] x.r = "items"       -> r.r = "items" /\ NormItems(r.items) = (IF o.meta THEN x.items ELSE Strip(x.items))
      [] OTHER               -> FALSE

Init == t \in 1..NT /\ l = 1 /\ map = NS!Put(NS!EmptyMap, NS!Reserved, 0, {}) /\ bad = "" /\ last = 0 /\ lastop = 0

OpStep(e) ==
    LET a == NS!Apply(map, e.o)
        x == IF e.fired THEN [m |-> map, res |-> NS!Res("error")] ELSE a
        all == NS!Entries(x.m, DOMAIN x.m) IN
    /\ map' = x.m
    /\ bad' = IF e.fired /\ ~(e.sql.r \in {"NamingError", "other"}) THEN Flag("C14.FailedStatementNotReported." \o e.o.op)
              ELSE IF e.fired /\ NormItems(e.sqllist) # all THEN Flag("C14.FailedOpHadEffect." \o e.o.op)
              ELSE IF ~e.fired /\ ~Match(e.mem, x.res, e.o) THEN Flag("C14.Result.memory." \o e.o.op)
              ELSE IF ~e.fired /\ ~Match(e.sql, x.res, e.o) THEN Flag("C14.Result.sqlite." \o e.o.op)
              ELSE IF NormItems(e.memlist) # all THEN Flag("C14.State.memory." \o e.o.op)
              ELSE IF NormItems(e.sqllist) # all THEN Flag("C14.State.sqlite." \o e.o.op)
              ELSE bad

\* bulk: several hundred registrations made in one go on both servers (the harness does them one by one; the monitor takes the
\* entries as given and requires both listings to be exactly the map with those entries added)
RECURSIVE PutAll(_, _, _)
PutAll(m, s, i) == IF i > Len(s) THEN m ELSE PutAll(NS!Put(m, s[i].name, s[i].uri, NS!Range(s[i].tags)), s, i + 1)
BulkStep(e) ==
    LET m2 == PutAll(map, e.entries, 1)
        all == NS!Entries(m2, DOMAIN m2) IN
    /\ map' = m2
    /\ bad' = IF NormItems(e.memlist) # all THEN Flag("C14.State.memory.bulk")
              ELSE IF NormItems(e.sqllist) # all THEN Flag("C14.State.sqlite.bulk") ELSE bad

ReopenStep(e) ==
    /\ map' = map
    /\ bad' = IF NormItems(e.sqllist) # NS!Entries(map, DOMAIN map) THEN Flag("C14.Reopen") ELSE bad

Step == /\ l <= Len(Tr)
        /\ l' = l + 1 /\ t' = t /\ UNCHANGED <<last, lastop>>
        /\ IF Tr[l].e = "op" THEN OpStep(Tr[l])
           ELSE IF Tr[l].e = "reopen" THEN ReopenStep(Tr[l])
           ELSE IF Tr[l].e = "bulk" THEN BulkStep(Tr[l])
           ELSE map' = map /\ bad' = Flag("Monitor.UnknownEvent")
Spec == Init /\ [][Step]_vars
Verdict == (l = Len(Tr) + 1) => PrintT(<<"VERDICT", t, bad>>)
=============================================================================
