SPECIFICATION Spec
INVARIANT OnlyExposed
INVARIANT AdvertisedIsServed
CHECK_DEADLOCK FALSE
