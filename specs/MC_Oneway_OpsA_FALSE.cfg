SPECIFICATION MCSpec
CONSTANTS WhichOps = "A"
  Mux = FALSE
INVARIANT OnewayNeverWaitedFor
INVARIANT ReplyAfterEnd
INVARIANT OneAtATime
PROPERTY AllDone
PROPERTY Forward
CHECK_DEADLOCK FALSE
