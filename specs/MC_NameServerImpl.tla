------------------------- MODULE MC_NameServerImpl -------------------------
EXTENDS NameServerImpl
AllRegSafe == [x \in Threads |-> "regsafe"]
AllRem == [x \in Threads |-> "remove"]
Mixed == [x \in Threads |-> IF x = 1 THEN "regsafe" ELSE IF x = 2 THEN "remove" ELSE "register"]
=============================================================================
