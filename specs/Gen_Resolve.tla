---------------------------- MODULE Gen_Resolve ----------------------------
(* Cases for name resolution: every set of up to two registrations x every query, with what the model allows. *)
EXTENDS Resolve, Sequences, TLC, Json
VARIABLE done
GInit == done = FALSE /\ regs = {} /\ q = [kind |-> "PYRO", target |-> "A", name |-> "-", tags |-> {}, where |-> "default", delay |-> 0]
GNext == /\ ~done /\ done' = TRUE /\ UNCHANGED <<regs, q>>
         /\ \A R \in SmallRegSets :
              \A x \in Queries :
                 \* keep the cases in which the registrations matter to the query, and a few that do not
                 ((x.kind = "PYRO" /\ R = {}) \/ (x.kind # "PYRO" /\ (R # {} \/ x.delay = 0)))
                 => PrintT("SCRIPT " \o ToJson([regs |-> R, q |-> x, allowed |-> Allowed(R, x)]))
=============================================================================
