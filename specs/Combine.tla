------------------------------ MODULE Combine ------------------------------
(***************************************************************************)
(* Combined request loops (extra module E13).                               *)
(*                                                                          *)
(* On the multiplex server one daemon's request loop can take over the     *)
(* sockets of another daemon (Daemon.combine), so that one thread serves   *)
(* both.  What the application relies on:                                   *)
(*  - combining is transitive: a daemon that had others combined into it   *)
(*    brings them along, and they stay *theirs* - a connection made to a    *)
(*    daemon's location is validated by that daemon's handshake validator   *)
(*    and reaches that daemon's objects, whichever loop does the work       *)
(*    (ServedByOwner)                                                       *)
(*  - running the request loop of any member of a group of combined         *)
(*    daemons serves every member of the group, and nobody else             *)
(*    (ServedIffSameGroup)                                                  *)
(*  - connections accepted later (after the combining) are served too       *)
(* The state is the partition of the daemons into groups.                   *)
(***************************************************************************)
EXTENDS Naturals, FiniteSets
CONSTANT Daemons
VARIABLES group, running
vars == <<group, running>>
\* group[d]: the set of daemons whose sockets are in the same loop as d's
Init == group = [d \in Daemons |-> {d}] /\ running = "none"
Combine(x, y) == /\ running = "none" /\ y \notin group[x]
                 /\ group' = [d \in Daemons |-> IF d \in group[x] \cup group[y] THEN group[x] \cup group[y] ELSE group[d]]
                 /\ UNCHANGED running
Start(r) == running = "none" /\ running' = r /\ UNCHANGED group
Next == (\E x, y \in Daemons : Combine(x, y)) \/ (\E r \in Daemons : Start(r))
Spec == Init /\ [][Next]_vars
Served(d) == running # "none" /\ d \in group[running]
\* who answers a connection made to d's location: d itself, or nobody
AnsweredBy(d) == IF Served(d) THEN d ELSE "nobody"
TypeOK == /\ \A d \in Daemons : d \in group[d] /\ \A e \in group[d] : group[e] = group[d]
ServedByOwner == \A d \in Daemons : AnsweredBy(d) \in {d, "nobody"}
ServedIffSameGroup == running # "none" => \A d \in Daemons : Served(d) <=> group[d] = group[running]
RunnerServesItself == running # "none" => Served(running)
=============================================================================
