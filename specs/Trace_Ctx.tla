------------------------------ MODULE Trace_Ctx ------------------------------
(***************************************************************************)
(* Trace validation for C12 (monitor).  Events of one run:                 *)
(*   Req(c, tok, seq, sets, corr)  client c sent request tok with sequence *)
(*                              number seq and correlation id corr (-1 =   *)
(*                              none: the daemon must assign a fresh one)  *)
(*                              number seq; sets = its method sets a       *)
(*                              response annotation (named after tok)      *)
(*   Exec(tok, c, seq, reqann, corr, ser, oneway)  context snapshot taken  *)
(*                              inside the method serving tok              *)
(*   Reply(c, seq, kind, anns)  a message received by client c: kind is    *)
(*                              "connect" | "result" | "ping" | "other";   *)
(*                              anns = tokens of method annotations on it  *)
(*   Saw(tok, anns)             what a Proxy-based client found in its     *)
(*                              response annotations after call tok        *)
(***************************************************************************)
EXTENDS Naturals, Sequences, FiniteSets, TLC, Json, IOUtils
Traces == JsonDeserialize(IOEnv.TRACE_FILE)
NT == Len(Traces)
VARIABLES t, l, bad
vars == <<t, l, bad>>
Tr == Traces[t]
Flag(c) == IF bad = "" THEN c ELSE bad
Range(s) == {s[i] : i \in 1..Len(s)}
Reqs == {i \in 1..Len(Tr) : Tr[i].e = "Req"}
ReqOfTok(k) == CHOOSE i \in Reqs : Tr[i].tok = k
\* tokens whose annotation may legitimately travel with the reply that client c receives for sequence number s
OwnOf(c, s, upto) == {Tr[i].tok : i \in {j \in Reqs : j < upto /\ Tr[j].c = c /\ Tr[j].seq = s /\ Tr[j].sets}}

Init == t \in 1..NT /\ l = 1 /\ bad = ""
Check(e) ==
    CASE e.e = "Exec" ->
           IF ~\E i \in Reqs : Tr[i].tok = e.tok THEN "C12.ContextNotOwn.unknown"
           ELSE LET r == Tr[ReqOfTok(e.tok)] IN
                IF e.c # r.c THEN "C12.ContextNotOwn.connection"
                ELSE IF e.seq # r.seq THEN "C12.ContextNotOwn.seq"
                ELSE IF e.reqann # e.tok THEN "C12.ContextNotOwn.annotations"
                ELSE IF e.corr # r.corr THEN "C12.ContextNotOwn.correlation"
                ELSE IF e.ser # r.ser THEN "C12.ContextNotOwn.serializer"
                ELSE IF e.oneway # r.oneway THEN "C12.ContextNotOwn.flags"
                ELSE ""
      [] e.e = "Reply" ->
           LET own == IF e.kind = "result" THEN OwnOf(e.c, e.seq, l) ELSE {} IN
           IF ~(Range(e.anns) \subseteq own) THEN "C12.AnnotationLeak." \o e.kind ELSE ""
      [] e.e = "Saw" ->
           IF ~(Range(e.anns) \subseteq {e.tok}) THEN "C12.ClientSeesForeignAnnotation"
           \* hs: the annotation of the handshake answer is still what the client sees after the call
           ELSE IF e.hs THEN "C12.ClientSeesHandshakeAnnotationAfterCall" ELSE ""
      [] OTHER -> ""
Step == /\ l <= Len(Tr) /\ l' = l + 1 /\ t' = t
        /\ LET c == Check(Tr[l]) IN bad' = IF c # "" THEN Flag(c) ELSE bad
Spec == Init /\ [][Step]_vars
Verdict == (l = Len(Tr) + 1) => PrintT(<<"VERDICT", t, bad>>)
=============================================================================
