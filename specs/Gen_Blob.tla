------------------------------ MODULE Gen_Blob ------------------------------
(* Cases for serialized blobs: writer, argument list, info, and the hops after the first (serializer, compression of each proxy);
   whether the nodes in between peek (unpack the arguments themselves before passing the blob on). *)
EXTENDS Blob, TLC, Json
VARIABLE done
GInit == Init /\ done = FALSE
GNext == \/ ~done /\ (\E s \in Serializers, c \in BOOLEAN : Send(s, c)) /\ done' = FALSE
         \/ ~done /\ Len(hops) >= 1 /\ done' = TRUE /\ UNCHANGED vars
            /\ \A peek \in BOOLEAN : PrintT("SCRIPT " \o ToJson([writer |-> writer, args |-> args, info |-> info, hops |-> hops, peek |-> peek,
                                                                 expect |-> Unpacked]))
=============================================================================
