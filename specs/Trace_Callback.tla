--------------------------- MODULE Trace_Callback ---------------------------
(***************************************************************************)
(* Trace validation for E12 (monitor).  One trace per plan: the retry limit *)
(* of B's proxy, the plan, and per step what B's method saw (ok | err |     *)
(* closed | other), how it ended towards A (returned | raised), whether an  *)
(* exception that travelled on kept its class and text, and the counters    *)
(* read at A's daemon after the step: executions of the callback,           *)
(* connections accepted, disconnects seen; at the end the counters after B  *)
(* let go of its proxy and the number of connections A made to B.           *)
(***************************************************************************)
EXTENDS Naturals, Sequences, TLC, Json, IOUtils
Traces == JsonDeserialize(IOEnv.TRACE_FILE)
NT == Len(Traces)
VARIABLES t, l, bad, conn, execs, connects, drops
vars == <<t, l, bad, conn, execs, connects, drops>>
X == Traces[t]
CB == INSTANCE Callback WITH R <- 0, MaxLen <- 3, plan <- <<>>, pc <- 1, seen <- <<>>
Init == t \in 1..NT /\ l = 1 /\ bad = "" /\ conn = "none" /\ execs = 0 /\ connects = 0 /\ drops = 0
StepCheck(s, o, e) ==
    IF o.seen = "hang" THEN "E12.Hang"
    ELSE IF o.seen # e.seen THEN "E12.Saw_" \o o.seen \o "_expected_" \o e.seen
    ELSE IF o.execs # execs + e.exec THEN (IF o.execs > execs + e.exec THEN "E12.CallbackRanMoreThanOnce" ELSE "E12.CallbackDidNotRun")
    ELSE IF o.drops > drops + e.drop THEN "E12.ConnectionDroppedWithoutCause"
    ELSE IF o.drops < drops + e.drop THEN "E12.CallbackExceptionNotRaisedLocally"
    ELSE IF o.connects # connects + e.connect THEN "E12.Connects"
    ELSE IF o.how # CB!How(s, e.seen) THEN "E12.How_" \o o.how
    ELSE IF o.how = "raised" /\ ~o.kept THEN "E12.ExceptionChangedOnTheWay"
    ELSE ""
Step == /\ bad = "" /\ l <= Len(X.plan)
        /\ LET s == X.plan[l]
               e == CB!EffR(X.R, conn, s)
               o == X.steps[l] IN
           /\ bad' = StepCheck(s, o, e)
           /\ conn' = e.conn /\ execs' = execs + e.exec /\ connects' = connects + e.connect /\ drops' = drops + e.drop
        /\ l' = l + 1 /\ t' = t
Final == /\ bad = "" /\ l = Len(X.plan) + 1 /\ l' = l + 1 /\ t' = t
         /\ LET d == drops + (IF conn = "open" THEN 1 ELSE 0) IN
            bad' = IF X.final.drops # d THEN "E12.FinalDisconnects"
                   ELSE IF X.final.execs # execs THEN "E12.LateExecution"
                   ELSE IF X.final.bconn # 1 THEN "E12.OuterConnectionDisturbed"
                   ELSE "ok"
         /\ UNCHANGED <<conn, execs, connects, drops>>
Spec == Init /\ [][Step \/ Final]_vars
Ended == bad # "" \/ l = Len(X.plan) + 2
Verdict == Ended => PrintT(<<"VERDICT", t, IF bad = "ok" THEN "" ELSE bad>>)
=============================================================================
