SPECIFICATION Spec
CONSTANT R = 0
CONSTANT MaxLen = 3
INVARIANT ExactlyOnce
INVARIANT ClosedOnlyAfterDrop
INVARIANT AnswerIsTheException
INVARIANT NoAnswerInvented
INVARIANT OnlyCallbacksDrop
INVARIANT Balanced
CHECK_DEADLOCK FALSE
