----------------------------- MODULE Lifecycle -----------------------------
(***************************************************************************)
(* Life cycle of daemons (extra, beyond the listed properties): creating,  *)
(* running the request loop, stopping it by its loop condition, shutting   *)
(* down from another thread, closing, and combining a second daemon into   *)
(* the loop of the first (multiplex server only).                          *)
(*                                                                         *)
(*   created  the daemon is listening but nobody runs its loop             *)
(*   looping  a thread is inside requestLoop                               *)
(*   idle     the loop has returned because its condition became false;    *)
(*            the daemon is still open and the loop can be entered again   *)
(*   closed   shut down or closed: the listener is gone, for good          *)
(*                                                                         *)
(* A client that calls an object of daemon d is answered exactly when d is *)
(* served: its own loop runs, or it was combined into a loop that runs.    *)
(* A closed daemon refuses the connection; an open daemon that nobody      *)
(* serves leaves the caller waiting (it times out).                        *)
(*                                                                         *)
(* A client may also hold a connection it made while the daemon was        *)
(* served.  While the daemon is served, calls on it are answered.  What    *)
(* becomes of it when the daemon closes is an implementation matter the    *)
(* model leaves open (the multiplex server stops answering, a worker of    *)
(* the thread-pool server goes on serving it): Close and Shutdown do not   *)
(* end held connections, and HeldEndsWithDaemon is stated to be refuted.   *)
(***************************************************************************)
EXTENDS Naturals
Daemons == {"d1", "d2"}
VARIABLES phase, combined, held
vars == <<phase, combined, held>>
Init == phase = [d \in Daemons |-> "created"] /\ combined = FALSE /\ held = [d \in Daemons |-> FALSE]
\* the loop that serves d: its own, or d1's once d2 has been combined into it
Served(ph, cb, d) == ph[d] = "looping" \/ (d = "d2" /\ cb /\ ph["d2"] # "closed" /\ ph["d1"] = "looping")
CallOutcome(ph, cb, d) == IF ph[d] = "closed" THEN "refused" ELSE IF Served(ph, cb, d) THEN "ok" ELSE "timeout"
CanStart(ph, cb, d) == ph[d] \in {"created", "idle"} /\ ~(d = "d2" /\ cb)      \* a combined daemon has no loop of its own
\* a call on a held connection: answered while the daemon is served; otherwise anything but a wrong answer
HeldOutcomes(ph, cb, d) == IF Served(ph, cb, d) THEN {"ok"} ELSE {"ok", "timeout", "closed"}
StartLoop(d)  == CanStart(phase, combined, d) /\ phase' = [phase EXCEPT ![d] = "looping"] /\ UNCHANGED <<combined, held>>
StopByCond(d) == phase[d] = "looping" /\ phase' = [phase EXCEPT ![d] = "idle"] /\ UNCHANGED <<combined, held>>
Shutdown(d)   == phase[d] = "looping" /\ phase' = [phase EXCEPT ![d] = "closed"] /\ UNCHANGED <<combined, held>>
Close(d)      == phase[d] \in {"created", "idle"} /\ phase' = [phase EXCEPT ![d] = "closed"] /\ UNCHANGED <<combined, held>>
Combine       == /\ ~combined /\ phase["d1"] \in {"created", "idle"} /\ phase["d2"] = "created" /\ ~held["d1"] /\ ~held["d2"]
                 /\ combined' = TRUE /\ UNCHANGED <<phase, held>>
Hold(d)       == ~held[d] /\ Served(phase, combined, d) /\ held' = [held EXCEPT ![d] = TRUE] /\ UNCHANGED <<phase, combined>>
Release(d)    == held[d] /\ held' = [held EXCEPT ![d] = FALSE] /\ UNCHANGED <<phase, combined>>
\* a call on the held connection that is not answered makes the client give the connection up
HeldCallFails(d) == held[d] /\ ~Served(phase, combined, d) /\ held' = [held EXCEPT ![d] = FALSE] /\ UNCHANGED <<phase, combined>>
Next == \/ \E d \in Daemons : StartLoop(d) \/ StopByCond(d) \/ Shutdown(d) \/ Close(d) \/ Hold(d) \/ Release(d) \/ HeldCallFails(d)
        \/ Combine
Spec == Init /\ [][Next]_vars
NoServiceAfterClose == \A d \in Daemons : phase[d] = "closed" => ~Served(phase, combined, d)
ClosedForGood == [][\A d \in Daemons : phase[d] = "closed" => phase'[d] = "closed"]_vars
\* once the master of a combined pair is closed, the other daemon is open but can never be served again (it can only be closed)
CombinedOrphan == (combined /\ phase["d1"] = "closed" /\ phase["d2"] # "closed") => CallOutcome(phase, combined, "d2") = "timeout"
\* NOT a property of the code (TLC refutes it, on purpose): closing a daemon does not end the connections clients hold
HeldEndsWithDaemon == \A d \in Daemons : phase[d] = "closed" => ~held[d]
=============================================================================
