------------------------------- MODULE Oneway -------------------------------
(***************************************************************************)
(* Oneway calls and who waits for whom (extra, beyond the listed           *)
(* properties).  Clients issue requests over their own connection:         *)
(*   call     a normal call: the client waits for the reply                *)
(*   ow       a oneway call: no reply; the daemon runs the method in a     *)
(*            thread of its own, so that nothing waits for it              *)
(*   owbatch  a oneway batch: no reply; the daemon runs it itself, like a  *)
(*            normal call, in the thread that handles the connection       *)
(* A method is fast, fails (raise), or is slow: it does not end before the *)
(* environment opens its gate.                                             *)
(*                                                                         *)
(* The requests of one connection are taken up in the order they were      *)
(* sent, one at a time, by the connection's handler: a worker thread of    *)
(* the thread-pool server, or the one server thread of the multiplex       *)
(* server (Multiplex = TRUE: one handler for all connections).  Taking up  *)
(* a oneway call means starting its thread, which takes no time; taking up *)
(* anything else means running it to the end.                              *)
(***************************************************************************)
EXTENDS Naturals, Sequences, FiniteSets
\* Ops: sequence of [c : connection, kind : "call" | "ow" | "owbatch", m : "fast" | "slow" | "raise"]; Multiplex: one handler for all.
\* (both are fixed during a behaviour; they are variables so that the trace specification can take them from each trace)
VARIABLES Ops, Multiplex
N == Len(Ops)
K == 1..N
Conns == {Ops[k].c : k \in K}
Inline(k) == Ops[k].kind # "ow"
VARIABLES st,        \* per request: "new" | "sent" | "spawned" | "running" | "done"
          ret,       \* the client's call has returned
          go,        \* per connection: how many requests the client may have issued so far
          gate       \* per request: the environment has let the slow method finish
vars == <<Ops, Multiplex, st, ret, go, gate>>
Fixed == UNCHANGED <<Ops, Multiplex>>
InitWith(o, m) == /\ Ops = o /\ Multiplex = m
        /\ st = [k \in 1..Len(o) |-> "new"] /\ ret = [k \in 1..Len(o) |-> FALSE]
        /\ go = [c \in {o[k].c : k \in 1..Len(o)} |-> 0] /\ gate = [k \in 1..Len(o) |-> FALSE]
Before(k) == {j \in K : j < k /\ Ops[j].c = Ops[k].c}
Issued(c) == Cardinality({k \in K : Ops[k].c = c /\ st[k] # "new"})
HandlerBusy(c) == \E j \in K : Inline(j) /\ st[j] = "running" /\ (Multiplex \/ Ops[j].c = c)
TakenUp(j) == st[j] \notin {"new", "sent"}
Dispatchable(k) == st[k] = "sent" /\ (\A j \in Before(k) : TakenUp(j)) /\ ~HandlerBusy(Ops[k].c)
\* ---- the client ----
Issue(k) == /\ st[k] = "new" /\ (\A j \in Before(k) : ret[j]) /\ Issued(Ops[k].c) < go[Ops[k].c]
            /\ st' = [st EXCEPT ![k] = "sent"] /\ UNCHANGED <<ret, go, gate>> /\ Fixed
\* a oneway request returns as soon as it is sent, whatever the daemon is doing; a normal call returns when its method has ended
CanReturn(k) == ~ret[k] /\ IF Ops[k].kind = "call" THEN st[k] = "done" ELSE st[k] # "new"
Return(k) == CanReturn(k) /\ ret' = [ret EXCEPT ![k] = TRUE] /\ UNCHANGED <<st, go, gate>> /\ Fixed
Outcome(k) == IF Ops[k].kind = "call" THEN (IF Ops[k].m = "raise" THEN "exc" ELSE "ok") ELSE "none"
\* ---- the daemon ----
Spawn(k) == ~Inline(k) /\ Dispatchable(k) /\ st' = [st EXCEPT ![k] = "spawned"] /\ UNCHANGED <<ret, go, gate>> /\ Fixed
Start(k) == /\ IF Inline(k) THEN Dispatchable(k) ELSE st[k] = "spawned"
            /\ st' = [st EXCEPT ![k] = "running"] /\ UNCHANGED <<ret, go, gate>> /\ Fixed
End(k)   == /\ st[k] = "running" /\ (Ops[k].m = "slow" => gate[k])
            /\ st' = [st EXCEPT ![k] = "done"] /\ UNCHANGED <<ret, go, gate>> /\ Fixed
\* ---- the environment ----
Go(c)      == Issued(c) <= go[c] /\ go[c] < Cardinality({k \in K : Ops[k].c = c})
              /\ go' = [go EXCEPT ![c] = @ + 1] /\ UNCHANGED <<st, ret, gate>> /\ Fixed
Release(k) == Ops[k].m = "slow" /\ ~gate[k] /\ gate' = [gate EXCEPT ![k] = TRUE] /\ UNCHANGED <<st, ret, go>> /\ Fixed
Internal == \E k \in K : Issue(k) \/ Return(k) \/ Spawn(k) \/ Start(k) \/ End(k)
Next == Internal \/ (\E c \in Conns : Go(c)) \/ (\E k \in K : Release(k))
Spec == [][Next]_vars /\ WF_vars(Internal) /\ WF_vars(\E c \in Conns : Go(c)) /\ WF_vars(\E k \in K : Release(k))
\* ---- what a user relies on ----
\* nothing waits for a oneway call: once sent it can return, and a later request of any connection is taken up although it still runs
OnewayNeverWaitedFor == /\ \A k \in K : (Ops[k].kind # "call" /\ st[k] # "new" /\ ~ret[k]) => ENABLED Return(k)
                        /\ \A k \in K : (st[k] = "sent" /\ (\A j \in Before(k) : TakenUp(j)) /\ ~(\E j \in K : Inline(j) /\ st[j] = "running"))
                                           => ENABLED (Spawn(k) \/ Start(k))
\* a normal call has returned only if its method has ended; a method never runs before its request was sent
ReplyAfterEnd == \A k \in K : (Ops[k].kind = "call" /\ ret[k]) => st[k] = "done"
\* the connection's handler does one thing at a time (per connection, or in all for the multiplex server)
OneAtATime == \A i, j \in K : (i # j /\ Inline(i) /\ Inline(j) /\ st[i] = "running" /\ st[j] = "running") => (~Multiplex /\ Ops[i].c # Ops[j].c)
\* everything that was sent is eventually run, exactly once (the states only move forward), and everything returns
AllDone == <>[](\A k \in K : st[k] = "done" /\ ret[k])
Forward == [][\A k \in K : st[k] = "done" => st'[k] = "done"]_vars
=============================================================================
