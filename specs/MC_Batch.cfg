SPECIFICATION Spec
CONSTANTS Calls <- MCCalls
  MaxLen = 4
INVARIANT SameAsSequential
CHECK_DEADLOCK FALSE
