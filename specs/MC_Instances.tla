---------------------------- MODULE MC_Instances ----------------------------
EXTENDS Instances
MCMode == [k \in {"S", "N", "P"} |-> IF k = "S" THEN "single" ELSE IF k = "N" THEN "session" ELSE "percall"]
=============================================================================
