------------------------------ MODULE Streams ------------------------------
(***************************************************************************)
(* Remote iterators (C10).  When a method returns an iterator the daemon   *)
(* keeps it in a stream table and the client fetches items one by one.     *)
(* The table entry of stream s:                                            *)
(*   owner    the connection it belongs to (0 after that connection ended) *)
(*   created  time of creation     linger  time its connection ended (0 =  *)
(*   pos      items delivered      not lingering)                          *)
(*   len, raiseAt   the source: items 1..len; raiseAt > 0: the generator   *)
(*            raises instead of yielding item raiseAt                      *)
(* The operators Do... are the exact meaning of each server-side step; the *)
(* model below lets an environment take them in any order, and the trace   *)
(* specification replays recorded runs through the same operators.         *)
(***************************************************************************)
EXTENDS Naturals, Sequences, FiniteSets

NoStream == [owner |-> 0, created |-> 0, linger |-> 0, pos |-> 0, len |-> 0, raiseAt |-> 0]
Has(tbl, s) == s \in DOMAIN tbl
Put(tbl, s, e) == [x \in DOMAIN tbl \cup {s} |-> IF x = s THEN e ELSE tbl[x]]
Del(tbl, S) == [x \in DOMAIN tbl \ S |-> tbl[x]]

DoOpen(tbl, s, conn, now, len, raiseAt) ==
    Put(tbl, s, [owner |-> conn, created |-> now, linger |-> 0, pos |-> 0, len |-> len, raiseAt |-> raiseAt])

\* a stream is over its time when it has outlived the configured lifetime, or when its connection ended longer ago than the
\* linger period
Expired(e, now, Lifetime, Linger) ==
    \/ Lifetime > 0 /\ now - e.created > Lifetime
    \/ Linger > 0 /\ e.linger > 0 /\ now - e.linger > Linger
\* fetching the next item: [tbl, out] with out = "item" (value = pos+1) | "stop" | "raise" | "gone".  A stream that is over its
\* time is gone for whoever asks, whether or not the periodic housekeeping has come by since
DoNext(tbl, s, conn, now, Lifetime, Linger) ==
    IF ~Has(tbl, s) THEN [tbl |-> tbl, out |-> "gone", item |-> 0]
    ELSE IF Expired(tbl[s], now, Lifetime, Linger) THEN [tbl |-> Del(tbl, {s}), out |-> "gone", item |-> 0]
    ELSE LET e == tbl[s]
             e2 == IF e.owner = 0 THEN [e EXCEPT !.owner = conn, !.linger = 0] ELSE e     \* a returning client takes it over again
             nxt == e.pos + 1 IN
         IF e.raiseAt = nxt THEN [tbl |-> Del(tbl, {s}), out |-> "raise", item |-> 0]
         ELSE IF nxt > e.len THEN [tbl |-> Del(tbl, {s}), out |-> "stop", item |-> 0]
         ELSE [tbl |-> Put(tbl, s, [e2 EXCEPT !.pos = nxt]), out |-> "item", item |-> nxt]

DoClose(tbl, s) == Del(tbl, {s})

DoDisconnect(tbl, conn, now, Linger) ==
    IF Linger > 0
    THEN [s \in DOMAIN tbl |-> IF tbl[s].owner = conn THEN [tbl[s] EXCEPT !.owner = 0, !.linger = now] ELSE tbl[s]]
    ELSE Del(tbl, {s \in DOMAIN tbl : tbl[s].owner = conn})

DoHousekeep(tbl, now, Lifetime, Linger) == Del(tbl, {s \in DOMAIN tbl : Expired(tbl[s], now, Lifetime, Linger)})

-----------------------------------------------------------------------------
CONSTANTS StreamIds, Conns, Lifetime, Linger, MaxTime, MaxLen
VARIABLES table, now, live, got, ended, opened
\* live: connections currently open; got[s]: items the client received for stream s; ended[s]: how the client's iterator ended
vars == <<table, now, live, got, ended, opened>>
EmptyTbl == [x \in {} |-> NoStream]
Init == /\ table = EmptyTbl /\ now = 1 /\ live = {} /\ opened = {}
        /\ got = [s \in StreamIds |-> <<>>] /\ ended = [s \in StreamIds |-> "no"]
Connect(c) == c \notin live /\ live' = live \cup {c} /\ UNCHANGED <<table, now, got, ended, opened>>
Open(s, c) == /\ s \notin opened /\ c \in live /\ opened' = opened \cup {s}
              /\ \E len \in 0..MaxLen, r \in 0..MaxLen : r <= len + 1 /\ table' = DoOpen(table, s, c, now, len, r)
              /\ UNCHANGED <<now, live, got, ended>>
Next_(s, c) == /\ s \in opened /\ ended[s] = "no" /\ c \in live
               /\ LET r == DoNext(table, s, c, now, Lifetime, Linger) IN
                  /\ table' = r.tbl
                  /\ got' = IF r.out = "item" THEN [got EXCEPT ![s] = Append(@, r.item)] ELSE got
                  /\ ended' = IF r.out = "item" THEN ended ELSE [ended EXCEPT ![s] = r.out]
               /\ UNCHANGED <<now, live, opened>>
Close(s) == /\ s \in opened /\ ended[s] = "no" /\ table' = DoClose(table, s) /\ ended' = [ended EXCEPT ![s] = "closed"]
            /\ UNCHANGED <<now, live, got, opened>>
Disconnect(c) == /\ c \in live /\ live' = live \ {c} /\ table' = DoDisconnect(table, c, now, Linger)
                 /\ UNCHANGED <<now, got, ended, opened>>
Housekeep == table' = DoHousekeep(table, now, Lifetime, Linger) /\ UNCHANGED <<now, live, got, ended, opened>>
Tick == now < MaxTime /\ now' = now + 1 /\ UNCHANGED <<table, live, got, ended, opened>>
Next == \/ \E c \in Conns : Connect(c) \/ Disconnect(c) \/ \E s \in StreamIds : Open(s, c) \/ Next_(s, c)
        \/ \E s \in StreamIds : Close(s)
        \/ Housekeep \/ Tick
Spec == Init /\ [][Next]_vars

\* ---- property C10 ----
\* each client stream has received exactly the first items of its source, in order, none lost, repeated or foreign
Prefix == \A s \in StreamIds : got[s] = [i \in 1..Len(got[s]) |-> i]
\* a stream the server has forgotten never yields items again: every fetch on it reports it gone
ForgottenStaysGone == [][\A s \in StreamIds : (s \in opened /\ ~Has(table, s)) => ~Has(table', s)]_vars
\* nothing lingers past its time once housekeeping has run
\* a client that comes back after a stream's time is up gets no items from it, housekeeping or not
NoItemPastDeadline == [][\A s \in StreamIds : (Len(got'[s]) > Len(got[s])) => (Has(table, s) /\ ~Expired(table[s], now, Lifetime, Linger))]_vars
NoExpiredAfterHousekeeping == [][Housekeep => \A s \in DOMAIN table' : ~Expired(table'[s], now, Lifetime, Linger)]_vars
=============================================================================
