---------------------------- MODULE Trace_SockIO ----------------------------
(***************************************************************************)
(* Trace validation for C17.  One trace = one call of the real             *)
(* receive_data / send_data against the scripted socket: every socket call *)
(* with what was asked/offered and what the socket answered, then the      *)
(* outcome.  The monitor is as permissive as the property: the chunking    *)
(* policy is open; what is returned, what reaches the peer, which error    *)
(* class ends the call and what partialData carries is not.                *)
(***************************************************************************)
EXTENDS Integers, Sequences, TLC, Json, IOUtils

Traces == JsonDeserialize(IOEnv.TRACE_FILE)
NT == Len(Traces)

VARIABLES t,      \* which trace
          l,      \* next call to consume; Len+1 = outcome check; Len+2 = finished
          got,    \* reader: units handed out by the socket so far; writer: units the peer accepted
          term,   \* first terminal answer of the socket: "" | "eof" | "fatal" | "timeout"
          bad     \* first violated clause, "" while none
vars == <<t, l, got, term, bad>>

Units(a, b) == [i \in 1..(b - a) |-> a + i - 1]
Tr == Traces[t]
IsPrefix(s, r) == Len(s) <= Len(r) /\ s = SubSeq(r, 1, Len(s))
Flag(clause) == IF bad = "" THEN clause ELSE bad
\* sendall_error: a blocking sendall gave up with an error that a send loop would retry; for sendall every error is final
TermOf(r) == CASE r = "eof" -> "eof" [] r \in {"reset", "pipe", "sendall_error"} -> "fatal" [] r = "timeout" -> "timeout" [] OTHER -> ""

Init == t \in 1..NT /\ l = 1 /\ got = <<>> /\ term = "" /\ bad = ""

RecvCall(c) ==
    /\ got' = IF c.r = "deliver" THEN got \o c.u ELSE got
    /\ term' = IF term = "" THEN TermOf(c.r) ELSE term
    /\ bad' = IF c.ask > Tr.n - Len(got) THEN Flag("C17.OverAsk")
              ELSE IF c.ask < 1 THEN Flag("C17.ZeroAsk")
              ELSE bad

SendCall(c) ==
    \* what is offered must be (a non-empty prefix of) exactly the bytes the peer does not have yet
    LET rest == Units(Len(got), Tr.n) IN
    /\ got' = IF c.r = "accept" THEN got \o SubSeq(c.u, 1, c.k) ELSE got
    /\ term' = IF term = "" THEN TermOf(c.r) ELSE term
    /\ bad' = IF c.u = <<>> \/ ~IsPrefix(c.u, rest) THEN Flag("C17.SendNotRemainder") ELSE bad

RecvEnd ==
    bad' = CASE Tr.outcome = "return" ->
                    IF Tr.data # Units(0, Tr.n) THEN Flag("C17.ReturnNotExact")
                    ELSE IF got # Units(0, Tr.n) THEN Flag("C17.ConsumedNotExact")
                    ELSE bad
             [] Tr.outcome = "closed" ->
                    IF term \notin {"eof", "fatal"} THEN Flag("C17.SpuriousClosed")
                    \* whether the peer closed early or a fatal error occurred: the error carries what was received so far
                    ELSE IF Tr.partial # got THEN Flag("C17.PartialData")
                    ELSE bad
             [] Tr.outcome = "timeout" ->
                    IF term # "timeout" THEN Flag("C17.SpuriousTimeout") ELSE bad
             [] Tr.outcome = "hang" -> Flag("C17.Hang")
             [] OTHER -> Flag("C17.WrongError")

SendEnd ==
    bad' = CASE Tr.outcome = "return" ->
                    IF got # Units(0, Tr.n) THEN Flag("C17.SentNotComplete") ELSE bad
             [] Tr.outcome = "closed" -> IF term # "fatal" THEN Flag("C17.SpuriousClosed") ELSE bad
             [] Tr.outcome = "timeout" -> IF term # "timeout" THEN Flag("C17.SpuriousTimeout") ELSE bad
             [] Tr.outcome = "hang" -> Flag("C17.Hang")
             [] OTHER -> Flag("C17.WrongError")

Step ==
    /\ l <= Len(Tr.calls) + 1
    /\ l' = l + 1 /\ t' = t
    /\ IF l <= Len(Tr.calls)
       THEN IF Tr.kind = "recv" THEN RecvCall(Tr.calls[l]) ELSE SendCall(Tr.calls[l])
       ELSE /\ UNCHANGED <<got, term>>
            /\ IF Tr.kind = "recv" THEN RecvEnd ELSE SendEnd

Spec == Init /\ [][Step]_vars
Verdict == (l = Len(Tr.calls) + 2) => PrintT(<<"VERDICT", t, bad>>)
=============================================================================
