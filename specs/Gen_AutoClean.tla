--------------------------- MODULE Gen_AutoClean ---------------------------
(* Environment scripts for the auto-cleaner: at most MaxEnv environment steps (register / remove / location goes down / comes
   back) at odd seconds between the cleaner's wake-ups, then quiet until the horizon.  Walked with -simulate. *)
EXTENDS AutoClean, Sequences, TLC, Json
CONSTANT MaxEnv
VARIABLE h
GInit == Init /\ h = <<>>
Ev(a, n, s, t) == [a |-> a, n |-> n, s |-> s, t |-> t]
GNext == \/ wake <= Horizon /\ Wake /\ h' = h
         \/ /\ Len(h) < MaxEnv
            /\ \E t \in (now + 1)..(wake - 1) :
                 \/ \E n \in Names, s \in Servers : Register(n, s, t) /\ h' = Append(h, Ev("register", n, s, t))
                 \/ \E n \in Names : Remove(n, t) /\ h' = Append(h, Ev("remove", n, "", t))
                 \/ \E s \in Servers : GoDown(s, t) /\ h' = Append(h, Ev("down", "", s, t))
                 \/ \E s \in Servers : ComeUp(s, t) /\ h' = Append(h, Ev("up", "", s, t))
         \/ /\ wake > Horizon /\ wake < Horizon + 1000 /\ PrintT("SCRIPT " \o ToJson(h))
            /\ wake' = Horizon + 1000 /\ UNCHANGED <<now, reg, up, since, last, downFrom, removedByCleaner, h>>
=============================================================================
