------------------------------ MODULE Trace_Exc ------------------------------
(***************************************************************************)
(* Trace validation for C07 (monitor).  One trace per remote raise:        *)
(*  kind (builtin | pyro | unknown_to_receiver), carriable, ck, ser        *)
(*  outcome   raised | returned | hang                                     *)
(*  same_class, args_equal, attrs_equal, has_traceback   facts about the   *)
(*            exception the caller caught versus the one that was raised   *)
(*  is_pyro_error, names_class, names_message   for the fallback           *)
(*  next_ok   the next call on the same proxy returned its own value       *)
(*  session_kept  a per-connection object of the same connection still had *)
(*            its state at that next call (a substitute error is the       *)
(*            daemon's answer to the call, not a failure of the connection)*)
(***************************************************************************)
EXTENDS Naturals, Sequences, TLC, Json, IOUtils
VARIABLES kind, carriable, ck
E == INSTANCE ExcTransport
Traces == JsonDeserialize(IOEnv.TRACE_FILE)
NT == Len(Traces)
VARIABLES t, l, bad
vars == <<t, l, bad, kind, carriable, ck>>
X == Traces[t]
Init == t \in 1..NT /\ l = 1 /\ bad = "" /\ kind = "" /\ carriable = FALSE /\ ck = ""
Check(x) ==
    LET e == E!Expect(x.kind, x.carriable) IN
    IF x.outcome = "hang" THEN "C07.Hang"
    ELSE IF x.outcome = "returned" THEN "C07.SilentReturn"
    ELSE IF ~x.next_ok THEN "C07.ProxyUnusableAfterwards"
    \* an error whose reply is too large to be sent: the statement only promises an error (never a hang, never a value) and a usable proxy
    ELSE IF x.kind = "oversize" THEN ""
    ELSE IF e.what = "same" THEN
         (IF ~x.same_class THEN "C07.DifferentClass"
          ELSE IF ~x.args_equal THEN "C07.ArgsDiffer"
          ELSE IF ~x.attrs_equal THEN "C07.AttributesDiffer"
          ELSE IF ~x.has_traceback THEN "C07.NoRemoteTraceback"
          ELSE IF ~x.tb_own THEN "C07.RemoteTracebackNotOfThisRaise"
          ELSE "")
    ELSE (IF x.same_class /\ x.args_equal THEN ""            \* it travelled after all: fine
          ELSE IF ~x.is_pyro_error THEN "C07.FallbackNotAPyroError"
          ELSE IF ~x.names_class THEN "C07.FallbackDoesNotDescribeOriginal"
          ELSE IF ~x.session_kept THEN "C07.ConnectionLostWithTheSubstitute"
          ELSE "")
Step == l = 1 /\ l' = 2 /\ t' = t /\ bad' = Check(X) /\ UNCHANGED <<kind, carriable, ck>>
Spec == Init /\ [][Step]_vars
Verdict == (l = 2) => PrintT(<<"VERDICT", t, bad>>)
=============================================================================
