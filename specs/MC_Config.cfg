SPECIFICATION Spec
INVARIANT EveryItemSettable
INVARIANT Ignored
CHECK_DEADLOCK FALSE
