-------------------------------- MODULE Blob --------------------------------
(***************************************************************************)
(* Serialized blobs (extra, beyond the listed properties): arguments that  *)
(* travel through gateways and dispatchers without being unpacked.         *)
(*                                                                         *)
(* A client wraps the arguments of a call in a blob with a small info      *)
(* value.  Every node on the way receives the blob, can read the info, can *)
(* unpack the arguments if it wants to (that does not change the blob),    *)
(* and can pass the blob on to the next node as it is.  The bytes were     *)
(* written once, by the serializer of the client's proxy; the proxies of   *)
(* the nodes in between may be set to other serializers and may or may not *)
(* compress: none of that may matter.  Whoever unpacks gets the arguments  *)
(* as that first serializer maps them.                                     *)
(***************************************************************************)
EXTENDS Naturals, Sequences
Serializers == {"serpent", "json", "marshal", "msgpack"}
\* an argument list is made of plain values (the same under every serializer) and possibly a tuple, which json and msgpack
\* deliver as a list
ItemKinds == {"plain", "tuple"}
Maps(writer, item) == IF item = "tuple" /\ writer \in {"json", "msgpack"} THEN "list" ELSE item
VARIABLES writer, args, info, hops, seen
vars == <<writer, args, info, hops, seen>>
\* hops: the serializer and compression setting of each proxy the blob has travelled through so far
Init == /\ writer \in Serializers /\ args \in {<<>>, <<"plain">>, <<"plain", "tuple">>, <<"tuple", "plain", "plain">>}
        /\ info \in {"text", "number", "pair"} /\ hops = <<>> /\ seen = <<>>
\* what a node sees when it unpacks: the argument list as the writer maps it, whatever the hops were
Unpacked == [i \in 1..Len(args) |-> Maps(writer, args[i])]
Send(s, c) == /\ Len(hops) < 3 /\ (hops = <<>> => s = writer)
              /\ hops' = Append(hops, [ser |-> s, comp |-> c])
              /\ seen' = Append(seen, [info |-> info, args |-> Unpacked])
              /\ UNCHANGED <<writer, args, info>>
Next == \E s \in Serializers, c \in BOOLEAN : Send(s, c)
Spec == Init /\ [][Next]_vars
\* every node sees the same thing, and it does not depend on the later hops
Transparent == \A i \in 1..Len(seen) : seen[i].info = info /\ seen[i].args = Unpacked
=============================================================================
