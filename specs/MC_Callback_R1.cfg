SPECIFICATION Spec
CONSTANT R = 1
CONSTANT MaxLen = 3
INVARIANT ExactlyOnce
INVARIANT ClosedOnlyAfterDrop
INVARIANT AnswerIsTheException
INVARIANT NoAnswerInvented
INVARIANT OnlyCallbacksDrop
INVARIANT Balanced
CHECK_DEADLOCK FALSE
