INIT Init
NEXT Next
CONSTANTS MaxLen = 1
CHECK_DEADLOCK FALSE
