------------------------------ MODULE ClassTag ------------------------------
(***************************************************************************)
(* What deserialisation may build from a class-tagged dict (C04).          *)
(* A tag is described by its class (which family of names it belongs to),  *)
(* whether the dict carries the exception flag, and whether the            *)
(* application registered a converter for exactly that tag.  Decide gives  *)
(* the only permitted reactions: build an instance of one class of the     *)
(* closed set, hand the dict to the application's converter, or reject.    *)
(***************************************************************************)
EXTENDS Naturals, FiniteSets
TagClasses == {"dunder", "uri", "proxy", "daemon", "util_known", "util_unknown", "errors_pyro", "errors_other", "errors_missing",
               "struct_error", "exc_wrapper", "bare_builtin_exc", "bare_nonexc", "builtins_exc", "builtins_nonexc_class",
               "builtins_function", "builtins_dotted_tail", "exceptions_ns", "sqlite_error", "sqlite_other", "foreign_ns", "nodot",
               "float_pseudo", "testlocal", "pyro_internal_other",
               \* a tag that is empty or otherwise falsy, and a tag that is not text at all
               "falsy", "nonstring"}
Closed == {"URI", "Proxy", "Daemon", "Serializer", "ExcWrapper", "BuiltinException", "PyroError", "SqliteError", "StructError", "float"}
\* classes whose tag alone (no exception flag needed) is honoured
ByTagAlone(c) == CASE c = "uri" -> "URI" [] c = "proxy" -> "Proxy" [] c = "daemon" -> "Daemon" [] c = "util_known" -> "Serializer"
                   [] c = "errors_pyro" -> "PyroError" [] c = "struct_error" -> "StructError" [] c = "exc_wrapper" -> "ExcWrapper"
                   [] OTHER -> ""
\* classes honoured only together with the exception flag
ByFlag(c) == CASE c \in {"bare_builtin_exc", "builtins_exc", "exceptions_ns"} -> "BuiltinException"
               [] c = "sqlite_error" -> "SqliteError" [] OTHER -> ""
Decide(c, flagged, registered, ser) ==
    IF registered THEN [what |-> "converter", cls |-> ""]
    ELSE IF c = "dunder" THEN [what |-> "error", cls |-> ""]
    ELSE IF c = "float_pseudo" /\ ser = "serpent" THEN [what |-> "instance", cls |-> "float"]
    ELSE IF ByTagAlone(c) # "" THEN [what |-> "instance", cls |-> ByTagAlone(c)]
    ELSE IF flagged /\ ByFlag(c) # "" THEN [what |-> "instance", cls |-> ByFlag(c)]
    ELSE [what |-> "error", cls |-> ""]

VARIABLES c, flagged, registered, ser
Init == c \in TagClasses /\ flagged \in BOOLEAN /\ registered \in BOOLEAN /\ ser \in {"serpent", "json", "marshal", "msgpack"}
Next == UNCHANGED <<c, flagged, registered, ser>>
Spec == Init /\ [][Next]_<<c, flagged, registered, ser>>
OnlyClosedSet == LET d == Decide(c, flagged, registered, ser) IN d.what = "instance" => d.cls \in Closed
DunderNeverBuilt == (c = "dunder" /\ ~registered) => Decide(c, flagged, registered, ser).what = "error"
ForeignNeverBuilt == (c \in {"foreign_ns", "testlocal", "builtins_function", "builtins_nonexc_class", "sqlite_other", "nodot", "bare_nonexc",
                             "pyro_internal_other", "errors_other", "builtins_dotted_tail", "falsy", "nonstring"} /\ ~registered)
                        => Decide(c, flagged, registered, ser).what = "error"
=============================================================================
