----------------------------- MODULE Gen_SockIO -----------------------------
(* Script generation for C17: every sequence (length 0..MaxLen) of socket behaviours, for every request size
   1..MaxN.  One SCRIPT line per state; breadth-first search with the history in the state visits each once. *)
EXTENDS Integers, Sequences, TLC, Json
CONSTANTS MaxN, MaxLen
VARIABLES n, h
Beh(m) == [k : {"deliver"}, n : 1..m] \cup
          [k : {"eintr", "eagain", "ewouldblock", "reset", "pipe", "eof", "timeout"}, n : {0}]
Init == n \in 1..MaxN /\ h = <<>>
Next == /\ Len(h) < MaxLen
        /\ \E b \in Beh(n) : h' = Append(h, b)
        /\ n' = n
Emit == PrintT("SCRIPT " \o ToJson([n |-> n, s |-> h]))
=============================================================================
