SPECIFICATION Spec
CONSTANTS M = 9
  NCalls = 4
  Retries = 1
  CheckSeq = TRUE
  ReleaseOnError = TRUE
  Oneway = {2}
INVARIANT ReturnOwn
INVARIANT ExecBound
INVARIANT ReturnedRanOnce
INVARIANT ReturnedRan
PROPERTY Recovery
CHECK_DEADLOCK FALSE
