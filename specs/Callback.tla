------------------------------ MODULE Callback ------------------------------
(***************************************************************************)
(* Callbacks (extra module E12).                                            *)
(*                                                                          *)
(* Side A hands side B a proxy for an object of A's own daemon; B's method  *)
(* calls it back.  The object has a plain exposed method (note) and one     *)
(* marked @callback (cnote); each either returns or raises.  B reaches it   *)
(* by a normal call, a oneway call, or a batch of one; B's proxy retries a  *)
(* failed call R times.  B's method either catches what the callback raised *)
(* and reports it, or lets it travel on to A.                               *)
(*                                                                          *)
(* What the code does, and what this module writes down:                    *)
(*  - the callback runs exactly once per step that reaches A's daemon       *)
(*  - an exception of the callback is the answer of B's call in every case  *)
(*    but oneway (nobody waits for it)                                      *)
(*  - only for a @callback method reached by a normal call the exception is *)
(*    *also* raised inside A's daemon, after the answer was sent: A's       *)
(*    server drops the connection the call came in on (DropAfterAnswer).    *)
(*    Not for a batch member, not for a oneway call (deliberately as the    *)
(*    code has it: neither sets the callback mark).                         *)
(*  - B's proxy learns of the dropped connection at its next step: a normal *)
(*    call fails with ConnectionClosedError and is retried on a fresh       *)
(*    connection if R > 0; a batch is never retried; a oneway call is       *)
(*    written into the dead connection and is lost without a word (named    *)
(*    LostOneway: what TCP does with the first write after the peer closed) *)
(*  - an exception that B lets through arrives at A with its class and      *)
(*    text; A's connection to B is never disturbed by any of this          *)
(***************************************************************************)
EXTENDS Naturals, Sequences, FiniteSets
CONSTANTS R, MaxLen
Ms == {"note", "cnote"}
Ways == {"call", "oneway", "batch"}
Outs == {"ok", "raise"}
StepT == [m : Ms, way : Ways, out : Outs, catch : BOOLEAN]
DropsAfterAnswer(s) == s.m = "cnote" /\ s.way = "call" /\ s.out = "raise"
\* the effect of one step on a connection in state c ("none" | "open" | "stale"):
\* conn after, executions, connections made, disconnects seen by A's daemon, what B's method sees
EffR(r, c, s) ==
    IF c = "stale" /\ s.way = "oneway" THEN [conn |-> "stale", exec |-> 0, connect |-> 0, drop |-> 0, seen |-> "ok"]          \* LostOneway
    ELSE IF c = "stale" /\ (s.way = "batch" \/ r = 0) THEN [conn |-> "none", exec |-> 0, connect |-> 0, drop |-> 0, seen |-> "closed"]
    ELSE [conn |-> IF DropsAfterAnswer(s) THEN "stale" ELSE "open",
          exec |-> 1,
          connect |-> IF c = "open" THEN 0 ELSE 1,
          drop |-> IF DropsAfterAnswer(s) THEN 1 ELSE 0,
          seen |-> IF s.way = "oneway" \/ s.out = "ok" THEN "ok" ELSE "err"]
Eff(c, s) == EffR(R, c, s)
\* how B's method ends the step towards A
How(s, seen) == IF seen = "err" /\ ~s.catch THEN "raised" ELSE "returned"

VARIABLES plan, pc, conn, execs, connects, drops, seen
vars == <<plan, pc, conn, execs, connects, drops, seen>>
Init == /\ plan \in UNION {[1..n -> StepT] : n \in 1..MaxLen}
        /\ pc = 1 /\ conn = "none" /\ execs = 0 /\ connects = 0 /\ drops = 0 /\ seen = <<>>
DoStep == /\ pc <= Len(plan)
          /\ LET e == Eff(conn, plan[pc]) IN
             /\ conn' = e.conn /\ execs' = execs + e.exec /\ connects' = connects + e.connect /\ drops' = drops + e.drop
             /\ seen' = Append(seen, e.seen)
          /\ pc' = pc + 1 /\ UNCHANGED plan
\* B lets go of its proxy at the end: a connection that is still open is closed, which A's daemon sees as one more disconnect
Release == /\ pc = Len(plan) + 1 /\ pc' = pc + 1
           /\ drops' = drops + (IF conn = "open" THEN 1 ELSE 0) /\ conn' = "none"
           /\ UNCHANGED <<plan, execs, connects, seen>>
Next == DoStep \/ Release
Spec == Init /\ [][Next]_vars

Done(k) == k < pc /\ k <= Len(plan)
ExactlyOnce == execs = Cardinality({k \in 1..Len(seen) : seen[k] # "closed" /\ ~(seen[k] = "ok" /\ plan[k].way = "oneway" /\ k > 1 /\ \E j \in 1..(k-1) : DropsAfterAnswer(plan[j]) /\ seen[j] = "err" /\ \A i \in (j+1)..(k-1) : plan[i].way = "oneway")})
\* a failure that is not the callback's own answer happens only right after a drop (with nothing but lost oneway calls in between)
ClosedOnlyAfterDrop == \A k \in 1..Len(seen) : seen[k] = "closed" =>
                          \E j \in 1..(k-1) : /\ DropsAfterAnswer(plan[j]) /\ seen[j] = "err"
                                              /\ \A i \in (j+1)..(k-1) : plan[i].way = "oneway"
                                              /\ (R = 0 \/ plan[k].way = "batch")
\* the exception of the callback is B's answer whenever somebody waits for one
AnswerIsTheException == \A k \in 1..Len(seen) : (seen[k] = "err") => plan[k].out = "raise" /\ plan[k].way # "oneway"
NoAnswerInvented == \A k \in 1..Len(seen) : (plan[k].out = "raise" /\ plan[k].way # "oneway") => seen[k] \in {"err", "closed"}
\* a plain method, a batch member or a oneway call never costs the connection
OnlyCallbacksDrop == drops <= Cardinality({k \in 1..Len(seen) : DropsAfterAnswer(plan[k])}) + (IF pc = Len(plan) + 2 THEN 1 ELSE 0)
\* every connection made is accounted for at the end: dropped by A after a callback's exception, or closed by B's release
Balanced == pc = Len(plan) + 2 => connects = drops
=============================================================================
