--------------------------- MODULE Trace_Combine ---------------------------
(***************************************************************************)
(* Trace validation for E13 (monitor).  One trace per script: the steps    *)
(* (combine x y | start r) and, for every daemon, what two clients found    *)
(* that connected to its location after the loop was started - one right    *)
(* away, one after the first had been served: who validated the handshake,  *)
(* whose object answered the call (a daemon's name, or "nobody" when the    *)
(* connection was never served within the client's timeout), and whether    *)
(* a combine step raised.                                                   *)
(***************************************************************************)
EXTENDS Naturals, Sequences, TLC, Json, IOUtils
Daemons == {"a", "b", "c"}
VARIABLES group, running
C == INSTANCE Combine
Traces == JsonDeserialize(IOEnv.TRACE_FILE)
NT == Len(Traces)
VARIABLES t, l, bad
vars == <<t, l, bad, group, running>>
X == Traces[t]
Init == t \in 1..NT /\ l = 1 /\ bad = "" /\ C!Init
Apply == /\ l <= Len(X.steps) /\ bad = ""
         /\ LET s == X.steps[l] IN
            IF s.a = "combine"
            THEN /\ C!Combine(s.x, s.y)
                 /\ bad' = IF s.out # "ok" THEN "E13.CombineRefused" ELSE ""
            ELSE C!Start(s.x) /\ bad' = ""
         /\ l' = l + 1 /\ t' = t
Judge == /\ l = Len(X.steps) + 1 /\ bad = "" /\ l' = l + 1 /\ t' = t /\ UNCHANGED <<group, running>>
         /\ bad' = LET wrong == {d \in Daemons : \E k \in {"first", "second"} :
                                   \/ X.seen[d][k].answered # C!AnsweredBy(d)
                                   \/ (C!Served(d) /\ X.seen[d][k].validated # d)} IN
                   IF X.hang THEN "E13.Hang"
                   ELSE IF \E d \in wrong : \E k \in {"first", "second"} : X.seen[d][k].answered \notin {d, "nobody"} THEN "E13.AnsweredByAnotherDaemon"
                   ELSE IF \E d \in wrong : \E k \in {"first", "second"} : C!Served(d) /\ X.seen[d][k].answered = d /\ X.seen[d][k].validated # d THEN "E13.ValidatedByAnotherDaemon"
                   ELSE IF \E d \in wrong : C!Served(d) THEN "E13.MemberOfTheGroupNotServed"
                   ELSE IF wrong # {} THEN "E13.ServedOutsideTheGroup"
                   ELSE "ok"
Spec == Init /\ [][Apply \/ Judge]_vars
Ended == bad # "" \/ l = Len(X.steps) + 2
Verdict == Ended => PrintT(<<"VERDICT", t, IF bad = "ok" THEN "" ELSE bad>>)
=============================================================================
