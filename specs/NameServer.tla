----------------------------- MODULE NameServer -----------------------------
(***************************************************************************)
(* The Pyro5 name server as the simple map that properties C14/C15         *)
(* describe: names -> (uri, set of metadata tags).                         *)
(*                                                                         *)
(* Names are sequences over a small alphabet of character codes so that    *)
(* "prefix" and the regex kinds have their literal, case-sensitive         *)
(* sequence meaning:                                                       *)
(*    1 'b'   2 'B'   3 '%'   4 '_'   5 (non-ASCII letter)   6 '+'         *)
(*    7 the reserved name "Pyro.NameServer" as one token (only <<7>>)      *)
(* Apply(m, o) gives the new map and the exact result of operation o.      *)
(* Both trace specifications (sequential conformance of both storage       *)
(* back-ends, C14; linearizability of concurrent histories, C15) and the   *)
(* model below use it, so there is one definition of what the name server  *)
(* means.                                                                  *)
(***************************************************************************)
EXTENDS Naturals, Sequences, FiniteSets

Reserved == <<7>>

Range(s) == {s[i] : i \in 1..Len(s)}
IsPrefix(p, s) == Len(p) <= Len(s) /\ SubSeq(s, 1, Len(p)) = p
IsSuffix(p, s) == Len(p) <= Len(s) /\ SubSeq(s, Len(s) - Len(p) + 1, Len(s)) = p
Contains(p, s) == \E i \in 0..(Len(s) - Len(p)) : SubSeq(s, i + 1, i + Len(p)) = p

\* abstract regexes: kind + literal argument (concretised with re.escape); matching is anchored at the start (re.match)
RegexMatch(kind, arg, s) ==
    CASE kind = "prefix"   -> IsPrefix(arg, s)
      [] kind = "exact"    -> s = arg
      [] kind = "suffix"   -> IsSuffix(arg, s)
      [] kind = "contains" -> Contains(arg, s)
      [] kind = "any"      -> TRUE
      [] OTHER             -> FALSE

Entry(m, n) == [name |-> n, uri |-> m[n].uri, tags |-> m[n].tags]
Entries(m, S) == {Entry(m, n) : n \in S}
Put(m, n, u, t) == [x \in DOMAIN m \cup {n} |-> IF x = n THEN [uri |-> u, tags |-> t] ELSE m[x]]
Drop(m, S) == [x \in DOMAIN m \ S |-> m[x]]

\* the set of names an operation's selector designates (an empty/absent selector designates nothing)
Selected(m, o) ==
    CASE o.sel = "prefix" -> IF o.arg = <<>> THEN {} ELSE {n \in DOMAIN m : IsPrefix(o.arg, n)}
      [] o.sel = "regex"  -> IF o.kind = "empty" THEN {} ELSE {n \in DOMAIN m : RegexMatch(o.kind, o.arg, n)}
      [] o.sel = "name"   -> IF o.arg = <<>> THEN {} ELSE {n \in DOMAIN m : n = o.arg}
      [] OTHER            -> {}

Res(kind) == [r |-> kind, n |-> 0, uri |-> 0, tags |-> {}, items |-> {}]

(* Apply: operation records
     register     [op, name, uri, safe, tags(seq)]
     remove       [op, sel, arg, kind]
     set_metadata [op, name, tags(seq)]
     lookup       [op, name]
     list         [op, sel ("all"|"prefix"|"regex"), arg, kind]
     yplookup     [op, mode ("all"|"any"), tags(seq)]
     count        [op]                                                                                  *)
Apply(m, o) ==
    CASE o.op = "register" ->
            IF o.safe /\ o.name \in DOMAIN m
            THEN [m |-> m, res |-> Res("NamingError")]
            ELSE [m |-> Put(m, o.name, o.uri, Range(o.tags)), res |-> Res("ok")]
      [] o.op = "remove" ->
            IF o.sel = "regex" /\ o.kind = "invalid"
            THEN [m |-> m, res |-> Res("error")]
            ELSE LET S == Selected(m, o) \ {Reserved} IN
                 [m |-> Drop(m, S), res |-> [Res("count") EXCEPT !.n = Cardinality(S)]]
      [] o.op = "set_metadata" ->
            IF o.name \in DOMAIN m
            THEN [m |-> Put(m, o.name, m[o.name].uri, Range(o.tags)), res |-> Res("ok")]
            ELSE [m |-> m, res |-> Res("NamingError")]
      [] o.op = "lookup" ->
            IF o.name \in DOMAIN m
            THEN [m |-> m, res |-> [Res("entry") EXCEPT !.uri = m[o.name].uri, !.tags = m[o.name].tags]]
            ELSE [m |-> m, res |-> Res("NamingError")]
      [] o.op = "list" ->
            IF o.sel = "regex" /\ o.kind = "invalid"
            THEN [m |-> m, res |-> Res("error")]
            ELSE LET S == IF o.sel = "all" \/ (o.sel = "prefix" /\ o.arg = <<>>) \/ (o.sel = "regex" /\ o.kind = "empty")
                          THEN DOMAIN m ELSE Selected(m, o) IN
                 [m |-> m, res |-> [Res("items") EXCEPT !.items = Entries(m, S)]]
      [] o.op = "yplookup" ->
            LET q == Range(o.tags)
                S == IF q = {} THEN {}
                     ELSE IF o.mode = "all" THEN {n \in DOMAIN m : q \subseteq m[n].tags}
                     ELSE {n \in DOMAIN m : q \cap m[n].tags # {}} IN
            [m |-> m, res |-> [Res("items") EXCEPT !.items = Entries(m, S)]]
      [] o.op = "count" -> [m |-> m, res |-> [Res("count") EXCEPT !.n = Cardinality(DOMAIN m)]]
      [] OTHER -> [m |-> m, res |-> Res("unknown-op")]

-----------------------------------------------------------------------------
(* A small model of the design for TLC: any history of operations over a name pool keeps the map well-formed. *)
CONSTANTS Names, Uris, Tags, Prefixes
VARIABLES map, last, lastop
EmptyMap == [x \in {} |-> 0]
Ops == [op : {"register"}, name : Names, uri : Uris, safe : BOOLEAN, tags : {<<>>} \cup {<<t>> : t \in Tags}]
       \cup [op : {"remove"}, sel : {"name"}, arg : Names, kind : {"none"}]
       \cup [op : {"remove"}, sel : {"prefix"}, arg : Prefixes, kind : {"none"}]
       \cup [op : {"remove"}, sel : {"regex"}, arg : Prefixes, kind : {"prefix", "suffix", "contains", "any"}]
       \cup [op : {"set_metadata"}, name : Names, tags : {<<>>} \cup {<<t>> : t \in Tags}]
mvars == <<map, last, lastop>>
Init == map = Put(EmptyMap, Reserved, 0, {}) /\ last = Res("none") /\ lastop = [op |-> "none"]
Do(o) == LET a == Apply(map, o) IN map' = a.m /\ last' = a.res /\ lastop' = o
Next == \E o \in Ops : Do(o)
Spec == Init /\ [][Next]_mvars

ReservedStays == Reserved \in DOMAIN map
\* a removal reports exactly the number of entries that disappeared; everything else is untouched
RemoveCountExact == [][lastop'.op = "remove" =>
                        /\ last'.n = Cardinality(DOMAIN map) - Cardinality(DOMAIN map')
                        /\ \A n \in DOMAIN map' : map'[n] = map[n]]_mvars
SafeNeverOverwrites == [][(lastop'.op = "register" /\ lastop'.safe /\ lastop'.name \in DOMAIN map) => map' = map]_mvars
PrefixIsLiteral == [][(lastop'.op = "remove" /\ lastop'.sel = "prefix") =>
                        \A n \in DOMAIN map \ DOMAIN map' : IsPrefix(lastop'.arg, n)]_mvars
=============================================================================
