------------------------------- MODULE Timing -------------------------------
(***************************************************************************)
(* Time (extra module E10): what the communication timeouts and the retry   *)
(* settings mean for a caller.  Time is counted in tenths of a second.      *)
(*                                                                          *)
(* One proxy, one daemon.  The proxy has a timeout tmo (0 = none), which    *)
(* can be changed while it is connected, and a retry limit R.  The daemon   *)
(* has an idle timeout S (COMMTIMEOUT, 0 = none) and is a thread-pool or a  *)
(* multiplex server.  The connection as the two ends see it:                *)
(*   none   the proxy is not connected                                      *)
(*   up     connected, the daemon is waiting for the next request           *)
(*   stale  the daemon has dropped the connection (idle for longer than S); *)
(*          the proxy has not noticed yet                                   *)
(* A call of a method that takes d:                                         *)
(*   - not connected: the proxy connects first (takes no time here)         *)
(*   - stale: the request goes nowhere, the proxy sees the closed           *)
(*     connection at once; the method does not run                          *)
(*   - d shorter than the timeout (or no timeout): the result after d       *)
(*   - d longer: a timeout error after exactly tmo; the method still runs   *)
(*     to its end at the daemon; the proxy drops the connection             *)
(*   closed-connection and timeout errors are retried up to R times, each   *)
(*   time over a new connection.                                            *)
(* Only a thread-pool server drops idle connections: its worker waits for   *)
(* the next request with the timeout; the multiplex server looks at a       *)
(* connection only when something has arrived on it.                        *)
(***************************************************************************)
EXTENDS Naturals, Sequences

Attempt(conn, d, tmo) ==
    IF conn = "stale" THEN [out |-> "closed", dur |-> 0, exec |-> 0]
    ELSE IF tmo > 0 /\ d > tmo THEN [out |-> "timeout", dur |-> tmo, exec |-> 1]
    ELSE [out |-> "ret", dur |-> d, exec |-> 1]

\* the whole call: [out, dur, exec]; left = retries still allowed
RECURSIVE DoCall(_, _, _, _)
DoCall(conn, d, tmo, left) ==
    LET a == Attempt(conn, d, tmo) IN
    IF a.out = "ret" \/ left = 0 THEN a
    ELSE LET r == DoCall("none", d, tmo, left - 1) IN [out |-> r.out, dur |-> a.dur + r.dur, exec |-> a.exec + r.exec]

\* does the daemon drop a connection that has been idle since `since` by the time `t`?
Dropped(server, S, since, t) == server = "thread" /\ S > 0 /\ t - since > S

\* _pyroReconnect(tries) towards a location where nothing listens until `up` tenths from now (up = 0: never): one attempt
\* every 2 seconds, the first at once.  [ok, dur]
ReconnectOutcome(tries, up) ==
    LET hits == {k \in 0..(tries - 1) : up > 0 /\ 20 * k > up} IN
    IF hits = {} THEN [ok |-> FALSE, dur |-> 20 * (tries - 1)]
    ELSE [ok |-> TRUE, dur |-> 20 * (CHOOSE k \in hits : \A j \in hits : k <= j)]

-----------------------------------------------------------------------------
CONSTANTS Server, S, R, Durations, Idles, Timeouts, MaxTime
VARIABLES now, conn, since, tmo, last
\* since: when the daemon started waiting for the next request on the connection; last: outcome of the latest call (for the properties)
vars == <<now, conn, since, tmo, last>>
NoCall == [out |-> "none", dur |-> 0, exec |-> 0, d |-> 0, tmo |-> 0, was |-> "none"]
Init == now = 0 /\ conn = "none" /\ since = 0 /\ tmo \in Timeouts /\ last = NoCall
\* what the connection is once the idle time up to `t` is taken into account
ConnAt(t) == IF conn = "up" /\ Dropped(Server, S, since, t) THEN "stale" ELSE conn
Call(d) == /\ now < MaxTime
           /\ LET c == ConnAt(now)
                  r == DoCall(c, d, tmo, R)
                  \* after a call that did not return, the script waits until whatever still runs at the daemon has finished
                  rest == IF r.out = "ret" THEN 0 ELSE d IN
              /\ last' = [out |-> r.out, dur |-> r.dur, exec |-> r.exec, d |-> d, tmo |-> tmo, was |-> c]
              /\ now' = now + r.dur + rest
              /\ conn' = IF r.out = "ret" THEN "up" ELSE "none"
              /\ since' = IF r.out = "ret" THEN now + r.dur ELSE since
           /\ UNCHANGED tmo
Idle(dt) == now < MaxTime /\ now' = now + dt /\ UNCHANGED <<conn, since, tmo, last>>
SetTimeout(v) == tmo' = v /\ v # tmo /\ UNCHANGED <<now, conn, since, last>>
Next == (\E d \in Durations : Call(d)) \/ (\E dt \in Idles : Idle(dt)) \/ (\E v \in Timeouts : SetTimeout(v))
Spec == Init /\ [][Next]_vars

\* ---- what a caller can rely on ----
\* a call never runs its method more often than once per attempt, and only a call that got through runs it at all
ExecBound == last.exec <= R + 1 /\ (last.out = "ret" => last.exec = 1)
\* with a timeout set, no call keeps its caller longer than (R + 1) timeouts
Bounded == last.tmo > 0 => last.dur <= (R + 1) * last.tmo
\* a method shorter than the timeout, called over a live or a fresh connection, returns after exactly its own time
ShortCallsReturn == (last.out # "none" /\ (last.tmo = 0 \/ last.d < last.tmo) /\ last.was # "stale") => (last.out = "ret" /\ last.dur = last.d)
\* a connection the daemon has dropped costs one failed attempt and nothing else: with a retry allowed the call still gets through
StaleCostsOneAttempt == (last.was = "stale" /\ R >= 1 /\ (last.tmo = 0 \/ last.d < last.tmo)) => (last.out = "ret" /\ last.exec = 1)
\* the multiplex server never drops an idle connection
MultiplexKeepsIdle == Server = "multiplex" => last.was # "stale"
=============================================================================
