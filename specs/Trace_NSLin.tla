----------------------------- MODULE Trace_NSLin -----------------------------
(***************************************************************************)
(* Trace validation for C15 (search mode): linearizability of a history of *)
(* concurrent name-server operations against the map of NameServer.tla.    *)
(* Events: init(listing), call(th, o), ret(th, result), end(listing).      *)
(* The atomic effect of each operation (NS!Apply) is not logged: TLC       *)
(* places it between the call and the return.  A result that is an         *)
(* internal error (anything but a naming error) never matches.             *)
(***************************************************************************)
EXTENDS Naturals, Sequences, FiniteSets, TLC, TLCExt, Json, IOUtils
CONSTANTS Names, Uris, Tags, Prefixes
VARIABLES map, last, lastop
NS == INSTANCE NameServer
Traces == JsonDeserialize(IOEnv.TRACE_FILE)
NT == Len(Traces)
ASSUME \A i \in 1..NT : TLCSet(i, FALSE)
Threads == 1..4
VARIABLES t, l, pend, eff
vars == <<t, l, map, pend, eff, last, lastop>>
Tr == Traces[t]
Ev == Tr[l]
More == l <= Len(Tr)
None == [op |-> "none"]
NoRes == [r |-> "none"]

NormItems(s) == {[name |-> s[i].name, uri |-> s[i].uri, tags |-> NS!Range(s[i].tags)] : i \in 1..Len(s)}
Strip(S) == {[e EXCEPT !.tags = {}] : e \in S}
Match(r, x, o) ==
    CASE x.r = "error"       -> r.r = "NamingError"
      [] x.r = "NamingError" -> r.r = "NamingError"
      [] x.r = "ok"          -> r.r = "ok"
      [] x.r = "count"       -> r.r = "count" /\ r.n = x.n
      [] x.r = "entry"       -> r.r = "entry" /\ r.uri = x.uri /\ NS!Range(r.tags) = (IF o.meta THEN x.tags ELSE {})
      [] x.r = "items"       -> r.r = "items" /\ NormItems(r.items) = (IF o.meta THEN x.items ELSE Strip(x.items))
      [] OTHER               -> FALSE

MapOf(items) == LET S == NormItems(items) IN
                [n \in {e.name : e \in S} |-> LET e == CHOOSE x \in S : x.name = n IN [uri |-> e.uri, tags |-> e.tags]]

Init == /\ t \in 1..NT /\ l = 2
        /\ map = MapOf(Traces[t][1].list)
        /\ pend = [th \in Threads |-> None] /\ eff = [th \in Threads |-> NoRes]
        /\ last = 0 /\ lastop = 0
Call == /\ More /\ Ev.e = "call" /\ pend[Ev.th] = None
        /\ pend' = [pend EXCEPT ![Ev.th] = Ev.o] /\ l' = l + 1
        /\ UNCHANGED <<t, map, eff, last, lastop>>
Effect(th) == /\ pend[th] # None /\ eff[th] = NoRes
              /\ LET a == NS!Apply(map, pend[th]) IN map' = a.m /\ eff' = [eff EXCEPT ![th] = a.res]
              /\ UNCHANGED <<t, l, pend, last, lastop>>
Ret == /\ More /\ Ev.e = "ret" /\ eff[Ev.th] # NoRes /\ Match(Ev.r, eff[Ev.th], pend[Ev.th])
       /\ pend' = [pend EXCEPT ![Ev.th] = None] /\ eff' = [eff EXCEPT ![Ev.th] = NoRes] /\ l' = l + 1
       /\ UNCHANGED <<t, map, last, lastop>>
End == /\ More /\ Ev.e = "end" /\ \A th \in Threads : pend[th] = None
       /\ NormItems(Ev.list) = NS!Entries(map, DOMAIN map)
       /\ l' = l + 1 /\ UNCHANGED <<t, map, pend, eff, last, lastop>>
Next == Call \/ Ret \/ End \/ \E th \in Threads : Effect(th)
Spec == Init /\ [][Next]_vars
Constr == (l = Len(Tr) + 1) => TLCSet(t, TRUE)
Post == LET rej == {i \in 1..NT : TLCGet(i) # TRUE} IN
        IF rej = {} THEN TRUE ELSE PrintT(<<"REJECTED", rej>>) /\ FALSE
=============================================================================
