SPECIFICATION Spec
CONSTANTS Threads = {1, 2, 3}
  Ops <- Mixed
  Present = FALSE
  UseLock = TRUE
INVARIANT OneSafeWinner
INVARIANT RemoveTotalOne
INVARIANT NoInternalError
INVARIANT SafeRespectsPresence
CHECK_DEADLOCK FALSE
