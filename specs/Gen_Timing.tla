----------------------------- MODULE Gen_Timing -----------------------------
(* Scripts for E10: every sequence (up to MaxLen) of calls of methods of several lengths, idle periods and changes of the proxy's
   timeout; and the reconnect cases (number of tries x when the location comes up). *)
EXTENDS Naturals, Sequences, TLC, Json
CONSTANTS MaxLen, Durations, Idles, Timeouts
Steps == [a : {"call"}, v : Durations] \cup [a : {"idle"}, v : Idles] \cup [a : {"settimeout"}, v : Timeouts]
VARIABLES h, done
Init == h = <<>> /\ done = FALSE
Next == \/ ~done /\ Len(h) < MaxLen /\ \E s \in Steps : h' = Append(h, s) /\ done' = FALSE
        \/ ~done /\ h # <<>> /\ PrintT("SCRIPT " \o ToJson(h)) /\ done' = TRUE /\ h' = h
\* reconnect cases
RInit == h = <<>> /\ done = FALSE
RNext == /\ ~done /\ done' = TRUE /\ h' = h
         /\ \A n \in {1, 2, 3, 5}, u \in {0, 10, 30, 50, 70, 90} : PrintT("SCRIPT " \o ToJson([tries |-> n, up |-> u]))
=============================================================================
