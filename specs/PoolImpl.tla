------------------------------ MODULE PoolImpl ------------------------------
(***************************************************************************)
(* Pyro5.svr_threads.Pool / Worker at statement granularity (one label per *)
(* source statement that touches shared state), for exhaustive exploration *)
(* of the races between the accept loop (process), workers finishing       *)
(* (notify_done) and close.  UseLock = TRUE is the code with count_lock    *)
(* taken in process / notify_done / close; UseLock = FALSE is the pinned   *)
(* code, where the lock exists but is never acquired (TLC then finds the   *)
(* WorkerBound violation in a few hundred states).                         *)
(***************************************************************************)
EXTENDS Naturals, FiniteSets, Sequences, TLC
CONSTANTS Size, Min, NJobs, UseLock, MaxW, DoClose
Workers == 1..MaxW
Jobs == 1..NJobs
None == 0
ACC == 100
CLS == 101
(* --algorithm PoolImpl
variables idle = 1..Min, busy = {}, started = 1..Min, closed = FALSE, lock = 0,
          slot = [x1 \in Workers |-> None], ev = [x2 \in Workers |-> FALSE],
          runs = [x3 \in Jobs |-> 0], refused = {}, accepted = {}, exited = {};
define
  NumWorkers == Cardinality(idle) + Cardinality(busy)
  FreshWorker == CHOOSE ww \in Workers : ww \notin started
end define;
macro Acquire(me) begin if UseLock then await lock = 0; lock := me; end if; end macro;
macro Release() begin if UseLock then lock := 0; end if; end macro;

\* Pool.process(job), called by the accept loop for job j = 1, 2, ...
fair process accept = ACC
variables j = 1, w = None;
begin
A0: while j <= NJobs do
P0:   Acquire(ACC);
P1:   if closed then                       \* raise PoolError("job queue is closed")
        goto P8;
      end if;
P2:   if idle # {} then
P3:     with x \in idle do w := x; idle := idle \ {x}; end with;
        goto P6;
      elsif NumWorkers < Size /\ Cardinality(started) < MaxW then
P4:     w := FreshWorker; started := started \cup {w};      \* Worker(self); worker.start()
        goto P6;
      else
P5:     refused := refused \cup {j}; w := None;             \* raise NoFreeWorkersError
        goto P8;
      end if;
P6:   busy := busy \cup {w};
P7:   slot[w] := j || ev[w] := TRUE;                        \* worker.process(job)
      accepted := accepted \cup {j};
P8:   Release();
      j := j + 1;
    end while;
end process;

\* Pool.close()
fair process closer = CLS
variables todo = {};
begin
C0: await DoClose;
C1: if ~closed then
C2:   Acquire(CLS);
C3:   todo := busy;
C4:   while todo # {} do
        with x \in todo do slot[x] := None || ev[x] := TRUE; todo := todo \ {x}; end with;
      end while;
C5:   todo := idle;
C6:   while todo # {} do
        with x \in todo do slot[x] := None || ev[x] := TRUE; todo := todo \ {x}; end with;
      end while;
C7:   closed := TRUE;
C8:   Release();
C9:   idle := {} || busy := {};
    end if;
end process;

\* Worker.run() with Pool.notify_done(self) inlined
fair process worker \in Workers
variables cur = None;
begin
W0: await self \in started;
W1: await ev[self];                                          \* job_available.wait()
W2: ev[self] := FALSE;                                       \* job_available.clear()
W3: if slot[self] = None then goto WX; end if;
W4: cur := slot[self];                                       \* self.job()
    if cur # None then runs[cur] := runs[cur] + 1; end if;
W5: slot[self] := None;                                      \* self.job = None
N0: Acquire(self);                                           \* pool.notify_done(self)
N1: busy := busy \ {self};
N2: if closed then slot[self] := None || ev[self] := TRUE; goto N5; end if;
N3: if Cardinality(idle) >= Min then
N3a:  slot[self] := None || ev[self] := TRUE;
    else
N4:   idle := idle \cup {self};
    end if;
N5: Release();
    goto W1;
WX: exited := exited \cup {self};
end process;
end algorithm; *)
\* BEGIN TRANSLATION
VARIABLES pc, idle, busy, started, closed, lock, slot, ev, runs, refused, 
          accepted, exited

(* define statement *)
NumWorkers == Cardinality(idle) + Cardinality(busy)
FreshWorker == CHOOSE ww \in Workers : ww \notin started

VARIABLES j, w, todo, cur

vars == << pc, idle, busy, started, closed, lock, slot, ev, runs, refused, 
           accepted, exited, j, w, todo, cur >>

ProcSet == {ACC} \cup {CLS} \cup (Workers)

Init == (* Global variables *)
        /\ idle = 1..Min
        /\ busy = {}
        /\ started = 1..Min
        /\ closed = FALSE
        /\ lock = 0
        /\ slot = [x1 \in Workers |-> None]
        /\ ev = [x2 \in Workers |-> FALSE]
        /\ runs = [x3 \in Jobs |-> 0]
        /\ refused = {}
        /\ accepted = {}
        /\ exited = {}
        (* Process accept *)
        /\ j = 1
        /\ w = None
        (* Process closer *)
        /\ todo = {}
        (* Process worker *)
        /\ cur = [self \in Workers |-> None]
        /\ pc = [self \in ProcSet |-> CASE self = ACC -> "A0"
                                        [] self = CLS -> "C0"
                                        [] self \in Workers -> "W0"]

A0 == /\ pc[ACC] = "A0"
      /\ IF j <= NJobs
            THEN /\ pc' = [pc EXCEPT ![ACC] = "P0"]
            ELSE /\ pc' = [pc EXCEPT ![ACC] = "Done"]
      /\ UNCHANGED << idle, busy, started, closed, lock, slot, ev, runs, 
                      refused, accepted, exited, j, w, todo, cur >>

P0 == /\ pc[ACC] = "P0"
      /\ IF UseLock
            THEN /\ lock = 0
                 /\ lock' = ACC
            ELSE /\ TRUE
                 /\ lock' = lock
      /\ pc' = [pc EXCEPT ![ACC] = "P1"]
      /\ UNCHANGED << idle, busy, started, closed, slot, ev, runs, refused, 
                      accepted, exited, j, w, todo, cur >>

P1 == /\ pc[ACC] = "P1"
      /\ IF closed
            THEN /\ pc' = [pc EXCEPT ![ACC] = "P8"]
            ELSE /\ pc' = [pc EXCEPT ![ACC] = "P2"]
      /\ UNCHANGED << idle, busy, started, closed, lock, slot, ev, runs, 
                      refused, accepted, exited, j, w, todo, cur >>

P2 == /\ pc[ACC] = "P2"
      /\ IF idle # {}
            THEN /\ pc' = [pc EXCEPT ![ACC] = "P3"]
            ELSE /\ IF NumWorkers < Size /\ Cardinality(started) < MaxW
                       THEN /\ pc' = [pc EXCEPT ![ACC] = "P4"]
                       ELSE /\ pc' = [pc EXCEPT ![ACC] = "P5"]
      /\ UNCHANGED << idle, busy, started, closed, lock, slot, ev, runs, 
                      refused, accepted, exited, j, w, todo, cur >>

P3 == /\ pc[ACC] = "P3"
      /\ \E x \in idle:
           /\ w' = x
           /\ idle' = idle \ {x}
      /\ pc' = [pc EXCEPT ![ACC] = "P6"]
      /\ UNCHANGED << busy, started, closed, lock, slot, ev, runs, refused, 
                      accepted, exited, j, todo, cur >>

P4 == /\ pc[ACC] = "P4"
      /\ w' = FreshWorker
      /\ started' = (started \cup {w'})
      /\ pc' = [pc EXCEPT ![ACC] = "P6"]
      /\ UNCHANGED << idle, busy, closed, lock, slot, ev, runs, refused, 
                      accepted, exited, j, todo, cur >>

P5 == /\ pc[ACC] = "P5"
      /\ refused' = (refused \cup {j})
      /\ w' = None
      /\ pc' = [pc EXCEPT ![ACC] = "P8"]
      /\ UNCHANGED << idle, busy, started, closed, lock, slot, ev, runs, 
                      accepted, exited, j, todo, cur >>

P6 == /\ pc[ACC] = "P6"
      /\ busy' = (busy \cup {w})
      /\ pc' = [pc EXCEPT ![ACC] = "P7"]
      /\ UNCHANGED << idle, started, closed, lock, slot, ev, runs, refused, 
                      accepted, exited, j, w, todo, cur >>

P7 == /\ pc[ACC] = "P7"
      /\ /\ ev' = [ev EXCEPT ![w] = TRUE]
         /\ slot' = [slot EXCEPT ![w] = j]
      /\ accepted' = (accepted \cup {j})
      /\ pc' = [pc EXCEPT ![ACC] = "P8"]
      /\ UNCHANGED << idle, busy, started, closed, lock, runs, refused, exited, 
                      j, w, todo, cur >>

P8 == /\ pc[ACC] = "P8"
      /\ IF UseLock
            THEN /\ lock' = 0
            ELSE /\ TRUE
                 /\ lock' = lock
      /\ j' = j + 1
      /\ pc' = [pc EXCEPT ![ACC] = "A0"]
      /\ UNCHANGED << idle, busy, started, closed, slot, ev, runs, refused, 
                      accepted, exited, w, todo, cur >>

accept == A0 \/ P0 \/ P1 \/ P2 \/ P3 \/ P4 \/ P5 \/ P6 \/ P7 \/ P8

C0 == /\ pc[CLS] = "C0"
      /\ DoClose
      /\ pc' = [pc EXCEPT ![CLS] = "C1"]
      /\ UNCHANGED << idle, busy, started, closed, lock, slot, ev, runs, 
                      refused, accepted, exited, j, w, todo, cur >>

C1 == /\ pc[CLS] = "C1"
      /\ IF ~closed
            THEN /\ pc' = [pc EXCEPT ![CLS] = "C2"]
            ELSE /\ pc' = [pc EXCEPT ![CLS] = "Done"]
      /\ UNCHANGED << idle, busy, started, closed, lock, slot, ev, runs, 
                      refused, accepted, exited, j, w, todo, cur >>

C2 == /\ pc[CLS] = "C2"
      /\ IF UseLock
            THEN /\ lock = 0
                 /\ lock' = CLS
            ELSE /\ TRUE
                 /\ lock' = lock
      /\ pc' = [pc EXCEPT ![CLS] = "C3"]
      /\ UNCHANGED << idle, busy, started, closed, slot, ev, runs, refused, 
                      accepted, exited, j, w, todo, cur >>

C3 == /\ pc[CLS] = "C3"
      /\ todo' = busy
      /\ pc' = [pc EXCEPT ![CLS] = "C4"]
      /\ UNCHANGED << idle, busy, started, closed, lock, slot, ev, runs, 
                      refused, accepted, exited, j, w, cur >>

C4 == /\ pc[CLS] = "C4"
      /\ IF todo # {}
            THEN /\ \E x \in todo:
                      /\ /\ ev' = [ev EXCEPT ![x] = TRUE]
                         /\ slot' = [slot EXCEPT ![x] = None]
                      /\ todo' = todo \ {x}
                 /\ pc' = [pc EXCEPT ![CLS] = "C4"]
            ELSE /\ pc' = [pc EXCEPT ![CLS] = "C5"]
                 /\ UNCHANGED << slot, ev, todo >>
      /\ UNCHANGED << idle, busy, started, closed, lock, runs, refused, 
                      accepted, exited, j, w, cur >>

C5 == /\ pc[CLS] = "C5"
      /\ todo' = idle
      /\ pc' = [pc EXCEPT ![CLS] = "C6"]
      /\ UNCHANGED << idle, busy, started, closed, lock, slot, ev, runs, 
                      refused, accepted, exited, j, w, cur >>

C6 == /\ pc[CLS] = "C6"
      /\ IF todo # {}
            THEN /\ \E x \in todo:
                      /\ /\ ev' = [ev EXCEPT ![x] = TRUE]
                         /\ slot' = [slot EXCEPT ![x] = None]
                      /\ todo' = todo \ {x}
                 /\ pc' = [pc EXCEPT ![CLS] = "C6"]
            ELSE /\ pc' = [pc EXCEPT ![CLS] = "C7"]
                 /\ UNCHANGED << slot, ev, todo >>
      /\ UNCHANGED << idle, busy, started, closed, lock, runs, refused, 
                      accepted, exited, j, w, cur >>

C7 == /\ pc[CLS] = "C7"
      /\ closed' = TRUE
      /\ pc' = [pc EXCEPT ![CLS] = "C8"]
      /\ UNCHANGED << idle, busy, started, lock, slot, ev, runs, refused, 
                      accepted, exited, j, w, todo, cur >>

C8 == /\ pc[CLS] = "C8"
      /\ IF UseLock
            THEN /\ lock' = 0
            ELSE /\ TRUE
                 /\ lock' = lock
      /\ pc' = [pc EXCEPT ![CLS] = "C9"]
      /\ UNCHANGED << idle, busy, started, closed, slot, ev, runs, refused, 
                      accepted, exited, j, w, todo, cur >>

C9 == /\ pc[CLS] = "C9"
      /\ /\ busy' = {}
         /\ idle' = {}
      /\ pc' = [pc EXCEPT ![CLS] = "Done"]
      /\ UNCHANGED << started, closed, lock, slot, ev, runs, refused, accepted, 
                      exited, j, w, todo, cur >>

closer == C0 \/ C1 \/ C2 \/ C3 \/ C4 \/ C5 \/ C6 \/ C7 \/ C8 \/ C9

W0(self) == /\ pc[self] = "W0"
            /\ self \in started
            /\ pc' = [pc EXCEPT ![self] = "W1"]
            /\ UNCHANGED << idle, busy, started, closed, lock, slot, ev, runs, 
                            refused, accepted, exited, j, w, todo, cur >>

W1(self) == /\ pc[self] = "W1"
            /\ ev[self]
            /\ pc' = [pc EXCEPT ![self] = "W2"]
            /\ UNCHANGED << idle, busy, started, closed, lock, slot, ev, runs, 
                            refused, accepted, exited, j, w, todo, cur >>

W2(self) == /\ pc[self] = "W2"
            /\ ev' = [ev EXCEPT ![self] = FALSE]
            /\ pc' = [pc EXCEPT ![self] = "W3"]
            /\ UNCHANGED << idle, busy, started, closed, lock, slot, runs, 
                            refused, accepted, exited, j, w, todo, cur >>

W3(self) == /\ pc[self] = "W3"
            /\ IF slot[self] = None
                  THEN /\ pc' = [pc EXCEPT ![self] = "WX"]
                  ELSE /\ pc' = [pc EXCEPT ![self] = "W4"]
            /\ UNCHANGED << idle, busy, started, closed, lock, slot, ev, runs, 
                            refused, accepted, exited, j, w, todo, cur >>

W4(self) == /\ pc[self] = "W4"
            /\ cur' = [cur EXCEPT ![self] = slot[self]]
            /\ IF cur'[self] # None
                  THEN /\ runs' = [runs EXCEPT ![cur'[self]] = runs[cur'[self]] + 1]
                  ELSE /\ TRUE
                       /\ runs' = runs
            /\ pc' = [pc EXCEPT ![self] = "W5"]
            /\ UNCHANGED << idle, busy, started, closed, lock, slot, ev, 
                            refused, accepted, exited, j, w, todo >>

W5(self) == /\ pc[self] = "W5"
            /\ slot' = [slot EXCEPT ![self] = None]
            /\ pc' = [pc EXCEPT ![self] = "N0"]
            /\ UNCHANGED << idle, busy, started, closed, lock, ev, runs, 
                            refused, accepted, exited, j, w, todo, cur >>

N0(self) == /\ pc[self] = "N0"
            /\ IF UseLock
                  THEN /\ lock = 0
                       /\ lock' = self
                  ELSE /\ TRUE
                       /\ lock' = lock
            /\ pc' = [pc EXCEPT ![self] = "N1"]
            /\ UNCHANGED << idle, busy, started, closed, slot, ev, runs, 
                            refused, accepted, exited, j, w, todo, cur >>

N1(self) == /\ pc[self] = "N1"
            /\ busy' = busy \ {self}
            /\ pc' = [pc EXCEPT ![self] = "N2"]
            /\ UNCHANGED << idle, started, closed, lock, slot, ev, runs, 
                            refused, accepted, exited, j, w, todo, cur >>

N2(self) == /\ pc[self] = "N2"
            /\ IF closed
                  THEN /\ /\ ev' = [ev EXCEPT ![self] = TRUE]
                          /\ slot' = [slot EXCEPT ![self] = None]
                       /\ pc' = [pc EXCEPT ![self] = "N5"]
                  ELSE /\ pc' = [pc EXCEPT ![self] = "N3"]
                       /\ UNCHANGED << slot, ev >>
            /\ UNCHANGED << idle, busy, started, closed, lock, runs, refused, 
                            accepted, exited, j, w, todo, cur >>

N3(self) == /\ pc[self] = "N3"
            /\ IF Cardinality(idle) >= Min
                  THEN /\ pc' = [pc EXCEPT ![self] = "N3a"]
                  ELSE /\ pc' = [pc EXCEPT ![self] = "N4"]
            /\ UNCHANGED << idle, busy, started, closed, lock, slot, ev, runs, 
                            refused, accepted, exited, j, w, todo, cur >>

N3a(self) == /\ pc[self] = "N3a"
             /\ /\ ev' = [ev EXCEPT ![self] = TRUE]
                /\ slot' = [slot EXCEPT ![self] = None]
             /\ pc' = [pc EXCEPT ![self] = "N5"]
             /\ UNCHANGED << idle, busy, started, closed, lock, runs, refused, 
                             accepted, exited, j, w, todo, cur >>

N4(self) == /\ pc[self] = "N4"
            /\ idle' = (idle \cup {self})
            /\ pc' = [pc EXCEPT ![self] = "N5"]
            /\ UNCHANGED << busy, started, closed, lock, slot, ev, runs, 
                            refused, accepted, exited, j, w, todo, cur >>

N5(self) == /\ pc[self] = "N5"
            /\ IF UseLock
                  THEN /\ lock' = 0
                  ELSE /\ TRUE
                       /\ lock' = lock
            /\ pc' = [pc EXCEPT ![self] = "W1"]
            /\ UNCHANGED << idle, busy, started, closed, slot, ev, runs, 
                            refused, accepted, exited, j, w, todo, cur >>

WX(self) == /\ pc[self] = "WX"
            /\ exited' = (exited \cup {self})
            /\ pc' = [pc EXCEPT ![self] = "Done"]
            /\ UNCHANGED << idle, busy, started, closed, lock, slot, ev, runs, 
                            refused, accepted, j, w, todo, cur >>

worker(self) == W0(self) \/ W1(self) \/ W2(self) \/ W3(self) \/ W4(self)
                   \/ W5(self) \/ N0(self) \/ N1(self) \/ N2(self)
                   \/ N3(self) \/ N3a(self) \/ N4(self) \/ N5(self)
                   \/ WX(self)

(* Allow infinite stuttering to prevent deadlock on termination. *)
Terminating == /\ \A self \in ProcSet: pc[self] = "Done"
               /\ UNCHANGED vars

Next == accept \/ closer
           \/ (\E self \in Workers: worker(self))
           \/ Terminating

Spec == /\ Init /\ [][Next]_vars
        /\ WF_vars(accept)
        /\ WF_vars(closer)
        /\ \A self \in Workers : WF_vars(worker(self))

Termination == <>(\A self \in ProcSet: pc[self] = "Done")

\* END TRANSLATION

WorkerBound == Cardinality(idle) + Cardinality(busy) <= Size
AtMostOnce == \A jj \in Jobs : runs[jj] <= 1
RefusedNeverRuns == \A jj \in refused : runs[jj] = 0
\* refused only when the pool really is full of busy workers (checked at the moment of refusal: label P5)
RefusedOnlyWhenFull == pc[ACC] = "P5" => Cardinality(busy) >= Size
\* liveness (weak fairness of every process): accepted jobs run unless the pool closes; after close every started worker exits
AcceptedRun == \A jj \in Jobs : (jj \in accepted) ~> (runs[jj] = 1 \/ closed)
AllExit == closed ~> (started \subseteq exited)
=============================================================================
