SPECIFICATION Spec
CONSTANTS Threads = {"A", "B"}
  MaxProxies = 3
  MaxConns = 5
INVARIANT ConnectionsNotShared
PROPERTY RefusedIsNoOp
PROPERTY ServedOnOwn
CHECK_DEADLOCK FALSE
