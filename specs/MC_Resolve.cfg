SPECIFICATION Spec
CONSTANTS Names = {"n1", "n2"}
  Tags = {"t1", "t2"}
  Targets = {"A", "B"}
INVARIANT AtMostOneByName
INVARIANT NoFallback
CHECK_DEADLOCK FALSE
