SPECIFICATION Spec
CONSTANT Daemons = {"a", "b", "c"}
INVARIANT TypeOK
INVARIANT ServedByOwner
INVARIANT ServedIffSameGroup
INVARIANT RunnerServesItself
CHECK_DEADLOCK FALSE
