--------------------------- MODULE Trace_ClassTag ---------------------------
(***************************************************************************)
(* Trace validation for C04 (monitor).  One trace per decoded payload:     *)
(*  tag (class), flagged, registered, ser, path (loads | loadsCall)        *)
(*  outcome  "error" | "value";  built = abstract classes of every object  *)
(*           reachable in the decoded value ("data" for plain data,        *)
(*           "OTHER:<name>" for anything outside the closed set)           *)
(*  audit    interpreter audit events seen while decoding (import of       *)
(*           modules outside the allowed ones, exec, open, socket,         *)
(*           subprocess, os.system ...); newmods = modules that appeared   *)
(*  converter_called  the application's registered converter ran           *)
(*  outer    classes the (valid) wrapper around the tagged dict adds       *)
(***************************************************************************)
EXTENDS Naturals, Sequences, FiniteSets, TLC, Json, IOUtils
VARIABLES c, flagged, registered, ser
CT == INSTANCE ClassTag
Traces == JsonDeserialize(IOEnv.TRACE_FILE)
NT == Len(Traces)
VARIABLES t, l, bad
vars == <<t, l, bad, c, flagged, registered, ser>>
X == Traces[t]
Range(q) == {q[i] : i \in 1..Len(q)}
Init == t \in 1..NT /\ l = 1 /\ bad = "" /\ c = "" /\ flagged = FALSE /\ registered = FALSE /\ ser = ""
Check(x) ==
    LET d == CT!Decide(x.tag, x.flagged, x.registered, x.ser)
        foreign == {b \in Range(x.built) : b \notin CT!Closed \cup {"data"}} IN
    IF x.audit # <<>> /\ ~x.registered THEN "C04.SideEffect." \o x.audit[1]
    ELSE IF x.newmods # <<>> /\ ~x.registered THEN "C04.ModuleImported"
    ELSE IF foreign # {} /\ ~x.registered THEN "C04.ClassOutsideClosedSetBuilt"
    ELSE IF d.what = "error" /\ x.converts /\ x.outcome # "error" THEN
         (IF x.tag = "dunder" THEN "C04.DunderTagNotRejected" ELSE "C04.UnknownTagNotRejected")
    ELSE IF d.what = "instance" /\ x.outcome = "value" /\ x.body \notin {"nested_tag_in_args", "plain_args", "hostile_attributes", "hostile_state"}
            /\ ~(Range(x.built) \subseteq {d.cls, "data"} \cup Range(x.outer) \cup (IF d.cls = "ExcWrapper" THEN CT!Closed ELSE {}))
         THEN "C04.WrongClassBuilt"
    ELSE IF x.converter_called /\ ~x.registered THEN "C04.ConverterCalledUnregistered"
    ELSE ""
Step == l = 1 /\ l' = 2 /\ t' = t /\ bad' = Check(X) /\ UNCHANGED <<c, flagged, registered, ser>>
Spec == Init /\ [][Step]_vars
Verdict == (l = 2) => PrintT(<<"VERDICT", t, bad>>)
=============================================================================
