SPECIFICATION Spec
INVARIANT RoundTrip
INVARIANT FixedPoint
CHECK_DEADLOCK FALSE
