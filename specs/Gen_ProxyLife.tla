--------------------------- MODULE Gen_ProxyLife ---------------------------
(* Operation scripts for the proxy life cycle: every sequence up to MaxLen (or random walks), as a history of (op, thread, proxy). *)
EXTENDS ProxyLife, TLC, Json
CONSTANT MaxLen
VARIABLE h
Ev(o, t, p) == [op |-> o, t |-> t, p |-> p]
GInit == Init /\ h = <<>>
GNext == \/ /\ Len(h) < MaxLen
            /\ \E t \in Threads, p \in Proxies :
                 \/ Call(t, p) /\ h' = Append(h, Ev("call", t, p))
                 \/ Bind(t, p) /\ h' = Append(h, Ev("bind", t, p))
                 \/ Release(t, p) /\ h' = Append(h, Ev("release", t, p))
                 \/ Reconnect(t, p) /\ h' = Append(h, Ev("reconnect", t, p))
                 \/ Claim(t, p) /\ h' = Append(h, Ev("claim", t, p))
                 \/ Copy(t, p) /\ h' = Append(h, Ev("copy", t, p))
                 \/ Scoped(t, p) /\ h' = Append(h, Ev("scoped", t, p))
         \/ Len(h) = MaxLen /\ PrintT("SCRIPT " \o ToJson(h)) /\ h' = Append(h, Ev("end", "", 0)) /\ UNCHANGED vars
=============================================================================
