------------------------------- MODULE Batch -------------------------------
(***************************************************************************)
(* A batch behaves like the same calls made one after another (C11).       *)
(* Reference object: a journal (sequence of integers).  Calls:             *)
(*   add(k)      appends k, returns the sum of the journal                 *)
(*   addkw(k)    the same, argument passed by keyword                      *)
(*   read        returns the length of the journal                         *)
(*   note(k)     appends k; the member is declared oneway, so its caller   *)
(*               gets nothing (None, written 0 - 1 here) whatever it       *)
(*               returns                                                   *)
(*   fail        raises (journal unchanged)                                *)
(*   failafter(k) appends k, then raises                                   *)
(*   unexposed / private / missing   names the object does not serve       *)
(* Run(calls) is the meaning of executing a call list one by one, stopping *)
(* at (and including) the first failure.  The property says a batch, and   *)
(* a oneway batch, mean the same.                                          *)
(***************************************************************************)
EXTENDS Naturals, Sequences
Sum(s) == LET f[i \in 0..Len(s)] == IF i = 0 THEN 0 ELSE f[i - 1] + s[i] IN f[Len(s)]
IsFail(c) == c.m \in {"fail", "failafter", "unexposed", "private", "missing"}
ExcOf(c) == IF c.m \in {"fail", "failafter"} THEN "ValueError" ELSE "AttributeError"
\* effect of one call on the journal
Effect(c, j) == IF c.m \in {"add", "addkw", "failafter", "note"} THEN Append(j, c.k) ELSE j
None == 1000000      \* (stands for "nothing"; no sum or length gets that large)
ResultOf(c, j) == IF c.m \in {"add", "addkw"} THEN Sum(Append(j, c.k)) ELSE IF c.m = "note" THEN None ELSE Len(j)
\* Run: [results (of the succeeding prefix), exc ("" or the class of the first failure), pos (its index, 0 if none), journal]
RECURSIVE RunFrom(_, _, _, _)
RunFrom(calls, i, j, res) ==
    IF i > Len(calls) THEN [results |-> res, exc |-> "", pos |-> 0, journal |-> j]
    ELSE LET c == calls[i] IN
         IF IsFail(c) THEN [results |-> res, exc |-> ExcOf(c), pos |-> i, journal |-> Effect(c, j)]
         ELSE RunFrom(calls, i + 1, Effect(c, j), Append(res, ResultOf(c, j)))
Run(calls, j0) == RunFrom(calls, 1, j0, <<>>)

-----------------------------------------------------------------------------
(* model: a server executing a batch member by member (the loop of handleRequest), checked against Run *)
CONSTANTS Calls, MaxLen       \* Calls: the call alphabet (records [m, k])
VARIABLES batch, i, journal, results, failed
vars == <<batch, i, journal, results, failed>>
Init == /\ batch \in UNION {[1..n -> Calls] : n \in 0..MaxLen}
        /\ i = 1 /\ journal = <<>> /\ results = <<>> /\ failed = ""
Member == /\ failed = "" /\ i <= Len(batch)
          /\ LET c == batch[i] IN
             /\ journal' = Effect(c, journal)
             /\ IF IsFail(c) THEN failed' = ExcOf(c) /\ UNCHANGED results          \* break: nothing after it runs
                ELSE failed' = "" /\ results' = Append(results, ResultOf(c, journal))
          /\ i' = i + 1 /\ UNCHANGED batch
Spec == Init /\ [][Member]_vars
Done == failed # "" \/ i > Len(batch)
SameAsSequential == Done => LET r == Run(batch, <<>>) IN
                            /\ journal = r.journal /\ results = r.results /\ failed = r.exc
                            /\ (failed # "" => i - 1 = r.pos)
=============================================================================
