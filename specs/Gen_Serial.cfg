INIT GInit
NEXT GNext
CONSTANTS Depth = 2
CHECK_DEADLOCK FALSE
