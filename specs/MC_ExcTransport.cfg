SPECIFICATION Spec
INVARIANT AlwaysAnswered
CHECK_DEADLOCK FALSE
