---------------------------- MODULE Trace_Oneway ----------------------------
(***************************************************************************)
(* Trace validation for E05 (monitor).  A trace starts with a cfg record   *)
(* (ops, multiplex) and continues with every step of the run in the order  *)
(* it happened (one thread runs at a time under the scheduler):            *)
(*   go(c) / release(k)        environment                                 *)
(*   issue(k) / return(k, out) the client: about to send; call returned    *)
(*                             with out = ok | exc | none | other          *)
(*   spawn(k)                  the daemon starts the thread of a oneway    *)
(*   start(k) / end(k)         the method of request k begins / is over    *)
(*   quiet                     every thread is parked                      *)
(* Every step must be enabled in Oneway.tla; at quiet no internal step of  *)
(* the model may be enabled (whatever could happen has happened); at the   *)
(* end everything has run and returned.                                    *)
(***************************************************************************)
EXTENDS Naturals, Sequences, FiniteSets, TLC, Json, IOUtils
Traces == JsonDeserialize(IOEnv.TRACE_FILE)
NT == Len(Traces)
VARIABLES t, l, bad, Ops, Multiplex, st, ret, go, gate
vars == <<t, l, bad, Ops, Multiplex, st, ret, go, gate>>
Tr == Traces[t]
O == INSTANCE Oneway
Init == t \in 1..NT /\ l = 2 /\ bad = "" /\ O!InitWith(Traces[t][1].ops, Traces[t][1].multiplex)
Keep == UNCHANGED <<Ops, Multiplex, st, ret, go, gate>>
Stop(why) == bad' = why /\ l' = Len(Tr) + 1 /\ t' = t /\ Keep
Step ==
  /\ l <= Len(Tr) /\ bad = ""
  /\ LET e == Tr[l] IN
     CASE e.e = "go" -> IF ENABLED O!Go(e.c) THEN O!Go(e.c) /\ l' = l + 1 /\ t' = t /\ bad' = bad ELSE Stop("Oneway.HarnessStepNotAllowed")
       [] e.e = "release" -> IF ENABLED O!Release(e.k) THEN O!Release(e.k) /\ l' = l + 1 /\ t' = t /\ bad' = bad ELSE Stop("Oneway.HarnessStepNotAllowed")
       [] e.e = "issue" -> IF ENABLED O!Issue(e.k) THEN O!Issue(e.k) /\ l' = l + 1 /\ t' = t /\ bad' = bad ELSE Stop("Oneway.IssuedOutOfTurn")
       [] e.e = "return" ->
            IF ~ENABLED O!Return(e.k) THEN Stop(IF Ops[e.k].kind = "call" THEN "Oneway.ReplyBeforeMethodEnded" ELSE "Oneway.ReturnNotAllowed")
            ELSE IF e.out # O!Outcome(e.k) THEN Stop(IF Ops[e.k].kind = "call" THEN "Oneway.WrongOutcomeOfCall" ELSE "Oneway.OnewayReturnedSomething")
            ELSE O!Return(e.k) /\ l' = l + 1 /\ t' = t /\ bad' = bad
       [] e.e = "spawn" -> IF ENABLED O!Spawn(e.k) THEN O!Spawn(e.k) /\ l' = l + 1 /\ t' = t /\ bad' = bad
                           ELSE Stop(IF st[e.k] \notin {"sent"} THEN "Oneway.TakenUpTwiceOrUnsent" ELSE "Oneway.TakenUpOutOfTurn")
       [] e.e = "start" ->
            IF ENABLED O!Start(e.k) THEN O!Start(e.k) /\ l' = l + 1 /\ t' = t /\ bad' = bad
            ELSE Stop(IF st[e.k] \in {"running", "done"} THEN "Oneway.RunTwice"
                      ELSE IF ~O!Inline(e.k) THEN "Oneway.OnewayRunInTheHandler"
                      ELSE IF st[e.k] = "sent" /\ O!HandlerBusy(Ops[e.k].c) THEN "Oneway.HandlerDoesTwoThingsAtOnce"
                      ELSE "Oneway.TakenUpOutOfTurn")
       [] e.e = "end" -> IF ENABLED O!End(e.k) THEN O!End(e.k) /\ l' = l + 1 /\ t' = t /\ bad' = bad ELSE Stop("Oneway.EndedWithoutRunning")
       [] e.e = "quiet" ->
            IF ENABLED O!Internal THEN
               Stop(IF \E k \in 1..Len(Ops) : Ops[k].kind # "call" /\ O!CanReturn(k) THEN "Oneway.OnewayCallWaits"
                    ELSE IF \E k \in 1..Len(Ops) : ENABLED O!Spawn(k) \/ ENABLED O!Start(k) THEN "Oneway.RequestNotTakenUpAlthoughHandlerFree"
                    ELSE "Oneway.SomethingLeftWaiting")
            ELSE l' = l + 1 /\ t' = t /\ bad' = bad /\ Keep
       [] e.e = "final" ->
            IF \A k \in 1..Len(Ops) : st[k] = "done" /\ ret[k] THEN l' = l + 1 /\ t' = t /\ bad' = bad /\ Keep
            ELSE Stop("Oneway.NotEverythingRan")
       [] e.e = "hang" -> Stop("Oneway.Hang")
       [] OTHER -> Stop("Oneway.UnknownEvent")
Spec == Init /\ [][Step]_vars
Verdict == (l = Len(Tr) + 1) => PrintT(<<"VERDICT", t, bad>>)
=============================================================================
