-------------------------------- MODULE URI --------------------------------
(***************************************************************************)
(* Pyro URIs (C19) over an abstract text algebra.                          *)
(*                                                                         *)
(* An abstract text is a record                                            *)
(*   proto  PYRO | PYRONAME | PYROMETA | other     (letter case is folded) *)
(*   obj    plain | with_at | punct | tags2 | tags_dup | tags_with_empty | *)
(*          tags_only_empty                                                *)
(*   loc    none | host | emptyhost | ipv4 | v6 | v6_double | v6_bad |     *)
(*          unix | unix_empty | unix_colon                                 *)
(*   port   none | dec | zeros | plus | spaces | underscore | unidigits |  *)
(*          negative | nonnum | empty                                      *)
(* Parse gives the canonical value (or Reject), Print its text form, as    *)
(* the design intends: the text form of every accepted value parses back   *)
(* to an equal value and is a fixed point.                                 *)
(***************************************************************************)
EXTENDS Naturals, FiniteSets, Sequences

Protos == {"PYRO", "PYRONAME", "PYROMETA", "other"}
\* lead_at: the object (or the first tag) begins with an at-sign
Objs == {"plain", "with_at", "punct", "tags2", "tags_dup", "tags_with_empty", "tags_only_empty", "lead_at"}
Locs == {"none", "host", "emptyhost", "ipv4", "v6", "v6_double", "v6_bad", "unix", "unix_empty", "unix_colon"}
Ports == {"none", "dec", "zeros", "plus", "spaces", "underscore", "unidigits", "negative", "nonnum", "empty"}
Texts == [proto : Protos, obj : Objs, loc : Locs, port : Ports]
Reject == [ok |-> FALSE]

\* what int() makes of the port text; "bad" = not a number
PortValue(p) == CASE p \in {"dec", "zeros", "plus", "spaces", "underscore", "unidigits"} -> "number"
                  [] p = "negative" -> "negnumber"
                  [] p \in {"none", "empty"} -> "default"
                  [] OTHER -> "bad"
TagObjs == {"tags2", "tags_dup", "tags_with_empty", "tags_only_empty"}
\* canonical object: duplicate tags collapse (a set); empty tags are dropped; an object of only empty tags is no object
CanonObj(t) == CASE t.proto = "PYROMETA" /\ t.obj = "tags_dup" -> "tags2"
                 [] t.proto = "PYROMETA" /\ t.obj = "tags_with_empty" -> "tags2"
                 [] OTHER -> t.obj
Parse(t) ==
    IF t.proto = "other" THEN Reject
    ELSE IF t.proto = "PYROMETA" /\ t.obj = "tags_only_empty" THEN Reject
    ELSE IF t.proto = "PYRO" /\ t.loc = "none" THEN Reject                       \* a direct uri needs a location
    ELSE IF t.loc \in {"v6_double", "v6_bad", "unix_empty", "unix_colon"} THEN Reject
    ELSE IF t.loc = "none" THEN [ok |-> TRUE, proto |-> t.proto, obj |-> CanonObj(t), loc |-> "none", port |-> "none"]
    ELSE IF t.loc = "unix" THEN [ok |-> TRUE, proto |-> t.proto, obj |-> CanonObj(t), loc |-> "unix", port |-> "none"]
    ELSE LET pv == PortValue(t.port) IN
         IF pv = "bad" THEN Reject
         ELSE IF pv = "default" /\ t.proto = "PYRO" THEN Reject                  \* no default port for direct uris
         ELSE [ok |-> TRUE, proto |-> t.proto, obj |-> CanonObj(t), loc |-> t.loc,
               port |-> IF pv = "default" THEN "nsport" ELSE pv]
\* the text form is written with a plain decimal port and upper-case protocol
Print(v) == [proto |-> v.proto, obj |-> v.obj, loc |-> v.loc,
             port |-> CASE v.port = "none" -> "none" [] v.port = "negnumber" -> "negative" [] OTHER -> "dec"]

VARIABLE t
Init == t \in Texts
Next == UNCHANGED t
Spec == Init /\ [][Next]_t
\* "nsport" printed as a decimal port parses back as a number equal to the name-server port: identify the two
Same(a, b) == a.ok = b.ok /\ (a.ok => a.proto = b.proto /\ a.obj = b.obj /\ a.loc = b.loc
                                     /\ (a.port = b.port \/ {a.port, b.port} = {"nsport", "number"}))
RoundTrip == Parse(t).ok => Same(Parse(Print(Parse(t))), Parse(t))
FixedPoint == Parse(t).ok => Print(Parse(Print(Parse(t)))) = Print(Parse(t))
=============================================================================
