#!/usr/bin/env python3
"""re-run the property's quick check against kept seeded changes and refresh what meta.json says about detection
  tools/recheck.py [--all] [name ...]      (default: the seeds whose meta says detected = false)"""
import json, os, subprocess, sys, time
HERE = "/verif"
args = [a for a in sys.argv[1:] if not a.startswith("--")]
every = "--all" in sys.argv
names = args or sorted(os.listdir(HERE + "/seeded"))
for name in names:
    d = os.path.join(HERE, "seeded", name)
    mp = os.path.join(d, "meta.json")
    if not os.path.isfile(mp):
        continue
    m = json.load(open(mp))
    if not (every or args or not m.get("detected")):
        continue
    prop = m["property"]
    t0 = time.time()
    r = subprocess.run([HERE + "/tools/mut.py", prop, "--patch", d + "/patch.diff", "--tail", "60"], stdout=subprocess.PIPE, stderr=subprocess.STDOUT, timeout=3600)
    out = r.stdout.decode()
    if "returned non-zero exit status" in out and "patch" in out:
        m["applies_to_current_head"] = False
        json.dump(m, open(mp, "w"), indent=1)
        print(name, "patch no longer applies to the current /repo HEAD")
        continue
    sigs = [l.strip() for l in out.splitlines() if l.strip().startswith("signature:")]
    tail = [l for l in out.splitlines() if l.startswith(prop + " quick:")][-1:]
    m.setdefault("check", {})["quick"] = {"exit": r.returncode, "signatures": sigs[:12], "wall_s": round(time.time() - t0, 1), "tail": tail}
    by = set(m.get("detected_by", []))
    if r.returncode == 1:
        by.add(prop)
    m["detected"] = bool(by) or r.returncode == 1
    if by:
        m["detected_by"] = sorted(by)
    m["rechecked"] = time.strftime("%Y-%m-%d %H:%M:%S")
    json.dump(m, open(mp, "w"), indent=1)
    print(name, prop, "exit", r.returncode, sigs[:1])
