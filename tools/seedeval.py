#!/usr/bin/env python3
"""Confirm a seeded change and run the checks against it.
  tools/seedeval.py <PROP> <srcdir> <name> [--tier quick|thorough] [--skip-tests]
srcdir contains patch.diff, demo.py, notes.md.  Works in a scratch git worktree of /repo (removed afterwards);
copies the material to /verif/seeded/<name>/ with meta.json recording what was run and observed."""
import argparse, json, os, shutil, subprocess, sys, time

ap = argparse.ArgumentParser()
ap.add_argument("prop"); ap.add_argument("src"); ap.add_argument("name")
ap.add_argument("--tier", default="quick"); ap.add_argument("--skip-tests", action="store_true")
a = ap.parse_args()
wt = "/tmp/sv_%s" % a.name
PY = "/venv/bin/python"
def sh(cmd, cwd=None, timeout=3600):
    r = subprocess.run(cmd, cwd=cwd, shell=isinstance(cmd, str), stdout=subprocess.PIPE, stderr=subprocess.STDOUT, timeout=timeout)
    return r.returncode, r.stdout.decode("utf-8", "replace")
meta = {"property": a.prop, "name": a.name, "base_commit": sh("git -C /repo rev-parse HEAD")[1].strip(), "when": time.strftime("%Y-%m-%d %H:%M:%S")}
subprocess.run(["git", "-C", "/repo", "worktree", "remove", "--force", wt], stdout=subprocess.DEVNULL, stderr=subprocess.DEVNULL)
rc, out = sh(["git", "-C", "/repo", "worktree", "add", "--detach", wt, "HEAD"])
if rc: print(out); sys.exit(2)
try:
    shutil.copy(os.path.join(a.src, "demo.py"), os.path.join(wt, "_demo.py"))
    rc0, out0 = sh([PY, "-B", "_demo.py"], cwd=wt, timeout=600)
    meta["demo_unpatched_exit"] = rc0
    rc, out = sh(["git", "apply", os.path.abspath(os.path.join(a.src, "patch.diff"))], cwd=wt)
    if rc: print("patch does not apply:", out); meta["applies"] = False; sys.exit(3)
    meta["applies"] = True
    rc1, out1 = sh([PY, "-B", "_demo.py"], cwd=wt, timeout=600)
    meta["demo_patched_exit"] = rc1
    meta["demo_patched_tail"] = out1.strip().splitlines()[-3:]
    if not a.skip_tests:
        rct, outt = sh([PY, "-m", "pytest", "-q", "-p", "no:cacheprovider", "--timeout=900", "tests"], cwd=wt, timeout=1800)
        meta["tests_with_patch"] = outt.strip().splitlines()[-1]
        meta["tests_exit"] = rct
    os.unlink(os.path.join(wt, "_demo.py"))
    res = {}
    for tier in ([a.tier] if a.tier == "quick" else ["quick", "thorough"]):
        t0 = time.time()
        rcc, outc = sh(["/verif/check", a.prop, "--tier", tier, "--repo", wt], timeout=7200)
        sigs = [l.strip() for l in outc.splitlines() if l.strip().startswith("signature:")]
        res[tier] = {"exit": rcc, "signatures": sigs[:12], "wall_s": round(time.time() - t0, 1), "tail": outc.strip().splitlines()[-1:]}
        if rcc == 1:
            break
    meta["check"] = res
    meta["detected"] = any(v["exit"] == 1 for v in res.values())
    dst = "/verif/seeded/%s" % a.name
    os.makedirs(dst, exist_ok=True)
    for f in ("patch.diff", "demo.py", "notes.md"):
        if os.path.exists(os.path.join(a.src, f)):
            shutil.copy(os.path.join(a.src, f), os.path.join(dst, f))
    json.dump(meta, open(os.path.join(dst, "meta.json"), "w"), indent=1)
    print(json.dumps(meta, indent=1))
finally:
    subprocess.run(["git", "-C", "/repo", "worktree", "remove", "--force", wt], stdout=subprocess.DEVNULL, stderr=subprocess.DEVNULL)
    shutil.rmtree("/tmp/verif_replays_*", ignore_errors=True)
