#!/usr/bin/env python3
"""run another property's check against a kept seeded change and record it in the seed's meta.json
  tools/crosscheck.py <seed-name> <PROP>"""
import json, os, subprocess, sys
name, prop = sys.argv[1], sys.argv[2]
d = "/verif/seeded/" + name
r = subprocess.run(["/verif/tools/mut.py", prop, "--patch", d + "/patch.diff", "--tail", "40"], stdout=subprocess.PIPE, stderr=subprocess.STDOUT, timeout=3600)
out = r.stdout.decode()
sigs = [l.strip().replace("signature: ", "") for l in out.splitlines() if l.strip().startswith("signature:")]
m = json.load(open(d + "/meta.json"))
m.setdefault("other_checks", {})[prop] = {"exit": r.returncode, "signatures": sigs[:6]}
if r.returncode == 1:
    m["detected"] = True
    m["detected_by"] = sorted(set(m.get("detected_by", []) + [prop]))
json.dump(m, open(d + "/meta.json", "w"), indent=1)
print(name, prop, "exit", r.returncode, sigs[:2])
